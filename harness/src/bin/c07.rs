//! C07 correspondence: subtype checker (crates/wac-types/src/checker.rs).
//!
//! usage: c07 <quick|thorough> <seed> <cases_out> <impl_out> [replay_cases_in]
//!
//! The type universe is described ONCE, as small ASTs (`V`, `Func`, `K`) below.  Each case is lowered to a
//! *build program*: a text that lists `add_*` calls with arena indices.  The Rust side (here) and the OCaml
//! driver (driver/c07.ml) both interpret that text: here into a real `wac_types::Types` through the public
//! API, there into the Coq model's `types` record.
//!
//! Program text (tokens separated by one space; definitions separated by the token `;`; `.` = empty):
//!   D tuple n vt.. | D list vt | D fsl vt n | D option vt | D result ovt ovt | D variant n (name ovt).. |
//!   D record n (name vt).. | D flags n name.. | D enum n name.. | D alias vt | D stream ovt | D future ovt
//!   R name (-|rN)            resource, optional alias source
//!   F async n (name vt).. ovt
//!   I n (name kind)..        W ni (name kind).. ne (name kind)..
//!   M ni (mod name extern).. ne (name extern)..
//!   vt   = pN | dN | oN | bN     ovt = - | vt
//!   kind = tr:N tf:N tv:vt ti:N tw:N tm:N f:N i:N c:N m:N v:vt
//!   extern = func np ct.. nr ct.. | tag np ct.. nr ct.. | table ref init (max|-) t64 shared |
//!            memory m64 shared init (max|-) (psl|-) | global ct mut shared
//!   ct = i32 i64 f32 f64 v128 | ref      ref = r<0|1>.<heap>      heap = func extern ... | cN
//! Case lines (tab separated):
//!   pair  progA kindA progB kindB         two separate `Types`
//!   same  prog  kindA kindB               one `Types`
//!   memo  progA progB checks              checks = space separated  XY:kindA|kindB  (X,Y in {A,B}) on ONE checker;
//!                                         observation = all results, then the last check on a fresh checker
use std::collections::{HashMap, HashSet};
use std::io::Write;
use std::panic::{catch_unwind, AssertUnwindSafe};
use wac_types::*;
use wacv::Rng;

// ------------------------------------------------------------------------------------------------ ASTs
#[derive(Clone, Debug, PartialEq)]
struct Res { name: &'static str, alias_depth: u8 }
#[derive(Clone, Debug, PartialEq)]
enum V {
    P(u8), Own(Res), Borrow(Res), Tuple(Vec<V>), List(Box<V>), Fsl(Box<V>, u32), Opt(Box<V>),
    Result(Option<Box<V>>, Option<Box<V>>), Variant(Vec<(String, Option<V>)>), Record(Vec<(String, V)>),
    Flags(Vec<String>), Enum(Vec<String>), Alias(Box<V>), Stream(Option<Box<V>>), Future(Option<Box<V>>),
}
#[derive(Clone, Debug, PartialEq)]
struct Func { is_async: bool, params: Vec<(String, V)>, result: Option<V> }
#[derive(Clone, Debug, PartialEq)]
struct Mod { imports: Vec<(String, String, String)>, exports: Vec<(String, String)> } // externs are text already
#[derive(Clone, Debug, PartialEq)]
enum K {
    TRes(Res), TFunc(Func), TValue(V), TIface(Vec<(String, K)>), TWorld(Vec<(String, K)>, Vec<(String, K)>), TMod(Mod),
    Func(Func), Inst(Vec<(String, K)>), Comp(Vec<(String, K)>, Vec<(String, K)>), Mod(Mod), Value(V),
}

const U8: V = V::P(0);
const STRING: V = V::P(12);
fn s(x: &str) -> String { x.to_string() }
fn list(v: V) -> V { V::List(Box::new(v)) }
fn opt(v: V) -> V { V::Opt(Box::new(v)) }
fn fsl(v: V, n: u32) -> V { V::Fsl(Box::new(v), n) }
fn alias(v: V) -> V { V::Alias(Box::new(v)) }
fn ob(v: Option<V>) -> Option<Box<V>> { v.map(Box::new) }
fn result(o: Option<V>, e: Option<V>) -> V { V::Result(ob(o), ob(e)) }
fn rec(f: &[(&str, V)]) -> V { V::Record(f.iter().map(|(n, v)| (s(n), v.clone())).collect()) }
fn var(f: &[(&str, Option<V>)]) -> V { V::Variant(f.iter().map(|(n, v)| (s(n), v.clone())).collect()) }
fn names(f: &[&str]) -> Vec<String> { f.iter().map(|x| s(x)).collect() }
fn res(name: &'static str, d: u8) -> Res { Res { name, alias_depth: d } }
fn func(is_async: bool, p: &[(&str, V)], r: Option<V>) -> Func {
    Func { is_async, params: p.iter().map(|(n, v)| (s(n), v.clone())).collect(), result: r }
}
fn items(f: &[(&str, K)]) -> Vec<(String, K)> { f.iter().map(|(n, k)| (s(n), k.clone())).collect() }

// ------------------------------------------------------------------------------------------------ lowering
#[derive(Default)]
struct Lower { defs: Vec<String>, n: HashMap<char, usize>, memo: HashMap<String, usize>, hashcons: bool }
impl Lower {
    fn add(&mut self, arena: char, text: String) -> usize {
        let key = format!("{arena} {text}");
        if self.hashcons { if let Some(i) = self.memo.get(&key) { return *i; } }
        let c = self.n.entry(arena).or_insert(0);
        let i = *c; *c += 1;
        self.defs.push(key.clone());
        self.memo.insert(key, i);
        i
    }
    fn res(&mut self, r: &Res) -> usize {
        let mut i = self.add('R', format!("{} -", r.name));
        for d in 0..r.alias_depth {
            // an alias of a resource carries its own name in wac (the name under which it was used)
            let nm = if d % 2 == 0 { r.name.to_string() } else { format!("{}x", r.name) };
            i = self.add('R', format!("{nm} r{i}"));
        }
        i
    }
    fn ov(&mut self, v: &Option<Box<V>>) -> String { match v { None => "-".into(), Some(v) => self.v(v) } }
    fn v(&mut self, v: &V) -> String {
        let t = match v {
            V::P(p) => return format!("p{p}"),
            V::Own(r) => return format!("o{}", self.res(r)),
            V::Borrow(r) => return format!("b{}", self.res(r)),
            V::Tuple(l) => { let x: Vec<String> = l.iter().map(|e| self.v(e)).collect(); format!("tuple {} {}", x.len(), x.join(" ")) }
            V::List(e) => format!("list {}", self.v(e)),
            V::Fsl(e, n) => format!("fsl {} {n}", self.v(e)),
            V::Opt(e) => format!("option {}", self.v(e)),
            V::Result(o, e) => { let a = self.ov(o); let b = self.ov(e); format!("result {a} {b}") }
            V::Variant(c) => {
                let x: Vec<String> = c.iter().map(|(n, p)| { let p = p.clone().map(Box::new); format!("{n} {}", self.ov(&p)) }).collect();
                format!("variant {} {}", x.len(), x.join(" "))
            }
            V::Record(f) => { let x: Vec<String> = f.iter().map(|(n, e)| format!("{n} {}", self.v(e))).collect(); format!("record {} {}", x.len(), x.join(" ")) }
            V::Flags(l) => format!("flags {} {}", l.len(), l.join(" ")),
            V::Enum(l) => format!("enum {} {}", l.len(), l.join(" ")),
            V::Alias(e) => format!("alias {}", self.v(e)),
            V::Stream(e) => format!("stream {}", self.ov(e)),
            V::Future(e) => format!("future {}", self.ov(e)),
        };
        format!("d{}", self.add('D', t.trim_end().to_string()))
    }
    fn func(&mut self, f: &Func) -> usize {
        let ps: Vec<String> = f.params.iter().map(|(n, v)| format!("{n} {}", self.v(v))).collect();
        let r = match &f.result { None => "-".to_string(), Some(v) => self.v(v) };
        let t = format!("{} {} {} {r}", f.is_async as u8, ps.len(), ps.join(" "));
        self.add('F', t.split_whitespace().collect::<Vec<_>>().join(" "))
    }
    fn itemlist(&mut self, l: &[(String, K)]) -> String {
        let x: Vec<String> = l.iter().map(|(n, k)| format!("{n} {}", self.k(k))).collect();
        format!("{} {}", x.len(), x.join(" ")).trim_end().to_string()
    }
    fn iface(&mut self, e: &[(String, K)]) -> usize { let t = self.itemlist(e); self.add('I', t) }
    fn world(&mut self, i: &[(String, K)], e: &[(String, K)]) -> usize {
        let a = self.itemlist(i); let b = self.itemlist(e); self.add('W', format!("{a} {b}"))
    }
    fn module(&mut self, m: &Mod) -> usize {
        let i: Vec<String> = m.imports.iter().map(|(a, b, x)| format!("{a} {b} {x}")).collect();
        let e: Vec<String> = m.exports.iter().map(|(a, x)| format!("{a} {x}")).collect();
        let t = format!("{} {} {} {}", i.len(), i.join(" "), e.len(), e.join(" "));
        self.add('M', t.split_whitespace().collect::<Vec<_>>().join(" "))
    }
    fn k(&mut self, k: &K) -> String {
        match k {
            K::TRes(r) => format!("tr:{}", self.res(r)),
            K::TFunc(f) => format!("tf:{}", self.func(f)),
            K::TValue(v) => format!("tv:{}", self.v(v)),
            K::TIface(e) => format!("ti:{}", self.iface(e)),
            K::TWorld(i, e) => format!("tw:{}", self.world(i, e)),
            K::TMod(m) => format!("tm:{}", self.module(m)),
            K::Func(f) => format!("f:{}", self.func(f)),
            K::Inst(e) => format!("i:{}", self.iface(e)),
            K::Comp(i, e) => format!("c:{}", self.world(i, e)),
            K::Mod(m) => format!("m:{}", self.module(m)),
            K::Value(v) => format!("v:{}", self.v(v)),
        }
    }
    fn program(&self) -> String { if self.defs.is_empty() { ".".into() } else { self.defs.join(" ; ") } }
}
fn lower1(k: &K) -> (String, String) { let mut l = Lower::default(); let t = l.k(k); (l.program(), t) }
fn lower_same(a: &K, b: &K) -> (String, String, String) {
    let mut l = Lower { hashcons: true, ..Default::default() };
    let x = l.k(a); let y = l.k(b); (l.program(), x, y)
}

// ------------------------------------------------------------------------------------------------ universe
fn value_universe() -> Vec<V> {
    let mut v: Vec<V> = (0..14).map(V::P).collect();
    let leaves = [U8, STRING];
    for l in &leaves { v.push(list(l.clone())); v.push(opt(l.clone())); }
    v.extend([fsl(U8, 2), fsl(U8, 3), fsl(STRING, 2)]);
    v.extend([V::Tuple(vec![U8]), V::Tuple(vec![U8, U8]), V::Tuple(vec![U8, STRING]), V::Tuple(vec![STRING, U8])]);
    let arms = [None, Some(U8), Some(STRING)];
    for o in &arms { for e in &arms { v.push(result(o.clone(), e.clone())); } }
    v.extend([rec(&[("a", U8)]), rec(&[("b", U8)]), rec(&[("a", STRING)]), rec(&[("a", U8), ("b", U8)]),
              rec(&[("b", U8), ("a", U8)]), rec(&[("a", U8), ("b", STRING)])]);
    v.extend([var(&[("a", Some(U8))]), var(&[("a", None)]), var(&[("b", Some(U8))]), var(&[("a", Some(STRING))]),
              var(&[("a", Some(U8)), ("b", None)]), var(&[("a", Some(U8)), ("b", Some(U8))]), var(&[("b", None), ("a", Some(U8))])]);
    for n in [&["a"][..], &["b"], &["a", "b"], &["b", "a"], &["a", "b", "c"]] {
        v.push(V::Enum(names(n))); v.push(V::Flags(names(n)));
    }
    for p in &arms { v.push(V::Stream(ob(p.clone()))); v.push(V::Future(ob(p.clone()))); }
    v.extend([alias(U8), alias(alias(U8)), alias(STRING), alias(list(U8)), alias(alias(list(U8)))]);
    v.extend([V::Own(res("r", 0)), V::Own(res("s", 0)), V::Borrow(res("r", 0)), V::Borrow(res("s", 0)),
              V::Own(res("r", 1)), V::Own(res("r", 2))]);
    // depth 2
    let x = [list(U8), list(STRING), opt(U8), rec(&[("a", U8)]), rec(&[("b", U8)]), alias(U8), alias(list(U8)),
             V::Enum(names(&["a"])), V::Own(res("r", 0))];
    for e in &x { v.push(list(e.clone())); }
    v.extend([opt(list(U8)), opt(opt(U8)), V::Tuple(vec![list(U8), U8]), V::Tuple(vec![U8, list(U8)]),
              V::Tuple(vec![list(STRING), U8]), result(Some(list(U8)), None), result(None, Some(list(U8))),
              result(Some(list(U8)), Some(list(STRING))), rec(&[("a", list(U8))]), rec(&[("a", list(STRING))]),
              rec(&[("a", alias(list(U8)))]), rec(&[("a", rec(&[("a", U8)]))]), var(&[("a", Some(list(U8)))]),
              var(&[("a", Some(rec(&[("a", U8)])))]), var(&[("a", Some(rec(&[("b", U8)])))]),
              V::Stream(ob(Some(list(U8)))), V::Future(ob(Some(opt(U8)))), fsl(list(U8), 2), alias(list(alias(U8))),
              alias(rec(&[("a", U8)]))]);
    v
}

fn func_universe() -> Vec<Func> {
    let params: Vec<Vec<(&str, V)>> = vec![
        vec![], vec![("x", U8)], vec![("y", U8)], vec![("x", STRING)], vec![("x", U8), ("y", U8)], vec![("y", U8), ("x", U8)],
        vec![("x", list(U8))], vec![("x", list(STRING))], vec![("x", alias(U8))], vec![("x", rec(&[("a", U8)]))],
        vec![("x", V::Own(res("r", 0)))], vec![("x", V::Borrow(res("r", 0)))]];
    let mut f = Vec::new();
    for p in &params { for r in [None, Some(U8), Some(STRING)] { for a in [false, true] { f.push(func(a, p, r.clone())); } } }
    for r in [list(U8), alias(U8), result(Some(U8), None), V::Own(res("r", 0))] {
        for a in [false, true] { f.push(func(a, &[], Some(r.clone()))); }
    }
    f
}

const FUNC1: &str = "func 1 i32 0";
const FUNC2: &str = "func 0 1 i32";
const TABLE0: &str = "table r1.func 1 - 0 0";
const MEM0: &str = "memory 0 0 1 - -";
const GLOBAL0: &str = "global i32 0 0";
fn module(i: &[(&str, &str, &str)], e: &[(&str, &str)]) -> Mod {
    Mod { imports: i.iter().map(|(a, b, c)| (s(a), s(b), s(c))).collect(), exports: e.iter().map(|(a, b)| (s(a), s(b))).collect() }
}
fn module_universe() -> Vec<Mod> {
    let externs = [
        FUNC1, FUNC2, "func 2 i32 i64 0", "func 0 0", "func 1 r1.func 0", "tag 1 i32 0", "tag 0 0",
        TABLE0, "table r1.func 2 - 0 0", "table r1.func 0 - 0 0", "table r1.func 1 2 0 0", "table r1.func 1 3 0 0",
        "table r1.func 2 2 0 0", "table r1.extern 1 - 0 0", "table r1.func 1 - 1 0", "table r1.func 1 - 0 1", "table r0.func 1 - 0 0",
        MEM0, "memory 0 0 2 - -", "memory 0 0 0 - -", "memory 0 0 1 2 -", "memory 0 0 1 3 -", "memory 0 0 2 3 -",
        "memory 1 0 1 - -", "memory 0 1 1 2 -", "memory 0 0 1 - 16", "memory 0 0 1 - 14", "memory 0 0 1 - 0",
        GLOBAL0, "global i32 1 0", "global i64 0 0", "global i32 0 1", "global r1.func 0 0", "global r0.func 0 0",
    ];
    let mut m: Vec<Mod> = externs.iter().map(|x| module(&[], &[("e", x)])).collect();
    m.extend([module(&[], &[]), module(&[], &[("e", FUNC1), ("d", FUNC1)]), module(&[], &[("d", FUNC1)]),
              module(&[], &[("d", FUNC1), ("e", FUNC1)])]);
    for i in [&[("m", "n", FUNC1)][..], &[("m", "n", FUNC2)], &[("m", "n", MEM0)], &[("m", "n", "memory 0 0 2 - -")],
              &[("m", "n", "memory 0 0 1 2 -")], &[("m", "n", FUNC1), ("m", "o", FUNC1)], &[("m", "o", FUNC1)],
              &[("n", "m", FUNC1)], &[("m", "n", TABLE0)], &[("m", "n", "table r1.func 2 - 0 0")], &[("m", "n", GLOBAL0)]] {
        m.push(module(i, &[]));
        m.push(module(i, &[("e", FUNC1)]));
    }
    m
}

fn f1() -> K { K::Func(func(false, &[], None)) }
fn f2() -> K { K::Func(func(false, &[("x", U8)], None)) }
fn f1a() -> K { K::Func(func(true, &[], None)) }
fn inst(e: &[(&str, K)]) -> K { K::Inst(items(e)) }
fn comp(i: &[(&str, K)], e: &[(&str, K)]) -> K { K::Comp(items(i), items(e)) }

fn instance_universe() -> Vec<K> {
    let r = rec(&[("a", U8)]);
    vec![
        inst(&[]), inst(&[("f", f1())]), inst(&[("f", f2())]), inst(&[("f", f1a())]), inst(&[("g", f1())]),
        inst(&[("f", f1()), ("g", f1())]), inst(&[("g", f1()), ("f", f1())]), inst(&[("f", f1()), ("g", f2())]),
        inst(&[("f", f2()), ("g", f1())]), inst(&[("f", f1()), ("g", f1()), ("h", f1())]),
        inst(&[("t", K::TValue(r.clone()))]), inst(&[("t", K::TValue(rec(&[("b", U8)])))]), inst(&[("t", K::TValue(U8))]),
        inst(&[("t", K::TValue(alias(U8)))]),
        inst(&[("t", K::TValue(r.clone())), ("f", K::Func(func(false, &[("x", r.clone())], None)))]),
        inst(&[("t", K::TValue(r.clone())), ("f", K::Func(func(false, &[("x", alias(r.clone()))], None)))]),
        inst(&[("f", K::Value(U8))]), inst(&[("f", K::Value(STRING))]),
        inst(&[("f", K::TFunc(func(false, &[], None)))]), inst(&[("f", K::TFunc(func(false, &[("x", U8)], None)))]),
        inst(&[("f", inst(&[]))]), inst(&[("f", inst(&[("f", f1())]))]), inst(&[("f", inst(&[("f", f2())]))]),
        inst(&[("f", inst(&[("f", f1()), ("g", f1())]))]),
        inst(&[("f", comp(&[], &[]))]), inst(&[("f", comp(&[("i", f1())], &[]))]), inst(&[("f", K::Mod(module(&[], &[("e", FUNC1)])))]),
        inst(&[("r", K::TRes(res("r", 0)))]), inst(&[("r", K::TRes(res("s", 0)))]),
        inst(&[("r", K::TRes(res("r", 0))), ("f", K::Func(func(false, &[("x", V::Own(res("r", 0)))], None)))]),
        inst(&[("f", K::TIface(items(&[("f", f1())])))]), inst(&[("f", K::TWorld(items(&[]), items(&[("e", f1())])))]),
    ]
}

fn component_universe() -> Vec<K> {
    let imports: Vec<Vec<(&str, K)>> = vec![
        vec![], vec![("i", f1())], vec![("i", f2())], vec![("j", f1())], vec![("i", f1()), ("j", f1())],
        vec![("i", inst(&[("f", f1())]))], vec![("i", inst(&[("f", f1()), ("g", f1())]))], vec![("i", inst(&[("f", f2())]))]];
    let exports: Vec<Vec<(&str, K)>> = vec![
        vec![], vec![("e", f1())], vec![("e", f2())], vec![("e", f1()), ("d", f1())],
        vec![("e", inst(&[("f", f1())]))], vec![("e", inst(&[("f", f1()), ("g", f1())]))]];
    let mut c = Vec::new();
    for i in &imports { for e in &exports { c.push(comp(i, e)); } }
    c.extend([
        comp(&[("i", comp(&[("i", f1())], &[]))], &[]), comp(&[("i", comp(&[], &[]))], &[]),
        comp(&[("i", comp(&[], &[("e", f1())]))], &[]), comp(&[], &[("e", comp(&[], &[("e", f1())]))]),
        comp(&[], &[("e", comp(&[], &[]))]), comp(&[], &[("e", comp(&[("i", f1())], &[]))]),
        comp(&[("i", K::Value(U8))], &[]), comp(&[("i", K::TValue(U8))], &[]),
        comp(&[("i", K::Mod(module(&[], &[("e", FUNC1)])))], &[]), comp(&[("i", K::Mod(module(&[], &[])))], &[]),
        comp(&[("i", K::TRes(res("r", 0)))], &[("e", K::Func(func(false, &[("x", V::Own(res("r", 0)))], None)))]),
    ]);
    c
}

fn universe() -> Vec<K> {
    let mut u: Vec<K> = Vec::new();
    let vs = value_universe();
    for v in &vs { u.push(K::Value(v.clone())); }
    for v in [U8, STRING, list(U8), rec(&[("a", U8)]), rec(&[("b", U8)]), alias(U8), V::Enum(names(&["a"])), alias(rec(&[("a", U8)]))] {
        u.push(K::TValue(v));
    }
    let fs = func_universe();
    for f in &fs { u.push(K::Func(f.clone())); }
    for f in [&fs[0], &fs[1], &fs[2], &fs[6]] { u.push(K::TFunc(f.clone())); }
    let is = instance_universe();
    for (n, i) in is.iter().enumerate() {
        u.push(i.clone());
        if n < 4 { if let K::Inst(e) = i { u.push(K::TIface(e.clone())); } }
    }
    let cs = component_universe();
    for (n, c) in cs.iter().enumerate() {
        u.push(c.clone());
        if n == 0 || n == 7 || n == 13 { if let K::Comp(i, e) = c { u.push(K::TWorld(i.clone(), e.clone())); } }
    }
    let ms = module_universe();
    for (n, m) in ms.iter().enumerate() {
        u.push(K::Mod(m.clone()));
        if n == 0 || n == 7 { u.push(K::TMod(m.clone())); }
    }
    for r in [res("r", 0), res("s", 0), res("r", 1), res("r", 2)] { u.push(K::TRes(r)); }
    u
}

/// Token lists differ in exactly one position: one substituted token, or one contiguous inserted block.
fn one_position(a: &[&str], b: &[&str]) -> bool {
    let (a, b) = if a.len() <= b.len() { (a, b) } else { (b, a) };
    let mut p = 0; while p < a.len() && a[p] == b[p] { p += 1; }
    let mut q = 0; while q < a.len() - p && a[a.len() - 1 - q] == b[b.len() - 1 - q] { q += 1; }
    if a.len() == b.len() { a != b && p + q + 1 >= a.len() } else { p + q >= a.len() }
}

// random deeper types (seeded) and one-position mutations of them
fn rand_name(r: &mut Rng) -> String { s(*r.pick(&["a", "b", "c", "x", "y", "foo-bar"])) }
fn rand_v(r: &mut Rng, depth: u32) -> V {
    if depth == 0 || r.chance(1, 4) { return V::P(r.below(14) as u8); }
    let d = depth - 1;
    match r.below(13) {
        0 => list(rand_v(r, d)), 1 => opt(rand_v(r, d)), 2 => fsl(rand_v(r, d), 1 + r.below(3) as u32),
        3 => V::Tuple((0..1 + r.below(3)).map(|_| rand_v(r, d)).collect()),
        4 => result(if r.chance(1, 2) { Some(rand_v(r, d)) } else { None }, if r.chance(1, 2) { Some(rand_v(r, d)) } else { None }),
        5 => { let n = 1 + r.below(3); let mut seen = HashSet::new(); let mut f = Vec::new();
               for _ in 0..n { let k = rand_name(r); if seen.insert(k.clone()) { f.push((k, rand_v(r, d))); } } V::Record(f) }
        6 => { let n = 1 + r.below(3); let mut seen = HashSet::new(); let mut f = Vec::new();
               for _ in 0..n { let k = rand_name(r); if seen.insert(k.clone()) { f.push((k, if r.chance(1, 2) { Some(rand_v(r, d)) } else { None })); } } V::Variant(f) }
        7 => { let mut l = Vec::new(); for _ in 0..1 + r.below(3) { let k = rand_name(r); if !l.contains(&k) { l.push(k); } } V::Enum(l) }
        8 => { let mut l = Vec::new(); for _ in 0..1 + r.below(3) { let k = rand_name(r); if !l.contains(&k) { l.push(k); } } V::Flags(l) }
        9 => alias(rand_v(r, d)),
        10 => V::Stream(ob(if r.chance(1, 2) { Some(rand_v(r, d)) } else { None })),
        11 => V::Future(ob(if r.chance(1, 2) { Some(rand_v(r, d)) } else { None })),
        _ => if r.chance(1, 2) { V::Own(res("r", r.below(2) as u8)) } else { V::Borrow(res("s", 0)) },
    }
}
fn rand_func(r: &mut Rng, depth: u32) -> Func {
    let mut seen = HashSet::new(); let mut p = Vec::new();
    for _ in 0..r.below(4) { let k = rand_name(r); if seen.insert(k.clone()) { p.push((k, rand_v(r, depth))); } }
    Func { is_async: r.chance(1, 3), params: p, result: if r.chance(1, 2) { Some(rand_v(r, depth)) } else { None } }
}
fn rand_items(r: &mut Rng, depth: u32) -> Vec<(String, K)> {
    let mut seen = HashSet::new(); let mut l = Vec::new();
    for _ in 0..r.below(4) { let k = rand_name(r); if seen.insert(k.clone()) { l.push((k, rand_k(r, depth))); } }
    l
}
fn rand_k(r: &mut Rng, depth: u32) -> K {
    if depth == 0 { return if r.chance(1, 2) { K::Func(rand_func(r, 1)) } else { K::Value(rand_v(r, 1)) }; }
    let d = depth - 1;
    match r.below(10) {
        0 | 1 => K::Func(rand_func(r, d)), 2 => K::Value(rand_v(r, depth)), 3 | 4 => K::Inst(rand_items(r, d)),
        5 | 6 => K::Comp(rand_items(r, d), rand_items(r, d)), 7 => K::TValue(rand_v(r, d)), 8 => K::TIface(rand_items(r, d)),
        _ => { let ms = module_universe(); K::Mod(r.pick(&ms).clone()) }
    }
}
/// A name not yet used in `used` (IndexMap/IndexSet keys are unique; a duplicate would silently collapse on the Rust side).
fn fresh_name<'a>(used: impl Iterator<Item = &'a String>) -> String {
    let u: Vec<&String> = used.collect();
    for c in ["zz", "zy", "zx", "zw", "zv"] { if !u.iter().any(|x| x.as_str() == c) { return s(c); } }
    format!("z{}", u.len())
}
fn renamed<'a>(old: &str, used: impl Iterator<Item = &'a String>) -> String {
    let u: Vec<&String> = used.collect();
    let mut n = format!("{old}z");
    while u.iter().any(|x| **x == n) { n.push('z'); }
    n
}
/// Mutate one position (type, name, arity, flag, presence).
fn mutate_v(r: &mut Rng, v: &V) -> V {
    let deeper = r.chance(2, 3);
    match v {
        V::List(e) if deeper => list(mutate_v(r, e)),
        V::Opt(e) if deeper => opt(mutate_v(r, e)),
        V::Alias(e) => if deeper { alias(mutate_v(r, e)) } else { (**e).clone() },
        V::Fsl(e, n) => if deeper { fsl(mutate_v(r, e), *n) } else { V::Fsl(e.clone(), n + 1) },
        V::Tuple(l) if !l.is_empty() => {
            let mut l = l.clone(); let i = r.below(l.len() as u64) as usize;
            if deeper { l[i] = mutate_v(r, &l[i]); } else if r.chance(1, 2) { l.push(U8); } else if l.len() > 1 { l.remove(i); } else { l.push(STRING); }
            V::Tuple(l)
        }
        V::Record(f) if !f.is_empty() => {
            let mut f = f.clone(); let i = r.below(f.len() as u64) as usize;
            match r.below(4) { 0 => f[i].1 = mutate_v(r, &f[i].1), 1 => f[i].0 = renamed(&f[i].0, f.iter().map(|x| &x.0)),
                               2 => { let n = fresh_name(f.iter().map(|x| &x.0)); f.push((n, U8)) }
                               _ => { f.reverse(); if f.len() == 1 { f[0].0 = s("q"); } } }
            V::Record(f)
        }
        V::Variant(f) if !f.is_empty() => {
            let mut f = f.clone(); let i = r.below(f.len() as u64) as usize;
            match r.below(4) {
                0 => f[i].1 = match &f[i].1 { Some(x) => Some(mutate_v(r, x)), None => Some(U8) },
                1 => f[i].0 = renamed(&f[i].0, f.iter().map(|x| &x.0)), 2 => f[i].1 = match &f[i].1 { Some(_) => None, None => Some(STRING) },
                _ => { let n = fresh_name(f.iter().map(|x| &x.0)); f.push((n, None)) } }
            V::Variant(f)
        }
        V::Enum(l) => { let mut l = l.clone(); if r.chance(1, 2) { let n = fresh_name(l.iter()); l.push(n); } else { l[0] = renamed(&l[0], l.iter()); } V::Enum(l) }
        V::Flags(l) => { let mut l = l.clone(); if r.chance(1, 2) { let n = fresh_name(l.iter()); l.push(n); } else { l[0] = renamed(&l[0], l.iter()); } V::Flags(l) }
        V::Result(o, e) => match r.below(4) {
            0 => V::Result(match o { Some(_) => None, None => Some(Box::new(U8)) }, e.clone()),
            1 => V::Result(o.clone(), match e { Some(_) => None, None => Some(Box::new(U8)) }),
            2 => V::Result(o.as_ref().map(|x| Box::new(mutate_v(r, x))), e.clone()),
            _ => V::Result(o.clone(), e.as_ref().map(|x| Box::new(mutate_v(r, x)))) },
        V::Stream(p) => V::Stream(match p { Some(x) if deeper => Some(Box::new(mutate_v(r, x))), Some(_) => None, None => Some(Box::new(U8)) }),
        V::Future(p) => V::Future(match p { Some(x) if deeper => Some(Box::new(mutate_v(r, x))), Some(_) => None, None => Some(Box::new(U8)) }),
        V::P(p) => match r.below(3) { 0 => alias(V::P(*p)), _ => V::P((p + 1) % 14) },
        V::Own(x) => if r.chance(1, 2) { V::Borrow(x.clone()) } else { V::Own(res("s", 0)) },
        V::Borrow(x) => if r.chance(1, 2) { V::Own(x.clone()) } else { V::Borrow(res("r", 0)) },
        other => alias(other.clone()),
    }
}
fn mutate_func(r: &mut Rng, f: &Func) -> Func {
    let mut f = f.clone();
    match r.below(6) {
        0 => f.is_async = !f.is_async,
        1 => f.result = match &f.result { Some(_) => None, None => Some(U8) },
        2 => if let Some(x) = &f.result { f.result = Some(mutate_v(r, x)); } else { f.is_async = !f.is_async },
        3 => { let n = fresh_name(f.params.iter().map(|x| &x.0)); f.params.push((n, U8)) }
        4 => if !f.params.is_empty() { let i = r.below(f.params.len() as u64) as usize; f.params[i].0 = renamed(&f.params[i].0, f.params.iter().map(|x| &x.0)); } else { f.params.push((s("zz"), STRING)) },
        _ => if !f.params.is_empty() { let i = r.below(f.params.len() as u64) as usize; f.params[i].1 = mutate_v(r, &f.params[i].1); } else { f.result = Some(STRING) },
    }
    f
}
fn mutate_items(r: &mut Rng, l: &[(String, K)]) -> Vec<(String, K)> {
    let mut l = l.to_vec();
    if l.is_empty() { l.push((s("zz"), f1())); return l; }
    let i = r.below(l.len() as u64) as usize;
    match r.below(5) {
        0 => { l.remove(i); } 1 => { let n = fresh_name(l.iter().map(|x| &x.0)); l.push((n, f1())) }
        2 => l[i].0 = renamed(&l[i].0, l.iter().map(|x| &x.0)), 3 => l.reverse(),
        _ => l[i].1 = mutate_k(r, &l[i].1) }
    l
}
fn mutate_k(r: &mut Rng, k: &K) -> K {
    match k {
        K::Func(f) => if r.chance(1, 10) { K::TFunc(f.clone()) } else { K::Func(mutate_func(r, f)) },
        K::TFunc(f) => K::TFunc(mutate_func(r, f)),
        K::Value(v) => if r.chance(1, 10) { K::TValue(v.clone()) } else { K::Value(mutate_v(r, v)) },
        K::TValue(v) => K::TValue(mutate_v(r, v)),
        K::Inst(e) => if r.chance(1, 10) { K::TIface(e.clone()) } else { K::Inst(mutate_items(r, e)) },
        K::TIface(e) => K::TIface(mutate_items(r, e)),
        K::Comp(i, e) => if r.chance(1, 2) { K::Comp(mutate_items(r, i), e.clone()) } else { K::Comp(i.clone(), mutate_items(r, e)) },
        K::TWorld(i, e) => K::TWorld(i.clone(), mutate_items(r, e)),
        K::Mod(_) | K::TMod(_) => { let ms = module_universe(); K::Mod(r.pick(&ms).clone()) }
        K::TRes(_) => K::TRes(res("s", 1)),
    }
}

// ------------------------------------------------------------------------------------------------ interpreter: text -> Types
#[derive(Default)]
struct Built { types: Types, d: Vec<DefinedTypeId>, r: Vec<ResourceId>, f: Vec<FuncTypeId>, i: Vec<InterfaceId>, w: Vec<WorldId>, m: Vec<ModuleTypeId> }
struct Toks<'a> { t: Vec<&'a str>, p: usize }
impl<'a> Toks<'a> {
    fn next(&mut self) -> &'a str { let x = self.t[self.p]; self.p += 1; x }
    fn num(&mut self) -> u64 { self.next().parse().unwrap() }
    fn flag(&mut self) -> bool { self.next() == "1" }
    fn onum(&mut self) -> Option<u64> { let x = self.next(); if x == "-" { None } else { Some(x.parse().unwrap()) } }
}
const PRIMS: [PrimitiveType; 14] = [PrimitiveType::U8, PrimitiveType::S8, PrimitiveType::U16, PrimitiveType::S16, PrimitiveType::U32,
    PrimitiveType::S32, PrimitiveType::U64, PrimitiveType::S64, PrimitiveType::F32, PrimitiveType::F64, PrimitiveType::Char,
    PrimitiveType::Bool, PrimitiveType::String, PrimitiveType::ErrorContext];
impl Built {
    fn vt(&self, x: &str) -> ValueType {
        let n: usize = x[1..].parse().unwrap();
        match &x[..1] { "p" => ValueType::Primitive(PRIMS[n]), "d" => ValueType::Defined(self.d[n]), "o" => ValueType::Own(self.r[n]),
                        "b" => ValueType::Borrow(self.r[n]), _ => panic!("bad vt {x}") }
    }
    fn ovt(&self, x: &str) -> Option<ValueType> { if x == "-" { None } else { Some(self.vt(x)) } }
    fn kind(&self, x: &str) -> ItemKind {
        let (tag, rest) = x.split_once(':').unwrap();
        let n = || -> usize { rest.parse().unwrap() };
        match tag {
            "tr" => ItemKind::Type(Type::Resource(self.r[n()])), "tf" => ItemKind::Type(Type::Func(self.f[n()])),
            "tv" => ItemKind::Type(Type::Value(self.vt(rest))), "ti" => ItemKind::Type(Type::Interface(self.i[n()])),
            "tw" => ItemKind::Type(Type::World(self.w[n()])), "tm" => ItemKind::Type(Type::Module(self.m[n()])),
            "f" => ItemKind::Func(self.f[n()]), "i" => ItemKind::Instance(self.i[n()]), "c" => ItemKind::Component(self.w[n()]),
            "m" => ItemKind::Module(self.m[n()]), "v" => ItemKind::Value(self.vt(rest)), _ => panic!("bad kind {x}"),
        }
    }
    fn items(&self, t: &mut Toks) -> indexmap::IndexMap<String, ItemKind> {
        let n = t.num(); let mut m = indexmap::IndexMap::new();
        for _ in 0..n { let k = t.next().to_string(); let v = self.kind(t.next()); m.insert(k, v); }
        m
    }
}
fn heap(x: &str) -> HeapType {
    match x { "func" => HeapType::Func, "extern" => HeapType::Extern, "any" => HeapType::Any, "none" => HeapType::None,
              "noextern" => HeapType::NoExtern, "nofunc" => HeapType::NoFunc, "eq" => HeapType::Eq, "struct" => HeapType::Struct,
              "array" => HeapType::Array, "i31" => HeapType::I31, "exn" => HeapType::Exn, "noexn" => HeapType::NoExn,
              "cont" => HeapType::Cont, "nocont" => HeapType::NoCont, c => HeapType::Concrete(c[1..].parse().unwrap()) }
}
fn reft(x: &str) -> CoreRefType { let (n, h) = x[1..].split_once('.').unwrap(); CoreRefType { nullable: n == "1", heap_type: heap(h) } }
fn coret(x: &str) -> CoreType {
    match x { "i32" => CoreType::I32, "i64" => CoreType::I64, "f32" => CoreType::F32, "f64" => CoreType::F64, "v128" => CoreType::V128, r => CoreType::Ref(reft(r)) }
}
fn corefunc(t: &mut Toks) -> CoreFuncType {
    let np = t.num(); let params = (0..np).map(|_| coret(t.next())).collect();
    let nr = t.num(); let results = (0..nr).map(|_| coret(t.next())).collect();
    CoreFuncType { params, results }
}
fn coreextern(t: &mut Toks) -> CoreExtern {
    match t.next() {
        "func" => CoreExtern::Func(corefunc(t)), "tag" => CoreExtern::Tag(corefunc(t)),
        "table" => { let element_type = reft(t.next()); let initial = t.num(); let maximum = t.onum(); let table64 = t.flag(); let shared = t.flag();
                     CoreExtern::Table { element_type, initial, maximum, table64, shared } }
        "memory" => { let memory64 = t.flag(); let shared = t.flag(); let initial = t.num(); let maximum = t.onum(); let p = t.onum();
                      CoreExtern::Memory { memory64, shared, initial, maximum, page_size_log2: p.map(|x| x as u32) } }
        "global" => { let val_type = coret(t.next()); let mutable = t.flag(); let shared = t.flag(); CoreExtern::Global { val_type, mutable, shared } }
        x => panic!("bad extern {x}"),
    }
}
fn build(prog: &str) -> Built {
    let mut b = Built::default();
    if prog.trim() == "." { return b; }
    for def in prog.split(" ; ") {
        let mut t = Toks { t: def.split(' ').filter(|x| !x.is_empty()).collect(), p: 0 };
        match t.next() {
            "D" => {
                let ty = match t.next() {
                    "tuple" => { let n = t.num(); DefinedType::Tuple((0..n).map(|_| b.vt(t.next())).collect()) }
                    "list" => DefinedType::List(b.vt(t.next())),
                    "fsl" => { let v = b.vt(t.next()); DefinedType::FixedSizeList(v, t.num() as u32) }
                    "option" => DefinedType::Option(b.vt(t.next())),
                    "result" => { let ok = b.ovt(t.next()); let err = b.ovt(t.next()); DefinedType::Result { ok, err } }
                    "variant" => { let n = t.num(); let mut cases = indexmap::IndexMap::new();
                                   for _ in 0..n { let k = t.next().to_string(); cases.insert(k, b.ovt(t.next())); } DefinedType::Variant(Variant { cases }) }
                    "record" => { let n = t.num(); let mut fields = indexmap::IndexMap::new();
                                  for _ in 0..n { let k = t.next().to_string(); fields.insert(k, b.vt(t.next())); } DefinedType::Record(Record { fields }) }
                    "flags" => { let n = t.num(); DefinedType::Flags(Flags((0..n).map(|_| t.next().to_string()).collect())) }
                    "enum" => { let n = t.num(); DefinedType::Enum(Enum((0..n).map(|_| t.next().to_string()).collect())) }
                    "alias" => DefinedType::Alias(b.vt(t.next())),
                    "stream" => DefinedType::Stream(b.ovt(t.next())),
                    "future" => DefinedType::Future(b.ovt(t.next())),
                    x => panic!("bad defined {x}"),
                };
                let id = b.types.add_defined_type(ty); b.d.push(id);
            }
            "R" => {
                let name = t.next().to_string(); let a = t.next();
                let alias = if a == "-" { None } else { Some(ResourceAlias { owner: None, source: b.r[a[1..].parse::<usize>().unwrap()] }) };
                let id = b.types.add_resource(Resource { name, alias }); b.r.push(id);
            }
            "F" => {
                let is_async = t.flag(); let n = t.num(); let mut params = indexmap::IndexMap::new();
                for _ in 0..n { let k = t.next().to_string(); params.insert(k, b.vt(t.next())); }
                let result = b.ovt(t.next());
                let id = b.types.add_func_type(FuncType { params, result, is_async }); b.f.push(id);
            }
            "I" => { let exports = b.items(&mut t); let id = b.types.add_interface(Interface { id: None, uses: Default::default(), exports }); b.i.push(id); }
            "W" => { let imports = b.items(&mut t); let exports = b.items(&mut t);
                     let id = b.types.add_world(World { id: None, uses: Default::default(), imports, exports }); b.w.push(id); }
            "M" => {
                let ni = t.num(); let mut imports = indexmap::IndexMap::new();
                for _ in 0..ni { let a = t.next().to_string(); let n = t.next().to_string(); imports.insert((a, n), coreextern(&mut t)); }
                let ne = t.num(); let mut exports = indexmap::IndexMap::new();
                for _ in 0..ne { let n = t.next().to_string(); exports.insert(n, coreextern(&mut t)); }
                let id = b.types.add_module_type(ModuleType { imports, exports }); b.m.push(id);
            }
            x => panic!("bad def {x}"),
        }
    }
    b
}

// ------------------------------------------------------------------------------------------------ observation
fn word(x: &str) -> String { x.replace(' ', "_") }
fn first_of<'a>(m: &'a str, a: &str, b: &str) -> &'static str {
    match (m.find(a), m.find(b)) { (Some(x), Some(y)) => if x < y { "imp" } else { "exp" }, (Some(_), None) => "imp", (None, Some(_)) => "exp", _ => "?" }
}
/// Class of the root cause of an error (never the message text itself beyond the fixed words of a format string).
fn classify(e: &anyhow::Error) -> String {
    let m = e.root_cause().to_string();
    let m = m.as_str();
    let core = ["table", "memory", "global", "tag"];
    if m.starts_with("expected resource `") { return "resource".into(); }
    if m == "expected async function, found sync function" { return "funcasync(1)".into(); }
    if m == "expected sync function, found async function" { return "funcasync(0)".into(); }
    if m.starts_with("expected function with parameter count") { return "paramcount".into(); }
    if m.starts_with("expected function parameter ") { return "paramname".into(); }
    if m == "expected function with a result, found function without a result" { return "funcresult(1)".into(); }
    if m == "expected function without a result, found function with a result" { return "funcresult(0)".into(); }
    if m.starts_with("instance is missing expected ") { return "instmissing".into(); }
    if m.starts_with("instance has unexpected ") { return "instunexpected".into(); }
    if m.starts_with("component is missing expected ") { return format!("comp{}missing", first_of(m, " import `", " export `")); }
    if m.starts_with("component has unexpected import ") { return "compimpunexpected".into(); }
    if m.starts_with("component has unexpected ") { return "compexpunexpected".into(); }
    if m.starts_with("module is missing expected ") { return format!("mod{}missing", first_of(m, " import `", " export `")); }
    if m.starts_with("module has unexpected ") { return format!("mod{}unexpected", first_of(m, " import `", " export `")); }
    if m.starts_with("expected table element type") { return "tableelem".into(); }
    for (t, c) in [("mismatched table limits", "tablelimits"), ("mismatched table64 flag for tables", "table64"),
                   ("mismatched shared flag for tables", "tableshared"), ("mismatched shared flag for memories", "memshared"),
                   ("mismatched memory64 flag for memories", "mem64"), ("mismatched memory limits", "memlimits"),
                   ("mismatched page_size_log2 for memories", "mempage"), ("mismatched mutable flag for globals", "globalmut"),
                   ("mismatched shared flag for globals", "globalshared"), ("mismatched size for fixed size list element", "fslsize"),
                   ("expected an `ok` for result type", "resultarm(ok,1)"), ("expected no `ok` for result type", "resultarm(ok,0)"),
                   ("expected an `err` for result type", "resultarm(err,1)"), ("expected no `err` for result type", "resultarm(err,0)"),
                   ("expected a type payload, found none", "payload(1)"), ("expected no type payload, found one", "payload(0)")] {
        if m == t { return c.into(); }
    }
    if m.starts_with("expected global type") { return "globaltype".into(); }
    if m.starts_with("expected an enum type case count") { return "enumcount".into(); }
    if m.starts_with("expected enum case ") { return "enumname".into(); }
    if m.starts_with("expected a flags type flag count") { return "flagscount".into(); }
    if m.starts_with("expected flag ") { return "flagsname".into(); }
    if m.starts_with("expected a record field count") { return "recordcount".into(); }
    if m.starts_with("expected record field ") { return "recordname".into(); }
    if m.starts_with("expected a variant case count") { return "variantcount".into(); }
    if m.starts_with("expected variant case ") {
        if m.contains(" to be named `") { return "variantname".into(); }
        if m.ends_with(" to be untyped, found a typed case") { return "variantpayload(0)".into(); }
        if m.ends_with(" to be typed, found an untyped case") { return "variantpayload(1)".into(); }
    }
    if m.starts_with("expected a tuple of size") { return "tuplesize".into(); }
    if let Some(rest) = m.strip_prefix("expected ") {
        if let Some((e, f)) = rest.split_once(", found ") {
            if e.starts_with('[') { return "corefunc".into(); }
            if core.contains(&e) || core.contains(&f) { return format!("corekind({e},{f})"); }
            return format!("expfound({},{})", word(e), word(f));
        }
    }
    format!("other:{}", word(m))
}
fn obs(r: anyhow::Result<()>) -> String { match r { Ok(()) => "ok".into(), Err(e) => format!("E:{}", classify(&e)) } }

fn run_case(f: &[&str]) -> String {
    match f {
        ["pair", pa, ka, pb, kb] => {
            let a = build(pa); let b = build(pb);
            let (x, y) = (a.kind(ka), b.kind(kb));
            let mut cache = HashSet::new();
            let mut c = SubtypeChecker::new(&mut cache);
            obs(c.is_subtype(x, &a.types, y, &b.types))
        }
        ["same", p, ka, kb] => {
            let a = build(p);
            let (x, y) = (a.kind(ka), a.kind(kb));
            let mut cache = HashSet::new();
            let mut c = SubtypeChecker::new(&mut cache);
            obs(c.is_subtype(x, &a.types, y, &a.types))
        }
        ["memo", pa, pb, checks] => {
            let a = build(pa); let b = build(pb);
            let side = |c: char| -> &Built { if c == 'A' { &a } else { &b } };
            let mut cache = HashSet::new();
            let mut c = SubtypeChecker::new(&mut cache);
            let mut out = Vec::new();
            let mut last = None;
            for chk in checks.split(' ') {
                let (sides, ks) = chk.split_once(':').unwrap();
                let (ka, kb) = ks.split_once('|').unwrap();
                let (sa, sb) = (side(sides.chars().next().unwrap()), side(sides.chars().nth(1).unwrap()));
                let (x, y) = (sa.kind(ka), sb.kind(kb));
                // a panic inside one check must not hide the others
                let r = catch_unwind(AssertUnwindSafe(|| obs(c.is_subtype(x, &sa.types, y, &sb.types)))).unwrap_or_else(|_| "PANIC".into());
                out.push(r);
                last = Some((x, sa, y, sb));
            }
            let (x, sa, y, sb) = last.unwrap();
            let mut cache2 = HashSet::new();
            let mut c2 = SubtypeChecker::new(&mut cache2);
            format!("{}\t{}", out.join(","), obs(c2.is_subtype(x, &sa.types, y, &sb.types)))
        }
        _ => "BAD-LINE".into(),
    }
}

// ------------------------------------------------------------------------------------------------ case generation
fn memo_kinds() -> Vec<K> {
    let i1 = inst(&[("f", f1())]); let i2 = inst(&[("f", f1()), ("g", f1())]); let i3 = inst(&[("f", f2())]);
    let c1 = comp(&[("i", i1.clone())], &[("e", i1.clone())]);
    let c2 = comp(&[("i", i2.clone())], &[("e", i2.clone())]);
    let c3 = comp(&[("i", i3.clone())], &[("e", i1.clone())]);
    vec![f1(), f2(), i1.clone(), i2.clone(), i3.clone(), c1.clone(), c2.clone(), c3.clone(),
         comp(&[("c", c1.clone())], &[]), comp(&[("c", c2.clone())], &[]),
         inst(&[("x", i1.clone()), ("y", i2.clone())]), inst(&[("x", i2.clone()), ("y", i1.clone())])]
}
/// Further kinds for the reversed-pair histories: TYPE items whose type is width-subtyped (interface, world, module
/// type), narrow and wide, bare and nested as type exports/imports of instances and components; plus equality-based
/// items (func type, value type, plain func/value) for contrast.
fn memo_kinds_typed() -> Vec<K> {
    let e1 = items(&[("f", f1())]); let e2 = items(&[("f", f1()), ("g", f1())]);
    let ti1 = K::TIface(e1.clone()); let ti2 = K::TIface(e2.clone());
    let tw1 = K::TWorld(items(&[]), e1.clone()); let tw2 = K::TWorld(items(&[]), e2.clone());
    let tw3 = K::TWorld(e1.clone(), items(&[])); let tw4 = K::TWorld(e2.clone(), items(&[]));
    let m1 = module(&[], &[("e", FUNC1)]); let m2 = module(&[], &[("e", FUNC1), ("d", FUNC1)]);
    let m3 = module(&[], &[("e", MEM0)]); let m4 = module(&[], &[("e", "memory 0 0 2 - -")]);
    let tm1 = K::TMod(m1.clone()); let tm2 = K::TMod(m2.clone());
    vec![ti1.clone(), ti2.clone(), tw1.clone(), tw2.clone(), tw3.clone(), tw4.clone(), tm1.clone(), tm2.clone(),
         K::TMod(m3.clone()), K::TMod(m4.clone()),
         inst(&[("t", ti1.clone())]), inst(&[("t", ti2.clone())]),
         inst(&[("t", tw1.clone())]), inst(&[("t", tw2.clone())]),
         inst(&[("t", tm1.clone())]), inst(&[("t", tm2.clone())]),
         comp(&[], &[("t", ti1.clone())]), comp(&[], &[("t", ti2.clone())]),
         comp(&[("t", ti1.clone())], &[]), comp(&[("t", ti2.clone())], &[]),
         inst(&[("n", inst(&[("t", ti1.clone())]))]), inst(&[("n", inst(&[("t", ti2.clone())]))]),
         K::TFunc(func(false, &[], None)), K::TFunc(func(false, &[("x", U8)], None)),
         K::TValue(rec(&[("a", U8)])), K::TValue(alias(rec(&[("a", U8)]))), K::TValue(rec(&[("b", U8)])),
         K::Value(list(U8)), K::Value(alias(list(U8))), K::Mod(m1), K::Mod(m2)]
}

fn generate(tier: &str, seed: u64) -> Vec<String> {
    let thorough = tier == "thorough";
    let mut r = Rng::new(seed);
    let mut cases = Vec::new();
    let u = universe();
    let low: Vec<(String, String)> = u.iter().map(lower1).collect();
    let toks: Vec<Vec<&str>> = low.iter().map(|(p, k)| { let mut t: Vec<&str> = p.split(' ').collect(); t.push(k.split(':').next().unwrap()); t }).collect();
    let n = u.len();
    let pair = |i: usize, j: usize| format!("pair\t{}\t{}\t{}\t{}", low[i].0, low[i].1, low[j].0, low[j].1);
    // 1. ordered pairs of the universe, each side built in its own Types
    if thorough {
        for i in 0..n { for j in 0..n { cases.push(pair(i, j)); } }
    } else {
        let mut chosen = HashSet::new();
        for i in 0..n { chosen.insert((i, i)); }                         // reflexivity across independently built copies
        for i in 0..n { for j in 0..n { if i != j && one_position(&toks[i], &toks[j]) { chosen.insert((i, j)); } } }
        let target = chosen.len() + 15_000;
        while chosen.len() < target.min(n * n) { chosen.insert((r.below(n as u64) as usize, r.below(n as u64) as usize)); }
        let mut l: Vec<(usize, usize)> = chosen.into_iter().collect(); l.sort();
        for (i, j) in l { cases.push(pair(i, j)); }
    }
    // 2. both kinds in ONE Types, identical definitions shared (identifier-equality shortcuts)
    for i in 0..n { let (p, x, y) = lower_same(&u[i], &u[i]); cases.push(format!("same\t{p}\t{x}\t{y}")); }
    let nsame = if thorough { 40_000 } else { 4_000 };
    for _ in 0..nsame {
        let i = r.below(n as u64) as usize;
        // bias towards related kinds: neighbours in the universe listing are variations of one another
        let j = if r.chance(2, 3) { (i + n + r.below(9) as usize - 4) % n } else { r.below(n as u64) as usize };
        let (p, x, y) = lower_same(&u[i], &u[j]); cases.push(format!("same\t{p}\t{x}\t{y}"));
    }
    // 3. random deeper types and one-position mutants, both directions
    let nrand = if thorough { 30_000 } else { 3_000 };
    for _ in 0..nrand {
        let d = 2 + r.below(3) as u32;
        let a = rand_k(&mut r, d);
        let b = if r.chance(1, 8) { a.clone() } else { let mut b = mutate_k(&mut r, &a); if r.chance(1, 4) { b = mutate_k(&mut r, &b); } b };
        let (pa, ka) = lower1(&a); let (pb, kb) = lower1(&b);
        cases.push(format!("pair\t{pa}\t{ka}\t{pb}\t{kb}"));
        cases.push(format!("pair\t{pb}\t{kb}\t{pa}\t{ka}"));
        if r.chance(1, 4) { let (p, x, y) = lower_same(&a, &b); cases.push(format!("same\t{p}\t{x}\t{y}")); }
    }
    // 4. memo: one checker, every order of preceding checks, then the probe
    let mk = memo_kinds();
    let mut la = Lower { hashcons: true, ..Default::default() };
    let ka: Vec<String> = mk.iter().map(|k| la.k(k)).collect();
    let pa = la.program();
    let chk = |sides: &str, i: usize, j: usize| format!("{sides}:{}|{}", ka[i], ka[j]);   // A and B are built from the same program
    let pre: Vec<String> = vec![
        chk("AB", 2, 2), chk("AB", 3, 2), chk("AB", 2, 3), chk("AB", 4, 2), chk("AB", 0, 0), chk("AB", 0, 1), chk("AB", 5, 5), chk("AB", 6, 5),
        chk("AB", 5, 6), chk("AB", 7, 5), chk("AB", 8, 9), chk("AB", 9, 8), chk("AB", 10, 11), chk("BA", 2, 3), chk("BA", 3, 2), chk("AA", 3, 2)];
    let probes: Vec<String> = { let ks = [5usize, 6, 7, 8, 9, 10, 11]; let mut p = Vec::new();
        for i in ks { for j in ks { p.push(chk("AB", i, j)); } } p.push(chk("AA", 6, 5)); p.push(chk("AA", 5, 6)); p.push(chk("BA", 9, 8)); p };
    let maxlen = if thorough { 3 } else { 2 };
    let np = pre.len();
    for len in 0..=maxlen {
        for code in 0..np.pow(len as u32) {
            let mut c = code; let mut seq = Vec::new();
            for _ in 0..len { seq.push(pre[c % np].clone()); c /= np; }
            for p in &probes { let mut s2 = seq.clone(); s2.push(p.clone()); cases.push(format!("memo\t{pa}\t{pa}\t{}", s2.join(" "))); }
        }
    }
    // 5. reversed-pair histories: for EVERY ordered pair (x, y) of the chosen kinds, check x <: y and then y <: x on one
    //    checker (same identifiers, so the memo entry of the first is the reversed key of the second); both with the two
    //    kinds in separate collections and in one; optionally preceded by an unrelated check
    let mut all_kinds = memo_kinds(); all_kinds.extend(memo_kinds_typed());
    let mut lt = Lower { hashcons: true, ..Default::default() };
    let kt: Vec<String> = all_kinds.iter().map(|k| lt.k(k)).collect();
    let pt = lt.program();
    let nk = kt.len();
    for i in 0..nk { for j in 0..nk {
        if i == j { continue; }
        cases.push(format!("memo\t{pt}\t{pt}\tAB:{}|{} BA:{}|{}", kt[i], kt[j], kt[j], kt[i]));
        cases.push(format!("memo\t{pt}\t{pt}\tAA:{}|{} AA:{}|{}", kt[i], kt[j], kt[j], kt[i]));
        if thorough || (i + j) % 3 == 0 {
            let o = (i + 2 * j + 1) % nk;
            cases.push(format!("memo\t{pt}\t{pt}\tAB:{}|{} AB:{}|{} BA:{}|{}", kt[o], kt[o], kt[i], kt[j], kt[j], kt[i]));
            cases.push(format!("memo\t{pt}\t{pt}\tAB:{}|{} BA:{}|{} AB:{}|{}", kt[i], kt[j], kt[j], kt[i], kt[i], kt[j]));
        }
    } }
    let nlong = if thorough { 20_000 } else { 1_500 };
    for _ in 0..nlong {
        let len = 3 + r.below(3);
        let mut seq: Vec<String> = (0..len).map(|_| if r.chance(3, 4) { r.pick(&pre).clone() } else {
            chk(*r.pick(&["AB", "BA", "AA", "BB"]), r.below(12) as usize, r.below(12) as usize) }).collect();
        seq.push(if r.chance(1, 2) { r.pick(&probes).clone() } else { chk(*r.pick(&["AB", "BA", "AA"]), r.below(12) as usize, r.below(12) as usize) });
        cases.push(format!("memo\t{pa}\t{pa}\t{}", seq.join(" ")));
    }
    cases
}

fn main() {
    let args: Vec<String> = std::env::args().collect();
    let tier = args[1].as_str();
    let seed: u64 = args[2].parse().unwrap();
    let cases: Vec<String> = if let Some(replay) = args.get(5) {
        std::fs::read_to_string(replay).unwrap().lines().filter(|l| !l.is_empty()).map(|s| s.to_string()).collect()
    } else { generate(tier, seed) };
    std::panic::set_hook(Box::new(|_| {}));
    let nthreads = std::thread::available_parallelism().map(|x| x.get()).unwrap_or(4).min(16);
    let chunk = (cases.len() + nthreads - 1) / nthreads.max(1);
    let mut results: Vec<Vec<String>> = Vec::new();
    std::thread::scope(|sc| {
        let hs: Vec<_> = cases.chunks(chunk.max(1)).map(|part| sc.spawn(move || {
            part.iter().map(|c| {
                catch_unwind(|| { let f: Vec<&str> = c.split('\t').collect(); run_case(&f) }).unwrap_or_else(|_| "PANIC".to_string())
            }).collect::<Vec<String>>()
        })).collect();
        for h in hs { results.push(h.join().unwrap()); }
    });
    let mut co = std::io::BufWriter::new(std::fs::File::create(&args[3]).unwrap());
    let mut io = std::io::BufWriter::new(std::fs::File::create(&args[4]).unwrap());
    for c in &cases { writeln!(co, "{c}").unwrap(); }
    for part in &results { for l in part { writeln!(io, "{l}").unwrap(); } }
}
