//! C19 helper: the *library side* of the CLI correspondence.
//! usage: c19 <jobs.json> <results.json>
//! jobs.json is a JSON array; every job is run in-process against the library crates of the
//! current tree and answered by one JSON object at the same index.  Nothing here executes the
//! `wac` binary -- that is done by tools/props/c19.py; this program supplies the stage results
//! (the oracles of model/Cli.v) and the reference bytes.
//!
//!  {"op":"assemble","wat":P,"out":P}                     wat text -> binary (wat crate)
//!  {"op":"compose","wac":P,"deps_dir":P,"deps":[[name,path]..],"outdir":D}
//!        read -> Document::parse -> packages() -> FileSystemPackageResolver -> Document::resolve
//!        -> Resolution::encode for the four (define_components, validate) pairs -> wasmprinter
//!  {"op":"plug","socket":P,"plugs":[[name,path]..],"out":P}   register in the given order, plug, encode(default)
//!  {"op":"targets","component":P,"wit":P}                wit -> component, worlds, validate_target per world
//!  {"op":"inspect","wasm":P} / {"op":"inspect","wat":P}  validity, top-level imports/exports, printed text
use indexmap::IndexMap;
use serde_json::{json, Value};
use std::collections::HashMap;
use std::panic::{catch_unwind, AssertUnwindSafe};
use std::path::{Path, PathBuf};
use wac_graph::{CompositionGraph, EncodeOptions};
use wac_parser::Document;
use wac_resolver::{packages, FileSystemPackageResolver};
use wac_types::{validate_target, ItemKind, Package, Types};

fn s(v: &Value, k: &str) -> String { v[k].as_str().unwrap_or_else(|| panic!("job field {k} missing")).to_string() }

fn first_line(e: &str) -> String { e.lines().next().unwrap_or("").trim().to_string() }

/// Run a stage, mapping a panic to Err("PANIC").
fn stage<T>(f: impl FnOnce() -> Result<T, String>) -> Result<T, (String, String)> {
    match catch_unwind(AssertUnwindSafe(f)) {
        Ok(Ok(v)) => Ok(v),
        Ok(Err(m)) => Err(("err".into(), m)),
        Err(p) => {
            let m = p.downcast_ref::<String>().cloned()
                .or_else(|| p.downcast_ref::<&str>().map(|x| x.to_string())).unwrap_or_default();
            Err(("panic".into(), m))
        }
    }
}

fn assemble(job: &Value) -> Value {
    let txt = match std::fs::read(s(job, "wat")) { Ok(t) => t, Err(e) => return json!({"st":"err","msg":e.to_string()}) };
    match wat::parse_bytes(&txt) {
        Ok(b) => { std::fs::write(s(job, "out"), &*b).unwrap(); json!({"st":"ok","len":b.len()}) }
        Err(e) => json!({"st":"err","msg":e.to_string()}),
    }
}

fn set(out: &mut serde_json::Map<String, Value>, k: &str, st: &str, msg: &str) {
    out.insert(k.into(), json!({"st": st, "msg": first_line(msg)}));
}

/// The documented file-system lookup, written from README.md (and the `wit` feature description): see the call site.
fn documented_fs_resolve<'a>(
    root: &Path,
    overrides: &HashMap<String, PathBuf>,
    keys: &IndexMap<wac_types::BorrowedPackageKey<'a>, miette::SourceSpan>,
) -> Result<IndexMap<wac_types::BorrowedPackageKey<'a>, Vec<u8>>, String> {
    let mut packages = IndexMap::new();
    for key in keys.keys() {
        let (path, in_place) = match overrides.get(key.name) {
            Some(p) if key.version.is_none() => {
                if !p.is_file() { return Err(format!("local path `{}` for package `{}` does not exist", p.display(), key.name)); }
                (p.clone(), true)
            }
            _ => {
                let mut path = root.to_path_buf();
                for segment in key.name.split(':') { path.push(segment); }
                if let Some(v) = key.version { path.push(v.to_string()); }
                let in_place = path.is_dir();
                if !in_place { let os = path.as_mut_os_string(); os.push(".wasm"); }
                (path, in_place)
            }
        };
        let mut resolve = wit_parser::Resolve::new();
        let pkg = if in_place && path.is_dir() {
            Some(resolve.push_dir(&path).map_err(|e| format!("failed to resolve package `{}`: {e}", key.name))?.0)
        } else if path.extension().and_then(std::ffi::OsStr::to_str) == Some("wit") {
            Some(resolve.push_file(&path).map_err(|e| format!("failed to resolve package `{}`: {e}", key.name))?)
        } else { None };
        if let Some(pkg) = pkg {
            let bytes = wit_component::encode(&resolve, pkg).map_err(|e| format!("failed to resolve package `{}`: {e}", key.name))?;
            packages.insert(*key, bytes);
            continue;
        }
        if !path.is_file() { continue; }
        let bytes = std::fs::read(&path).map_err(|e| format!("failed to resolve package `{}`: {e}", key.name))?;
        packages.insert(*key, bytes);
    }
    Ok(packages)
}

fn compose(job: &Value) -> Value {
    let mut out = serde_json::Map::new();
    let outdir = PathBuf::from(s(job, "outdir"));
    std::fs::create_dir_all(&outdir).unwrap();
    let wac = s(job, "wac");
    let contents = match std::fs::read_to_string(&wac) {
        Ok(c) => { set(&mut out, "read", "ok", ""); c }
        Err(e) => { set(&mut out, "read", "err", &e.to_string()); return Value::Object(out); }
    };
    let document = match stage(|| Document::parse(&contents).map_err(|e| e.to_string())) {
        Ok(d) => { set(&mut out, "parse", "ok", ""); d }
        Err((st, m)) => { set(&mut out, "parse", &st, &m); return Value::Object(out); }
    };
    // `wac parse` prints exactly this, followed by a newline
    let js = serde_json::to_string_pretty(&document).unwrap();
    std::fs::write(outdir.join("ast.json"), js.as_bytes()).unwrap();
    let keys = match stage(|| packages(&document).map_err(|e| e.to_string())) {
        Ok(k) => { set(&mut out, "discover", "ok", ""); k }
        Err((st, m)) => { set(&mut out, "discover", &st, &m); return Value::Object(out); }
    };
    let overrides: HashMap<String, PathBuf> = job["deps"].as_array().map(|a| a.iter()
        .map(|p| (p[0].as_str().unwrap().to_string(), PathBuf::from(p[1].as_str().unwrap()))).collect()).unwrap_or_default();
    // Reference: the package map built HERE from the documented locations (README: `--dep name=path`, else
    // <deps-dir>/<one directory per ':' segment>[/<version>] as a WIT directory, else that path + ".wasm"),
    // not by the repository's FileSystemPackageResolver -- a defect in the latter must not cancel out.
    let root = PathBuf::from(s(job, "deps_dir"));
    let pk = match stage(|| documented_fs_resolve(&root, &overrides, &keys)) {
        Ok(p) => p,
        Err((st, m)) => { set(&mut out, "fs", &st, &m); return Value::Object(out); }
    };
    // the repository's resolver on the same keys, for the record (differences are reported by the driver)
    let fsr = FileSystemPackageResolver::new(s(job, "deps_dir"), overrides.clone(), false);
    let lib_fs = stage(|| fsr.resolve(&keys).map_err(|e| e.to_string()));
    let lib_fs_same = match &lib_fs {
        Ok(lp) => lp.len() == pk.len() && lp.iter().all(|(k, v)| pk.get(k) == Some(v)),
        Err(_) => false,
    };
    out.insert("fs_lib".into(), match &lib_fs {
        Ok(lp) => json!({"st":"ok","found": lp.keys().map(|k| k.to_string()).collect::<Vec<_>>(), "same_as_documented": lib_fs_same}),
        Err((st, m)) => json!({"st":st,"msg":first_line(m),"same_as_documented": false}),
    });
    let missing: Vec<String> = keys.keys().filter(|k| !pk.contains_key(*k)).map(|k| k.to_string()).collect();
    out.insert("fs".into(), json!({"st":"ok","msg":"","keys": keys.keys().map(|k| k.to_string()).collect::<Vec<_>>(),
                                   "missing": missing}));
    if !missing.is_empty() {
        // the library pipeline (src/lib.rs) would now ask the registry; not reproduced in process
        return Value::Object(out);
    }
    let pk2: IndexMap<_, Vec<u8>> = pk;
    let resolution = match stage(|| document.resolve(pk2).map_err(|e| e.to_string())) {
        Ok(r) => { set(&mut out, "resolve", "ok", ""); r }
        Err((st, m)) => { set(&mut out, "resolve", &st, &m); return Value::Object(out); }
    };
    let mut enc = serde_json::Map::new();
    for (d, v) in [(true, true), (true, false), (false, true), (false, false)] {
        let key = format!("{}{}", d as u8, v as u8);
        let r = stage(|| resolution.encode(EncodeOptions { define_components: d, validate: v, ..Default::default() })
            .map_err(|e| e.to_string()));
        let val = match r {
            Ok(bytes) => {
                let f = outdir.join(format!("enc{key}.wasm"));
                std::fs::write(&f, &bytes).unwrap();
                let txt = stage(|| wasmprinter::print_bytes(&bytes).map_err(|e| e.to_string()));
                let tv = match txt {
                    Ok(t) => { let tf = outdir.join(format!("enc{key}.wat")); std::fs::write(&tf, t.as_bytes()).unwrap();
                               json!({"st":"ok","file":tf}) }
                    Err((st, m)) => json!({"st":st,"msg":first_line(&m)}),
                };
                let valid = wasmparser::Validator::new_with_features(wasmparser::WasmFeatures::all()).validate_all(&bytes).is_ok();
                json!({"st":"ok","file":f,"print":tv,"valid":valid})
            }
            Err((st, m)) => json!({"st":st,"msg":first_line(&m)}),
        };
        enc.insert(key, val);
    }
    out.insert("encode".into(), Value::Object(enc));
    Value::Object(out)
}

fn plug(job: &Value) -> Value {
    let r = stage(|| {
        let mut graph = CompositionGraph::new();
        let socket = std::fs::read(s(job, "socket")).map_err(|e| format!("read-socket: {e}"))?;
        let socket = Package::from_bytes("socket", None, socket, graph.types_mut()).map_err(|e| format!("socket: {e}"))?;
        let socket = graph.register_package(socket).map_err(|e| format!("register: {e}"))?;
        let mut ids = Vec::new();
        for p in job["plugs"].as_array().unwrap() {
            let (name, path) = (p[0].as_str().unwrap(), p[1].as_str().unwrap());
            let pkg = Package::from_file(name, None, path, graph.types_mut()).map_err(|e| format!("plug-load: {e}"))?;
            ids.push(graph.register_package(pkg).map_err(|e| format!("register: {e}"))?);
        }
        wac_graph::plug(&mut graph, ids, socket).map_err(|e| format!("plug: {e}"))?;
        graph.encode(EncodeOptions::default()).map_err(|e| format!("encode: {e}"))
    });
    match r {
        Ok(bytes) => {
            let f = s(job, "out");
            std::fs::write(&f, &bytes).unwrap();
            let txt = stage(|| wasmprinter::print_bytes(&bytes).map_err(|e| e.to_string()));
            let tv = match txt {
                Ok(t) => { let tf = format!("{f}.wat"); std::fs::write(&tf, t.as_bytes()).unwrap(); json!({"st":"ok","file":tf}) }
                Err((st, m)) => json!({"st":st,"msg":first_line(&m)}),
            };
            json!({"st":"ok","file":f,"print":tv})
        }
        Err((st, m)) => { let stg = m.split(':').next().unwrap_or("").to_string(); json!({"st":st,"stage":stg,"msg":first_line(&m)}) }
    }
}

fn encode_wit(path: &Path) -> anyhow::Result<Vec<u8>> {
    let mut resolve = wit_parser::Resolve::new();
    let pkg = if path.is_dir() { resolve.push_dir(path)?.0 } else { resolve.push_path(path)?.0 };
    Ok(wit_component::encode(&resolve, pkg)?)
}

fn targets(job: &Value) -> Value {
    let mut out = serde_json::Map::new();
    let mut types = Types::default();
    let wit_path = PathBuf::from(s(job, "wit"));
    let wit_bytes = match stage(|| encode_wit(&wit_path).map_err(|e| e.to_string())) {
        Ok(b) => { out.insert("wit_encode".into(), json!({"st":"ok"})); b }
        Err((st, m)) => { out.insert("wit_encode".into(), json!({"st":st,"msg":first_line(&m)})); return Value::Object(out); }
    };
    let wit = match stage(|| Package::from_bytes("wit", None, wit_bytes.clone(), &mut types).map_err(|e| e.to_string())) {
        Ok(p) => { out.insert("wit_decode".into(), json!({"st":"ok"})); p }
        Err((st, m)) => { out.insert("wit_decode".into(), json!({"st":st,"msg":first_line(&m)})); return Value::Object(out); }
    };
    let comp_bytes = match std::fs::read(s(job, "component")) {
        Ok(b) => { out.insert("comp_read".into(), json!({"st":"ok"})); b }
        Err(e) => { out.insert("comp_read".into(), json!({"st":"err","msg":e.to_string()})); return Value::Object(out); }
    };
    let comp = match stage(|| Package::from_bytes("component", None, comp_bytes.clone(), &mut types).map_err(|e| e.to_string())) {
        Ok(p) => { out.insert("comp_decode".into(), json!({"st":"ok"})); p }
        Err((st, m)) => { out.insert("comp_decode".into(), json!({"st":st,"msg":first_line(&m)})); return Value::Object(out); }
    };
    // the exports of the top-level world of the encoded WIT package, in order
    let mut worlds = Vec::new();
    let top = &types[wit.ty()];
    let entries: Vec<(String, ItemKind)> = top.exports.iter().map(|(n, k)| (n.clone(), *k)).collect();
    for (name, kind) in entries {
        // Some(Some(w)): world type whose first export is a component; Some(None): world type of another shape
        let shape: Option<Option<wac_types::WorldId>> = match kind {
            ItemKind::Type(wac_types::Type::World(wid)) => match types[wid].exports.values().next() {
                Some(ItemKind::Component(w)) => Some(Some(*w)),
                _ => Some(None),
            },
            _ => None,
        };
        match shape {
            Some(Some(w)) => {
                let v = stage(|| validate_target(&types, w, comp.ty()).map_err(|e| e.to_string()));
                let vv = match v { Ok(()) => json!({"st":"ok"}), Err((st, m)) => json!({"st":st,"msg":first_line(&m)}) };
                worlds.push(json!({"name":name,"shape":"world","validate":vv}));
            }
            Some(None) | None => worlds.push(json!({"name":name,"shape":"other"})),
        }
    }
    out.insert("worlds".into(), Value::Array(worlds));
    Value::Object(out)
}

fn inspect(job: &Value) -> Value {
    let bytes: Vec<u8> = if let Some(w) = job.get("wat").and_then(|x| x.as_str()) {
        let txt = match std::fs::read(w) { Ok(t) => t, Err(e) => return json!({"st":"err","msg":e.to_string()}) };
        match wat::parse_bytes(&txt) { Ok(b) => b.into_owned(), Err(e) => return json!({"st":"err","msg":format!("assemble: {e}")}) }
    } else {
        match std::fs::read(s(job, "wasm")) { Ok(b) => b, Err(e) => return json!({"st":"err","msg":e.to_string()}) }
    };
    let valid = wasmparser::Validator::new_with_features(wasmparser::WasmFeatures::all()).validate_all(&bytes).is_ok();
    let mut imports = Vec::new();
    let mut exports = Vec::new();
    let mut nested = 0usize;
    let mut depth = 0i32;
    for p in wasmparser::Parser::new(0).parse_all(&bytes) {
        use wasmparser::Payload::*;
        match p {
            Err(e) => return json!({"st":"err","msg":format!("parse: {e}")}),
            Ok(ModuleSection { .. }) | Ok(ComponentSection { .. }) => { if depth == 0 { nested += 1; } depth += 1; }
            Ok(End(_)) => depth -= 1,
            Ok(ComponentImportSection(r)) if depth == 0 => for i in r { match i {
                Ok(i) => imports.push(format!("{} {}", i.name.0, kind_of(&i.ty))),
                Err(e) => return json!({"st":"err","msg":format!("import: {e}")}) } },
            Ok(ComponentExportSection(r)) if depth == 0 => for x in r { match x {
                Ok(x) => exports.push(format!("{} {:?}", x.name.0, x.kind)),
                Err(e) => return json!({"st":"err","msg":format!("export: {e}")}) } },
            _ => {}
        }
    }
    let text = wasmprinter::print_bytes(&bytes).ok();
    if let (Some(t), Some(o)) = (&text, job.get("text_out").and_then(|x| x.as_str())) { std::fs::write(o, t.as_bytes()).unwrap(); }
    if let Some(o) = job.get("bytes_out").and_then(|x| x.as_str()) { std::fs::write(o, &bytes).unwrap(); }
    json!({"st":"ok","valid":valid,"imports":imports,"exports":exports,"nested_top":nested,"printable":text.is_some()})
}

fn kind_of(t: &wasmparser::ComponentTypeRef) -> &'static str {
    use wasmparser::ComponentTypeRef::*;
    match t { Module(_) => "module", Func(_) => "func", Value(_) => "value", Type(_) => "type", Instance(_) => "instance", Component(_) => "component" }
}

fn main() {
    let args: Vec<String> = std::env::args().collect();
    std::panic::set_hook(Box::new(|_| {}));
    let jobs: Value = serde_json::from_slice(&std::fs::read(&args[1]).expect("jobs file")).expect("jobs json");
    let mut res = Vec::new();
    for job in jobs.as_array().expect("array") {
        let r = catch_unwind(AssertUnwindSafe(|| match job["op"].as_str().unwrap_or("") {
            "assemble" => assemble(job),
            "compose" => compose(job),
            "plug" => plug(job),
            "targets" => targets(job),
            "inspect" => inspect(job),
            other => json!({"st":"bad-op","op":other}),
        }));
        res.push(r.unwrap_or_else(|_| json!({"st":"harness-panic"})));
    }
    std::fs::write(&args[2], serde_json::to_vec_pretty(&Value::Array(res)).unwrap()).unwrap();
}
