//! C07, sanity check of the SPECIFICATION against the reference validator (validates SubSpec.v, not the model):
//! for every resource-free `pair`/`same` case of a cases file, both kinds are written into ONE component as the
//! types of two imports "a" and "b" (WAT text, parsed by the `wat` crate), the component is validated by
//! `wasmparser`, and `ComponentEntityType::is_subtype_of(a, b)` is asked on the validator's own types.
//!
//! usage: c07ref <cases_in> <ref_out>
//! output per line:  1 | 0 | - (case not applicable: memo case, resources, module-type/resource type items) |
//!                   invalid:<first line of the reason> (the reference rejects the encoding itself)
//!
//! Record-like types (record/variant/enum/flags) must be *named* to be used by functions and values in the
//! component model; they are hoisted into the enclosing scope as a type import/export whose name is a hash of
//! the structure, so equal types get equal names on both sides and the helper items never change the verdict
//! of a true subtype pair.
use std::collections::HashMap;
use std::io::Write;

struct Prog { d: Vec<Vec<String>>, f: Vec<Vec<String>>, i: Vec<Vec<String>>, w: Vec<Vec<String>>, m: Vec<Vec<String>> }
fn parse_prog(p: &str) -> Prog {
    let mut g = Prog { d: vec![], f: vec![], i: vec![], w: vec![], m: vec![] };
    if p.trim() == "." { return g; }
    for def in p.split(" ; ") {
        let t: Vec<String> = def.split(' ').filter(|x| !x.is_empty()).map(|x| x.to_string()).collect();
        let body = t[1..].to_vec();
        match t[0].as_str() { "D" => g.d.push(body), "F" => g.f.push(body), "I" => g.i.push(body), "W" => g.w.push(body),
                              "M" => g.m.push(body), _ => {} }   // resources: any use is skipped below
    }
    g
}
struct Skip;
#[derive(Clone, Copy, PartialEq)]
enum ScopeKind { Root, Instance, Component }
#[derive(Clone, Copy, PartialEq)]
enum Pos { Import, Export }
struct Scope { kind: ScopeKind, decls: Vec<String>, named: HashMap<String, String> }
struct Gen { n: usize, canon: HashMap<String, String> }
const PRIMS: [&str; 14] = ["u8", "s8", "u16", "s16", "u32", "s32", "u64", "s64", "f32", "f64", "char", "bool", "string", "error-context"];
fn hash_name(s: &str) -> String {
    let mut h: u64 = 0xcbf29ce484222325;
    for b in s.bytes() { h ^= b as u64; h = h.wrapping_mul(0x100000001b3); }
    let mut out = String::from("t");
    for k in 0..12 { out.push((b'a' + ((h >> (4 * k)) & 15) as u8) as char); }
    out
}
impl Gen {
    fn fresh(&mut self) -> usize { self.n += 1; self.n }
    /// structural text: every `$index` replaced by the structural text of what it names
    fn canonical(&self, text: &str) -> String {
        let mut out = String::new(); let mut it = text.chars().peekable();
        while let Some(c) = it.next() {
            if c == '$' {
                let mut name = String::from("$");
                while let Some(d) = it.peek() { if d.is_alphanumeric() { name.push(*d); it.next(); } else { break; } }
                out.push_str(self.canon.get(&name).map(|x| x.as_str()).unwrap_or(&name));
            } else { out.push(c); }
        }
        out
    }
    fn ovt(&mut self, g: &Prog, x: &str, sc: &mut Scope, pos: Pos) -> Result<Option<String>, Skip> {
        if x == "-" { Ok(None) } else { Ok(Some(self.vt(g, x, sc, pos)?)) }
    }
    fn name_type(&mut self, text: String, sc: &mut Scope, pos: Pos) -> String {
        if let Some(n) = sc.named.get(&text) { return n.clone(); }
        let id = self.fresh();
        sc.decls.push(format!("(type $r{id} {text})"));
        let cn = self.canonical(&text);
        let hn = hash_name(&cn);
        self.canon.insert(format!("$t{id}"), cn);
        let kw = match (sc.kind, pos) { (ScopeKind::Root, _) => "import", (ScopeKind::Instance, _) => "export",
                                        (ScopeKind::Component, Pos::Import) => "import", (ScopeKind::Component, Pos::Export) => "export" };
        sc.decls.push(format!("({kw} \"{hn}\" (type $t{id} (eq $r{id})))"));
        let n = format!("$t{id}");
        sc.named.insert(text, n.clone());
        n
    }
    fn plain_type(&mut self, text: String, sc: &mut Scope) -> String {
        let key = format!("plain {text}");
        if let Some(n) = sc.named.get(&key) { return n.clone(); }
        let id = self.fresh();
        sc.decls.push(format!("(type $d{id} {text})"));
        let cn = self.canonical(&text);
        self.canon.insert(format!("$d{id}"), cn);
        let n = format!("$d{id}");
        sc.named.insert(key, n.clone());
        n
    }
    /// reference to a value type: a primitive keyword or the index of a declared type
    fn vt(&mut self, g: &Prog, x: &str, sc: &mut Scope, pos: Pos) -> Result<String, Skip> {
        let (text, recordlike) = self.deftext(g, x, sc, pos)?;
        if PRIMS.contains(&text.as_str()) { return Ok(text); }
        Ok(if recordlike { self.name_type(text, sc, pos) } else { self.plain_type(text, sc) })
    }
    /// definition text of a value type (components are references); aliases are transparent
    fn deftext(&mut self, g: &Prog, x: &str, sc: &mut Scope, pos: Pos) -> Result<(String, bool), Skip> {
        let n: usize = x[1..].parse().unwrap();
        match &x[..1] {
            "p" => Ok((PRIMS[n].to_string(), false)),
            "d" => {
                let d = g.d[n].clone();
                let opt = |o: Option<String>| o.map(|x| format!(" {x}")).unwrap_or_default();
                match d[0].as_str() {
                    "list" => Ok((format!("(list {})", self.vt(g, &d[1], sc, pos)?), false)),
                    "fsl" => Ok((format!("(list {} {})", self.vt(g, &d[1], sc, pos)?, d[2]), false)),
                    "option" => Ok((format!("(option {})", self.vt(g, &d[1], sc, pos)?), false)),
                    "tuple" => { let mut s = String::from("(tuple"); for e in &d[2..] { s.push(' '); s.push_str(&self.vt(g, e, sc, pos)?); } s.push(')'); Ok((s, false)) }
                    "result" => { let o = self.ovt(g, &d[1], sc, pos)?; let e = self.ovt(g, &d[2], sc, pos)?;
                                  Ok((format!("(result{}{})", opt(o), e.map(|x| format!(" (error {x})")).unwrap_or_default()), false)) }
                    "stream" => { let o = self.ovt(g, &d[1], sc, pos)?; Ok((format!("(stream{})", opt(o)), false)) }
                    "future" => { let o = self.ovt(g, &d[1], sc, pos)?; Ok((format!("(future{})", opt(o)), false)) }
                    "alias" => self.deftext(g, &d[1], sc, pos),
                    "record" => { let mut s = String::from("(record"); let k: usize = d[1].parse().unwrap();
                                  for j in 0..k { let t = self.vt(g, &d[3 + 2 * j], sc, pos)?; s.push_str(&format!(" (field \"{}\" {t})", d[2 + 2 * j])); }
                                  s.push(')'); Ok((s, true)) }
                    "variant" => { let mut s = String::from("(variant"); let k: usize = d[1].parse().unwrap();
                                   for j in 0..k { let t = self.ovt(g, &d[3 + 2 * j], sc, pos)?;
                                                   s.push_str(&format!(" (case \"{}\"{})", d[2 + 2 * j], opt(t))); }
                                   s.push(')'); Ok((s, true)) }
                    "enum" => Ok((format!("(enum {})", d[2..].iter().map(|x| format!("\"{x}\"")).collect::<Vec<_>>().join(" ")), true)),
                    "flags" => Ok((format!("(flags {})", d[2..].iter().map(|x| format!("\"{x}\"")).collect::<Vec<_>>().join(" ")), true)),
                    _ => Err(Skip),
                }
            }
            _ => Err(Skip),     // own / borrow
        }
    }
    fn functype(&mut self, g: &Prog, n: usize, sc: &mut Scope, pos: Pos) -> Result<String, Skip> {
        let f = g.f[n].clone();
        let k: usize = f[1].parse().unwrap();
        let mut s = String::from("(func");
        if f[0] == "1" { s.push_str(" async"); }
        for j in 0..k { let t = self.vt(g, &f[3 + 2 * j], sc, pos)?; s.push_str(&format!(" (param \"{}\" {t})", f[2 + 2 * j])); }
        if let Some(t) = self.ovt(g, &f[2 + 2 * k], sc, pos)? { s.push_str(&format!(" (result {t})")); }
        s.push(')');
        Ok(s)
    }
    fn items(&mut self, g: &Prog, t: &[String], p: &mut usize, sc: &mut Scope, kw: &str, pos: Pos) -> Result<(), Skip> {
        let k: usize = t[*p].parse().unwrap(); *p += 1;
        for _ in 0..k {
            let name = t[*p].clone(); let kind = t[*p + 1].clone(); *p += 2;
            let d = self.externdesc(g, &kind, sc, pos)?;
            sc.decls.push(format!("({kw} \"{name}\" {d})"));
        }
        Ok(())
    }
    fn insttype(&mut self, g: &Prog, n: usize) -> Result<String, Skip> {
        let t = g.i[n].clone(); let mut sc = Scope { kind: ScopeKind::Instance, decls: vec![], named: HashMap::new() };
        let mut p = 0; self.items(g, &t, &mut p, &mut sc, "export", Pos::Export)?;
        Ok(format!("(instance {})", sc.decls.join(" ")))
    }
    fn comptype(&mut self, g: &Prog, n: usize) -> Result<String, Skip> {
        let t = g.w[n].clone(); let mut sc = Scope { kind: ScopeKind::Component, decls: vec![], named: HashMap::new() };
        let mut p = 0; self.items(g, &t, &mut p, &mut sc, "import", Pos::Import)?; self.items(g, &t, &mut p, &mut sc, "export", Pos::Export)?;
        Ok(format!("(component {})", sc.decls.join(" ")))
    }
    fn coretype(x: &str) -> String {
        if let Some(r) = x.strip_prefix('r') { let (n, h) = r.split_once('.').unwrap();
            return if n == "1" { format!("(ref null {h})") } else { format!("(ref {h})") }; }
        x.to_string()
    }
    fn coreextern(t: &[String], p: &mut usize) -> String {
        let kw = t[*p].clone(); *p += 1;
        let num = |p: &mut usize| -> String { let x = t[*p].clone(); *p += 1; x };
        match kw.as_str() {
            "func" | "tag" => {
                let np: usize = num(p).parse().unwrap(); let ps: Vec<String> = (0..np).map(|_| Self::coretype(&num(p))).collect();
                let nr: usize = num(p).parse().unwrap(); let rs: Vec<String> = (0..nr).map(|_| Self::coretype(&num(p))).collect();
                format!("({kw}{}{})", if ps.is_empty() { String::new() } else { format!(" (param {})", ps.join(" ")) },
                        if rs.is_empty() { String::new() } else { format!(" (result {})", rs.join(" ")) })
            }
            "table" => { let e = Self::coretype(&num(p)); let i = num(p); let m = num(p); let t64 = num(p) == "1"; let sh = num(p) == "1";
                         format!("(table {}{}{i}{} {e})", if sh { "shared " } else { "" }, if t64 { "i64 " } else { "" }, if m == "-" { String::new() } else { format!(" {m}") }) }
            "memory" => { let m64 = num(p) == "1"; let sh = num(p) == "1"; let i = num(p); let m = num(p); let ps = num(p);
                          format!("(memory {}{i}{}{}{})", if m64 { "i64 " } else { "" }, if m == "-" { String::new() } else { format!(" {m}") },
                                  if sh { " shared" } else { "" }, if ps == "-" { String::new() } else { format!(" (pagesize {})", 1u64 << ps.parse::<u32>().unwrap()) }) }
            "global" => { let v = Self::coretype(&num(p)); let mu = num(p) == "1"; let sh = num(p) == "1";
                          if mu || sh { format!("(global ({}{}{v}))", if sh { "shared " } else { "" }, if mu { "mut " } else { "" }) } else { format!("(global {v})") } }
            _ => String::from("?"),
        }
    }
    fn modtype(g: &Prog, n: usize) -> String {
        let t = &g.m[n]; let mut p = 0; let mut s = String::from("(core module");
        let ni: usize = t[p].parse().unwrap(); p += 1;
        for _ in 0..ni { let a = t[p].clone(); let b = t[p + 1].clone(); p += 2; let e = Self::coreextern(t, &mut p); s.push_str(&format!(" (import \"{a}\" \"{b}\" {e})")); }
        let ne: usize = t[p].parse().unwrap(); p += 1;
        for _ in 0..ne { let a = t[p].clone(); p += 1; let e = Self::coreextern(t, &mut p); s.push_str(&format!(" (export \"{a}\" {e})")); }
        s.push(')'); s
    }
    fn externdesc(&mut self, g: &Prog, kind: &str, sc: &mut Scope, pos: Pos) -> Result<String, Skip> {
        let (tag, rest) = kind.split_once(':').unwrap();
        let n = || -> usize { rest.parse().unwrap() };
        let mut typed = |me: &mut Gen, sc: &mut Scope, def: String| -> String { let id = me.fresh(); sc.decls.push(format!("(type $x{id} {def})")); format!("(type (eq $x{id}))") };
        match tag {
            "f" => self.functype(g, n(), sc, pos),
            "i" => self.insttype(g, n()),
            "c" => self.comptype(g, n()),
            "m" => Ok(Self::modtype(g, n())),
            "v" => {
                let vref = |t: String| if t.starts_with('$') { format!("(value (type {t}))") } else { format!("(value {t})") };
                // a value imported by the root component would have to be consumed; wrap it in an instance type
                if sc.kind == ScopeKind::Root {
                    let mut inner = Scope { kind: ScopeKind::Instance, decls: vec![], named: HashMap::new() };
                    let t2 = self.vt(g, rest, &mut inner, Pos::Export)?;
                    inner.decls.push(format!("(export \"v\" {})", vref(t2)));
                    Ok(format!("(instance {})", inner.decls.join(" ")))
                } else { let t = self.vt(g, rest, sc, pos)?; Ok(vref(t)) }
            }
            "tv" => { let (t, _) = self.deftext(g, rest, sc, pos)?; Ok(typed(self, sc, t)) }
            "tf" => { let t = self.functype(g, n(), sc, pos)?; Ok(typed(self, sc, t)) }
            "ti" => { let t = self.insttype(g, n())?; Ok(typed(self, sc, t)) }
            "tw" => { let t = self.comptype(g, n())?; Ok(typed(self, sc, t)) }
            _ => Err(Skip),     // tr, tm
        }
    }
}

fn wat_for(pa: &str, ka: &str, pb: &str, kb: &str) -> Option<String> {
    // root-level values are wrapped in an instance type (see externdesc); a value against a non-value is a plain
    // kind mismatch and is not asked
    if ka.starts_with("v:") != kb.starts_with("v:") { return None; }
    let (ga, gb) = (parse_prog(pa), parse_prog(pb));
    let mut gen = Gen { n: 0, canon: HashMap::new() };
    let mut sc = Scope { kind: ScopeKind::Root, decls: vec![], named: HashMap::new() };
    let da = gen.externdesc(&ga, ka, &mut sc, Pos::Import).ok()?;
    sc.decls.push(format!("(import \"a\" {da})"));
    let db = gen.externdesc(&gb, kb, &mut sc, Pos::Import).ok()?;
    sc.decls.push(format!("(import \"b\" {db})"));
    Some(format!("(component {})", sc.decls.join("\n  ")))
}

fn reference(wat: &str) -> String {
    let bytes = match wat::parse_str(wat) { Ok(b) => b, Err(e) => return format!("invalid:wat:{}", e.to_string().lines().next().unwrap_or("").replace('\t', " ")) };
    let mut v = wasmparser::Validator::new_with_features(wasmparser::WasmFeatures::all());
    let types = match v.validate_all(&bytes) { Ok(t) => t, Err(e) => return format!("invalid:{}", e.message().lines().next().unwrap_or("").replace('\t', " ")) };
    let r = types.as_ref();
    let (a, b) = match (r.component_entity_type_of_import("a"), r.component_entity_type_of_import("b")) { (Some(a), Some(b)) => (a, b), _ => return "invalid:no-import".into() };
    if wasmparser::component_types::ComponentEntityType::is_subtype_of(&a, r, &b, r) { "1".into() } else { "0".into() }
}

fn main() {
    let args: Vec<String> = std::env::args().collect();
    if args.len() == 2 { // debugging aid: print the WAT of one case line given on the command line
        let f: Vec<&str> = args[1].split('\t').collect();
        let w = match f.as_slice() { ["pair", pa, ka, pb, kb] => wat_for(pa, ka, pb, kb), ["same", p, ka, kb] => wat_for(p, ka, p, kb), _ => None };
        println!("{}", w.clone().unwrap_or("-".into())); if let Some(w) = w { println!("{}", reference(&w)); }
        return;
    }
    let cases: Vec<String> = std::fs::read_to_string(&args[1]).unwrap().lines().map(|s| s.to_string()).collect();
    std::panic::set_hook(Box::new(|_| {}));
    let nthreads = std::thread::available_parallelism().map(|x| x.get()).unwrap_or(4).min(16);
    let chunk = ((cases.len() + nthreads - 1) / nthreads).max(1);
    let mut results: Vec<Vec<String>> = Vec::new();
    std::thread::scope(|sc| {
        let hs: Vec<_> = cases.chunks(chunk).map(|part| sc.spawn(move || {
            part.iter().map(|c| {
                std::panic::catch_unwind(|| {
                    let f: Vec<&str> = c.split('\t').collect();
                    let w = match f.as_slice() { ["pair", pa, ka, pb, kb] => wat_for(pa, ka, pb, kb), ["same", p, ka, kb] => wat_for(p, ka, p, kb), _ => None };
                    match w { Some(w) => reference(&w), None => "-".into() }
                }).unwrap_or_else(|_| "invalid:panic".to_string())
            }).collect::<Vec<String>>()
        })).collect();
        for h in hs { results.push(h.join().unwrap()); }
    });
    let mut o = std::io::BufWriter::new(std::fs::File::create(&args[2]).unwrap());
    for part in &results { for l in part { writeln!(o, "{l}").unwrap(); } }
}
