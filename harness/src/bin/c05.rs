//! probe
use std::collections::HashSet;
use wac_types::*;

fn wit_encode(wit: &str) -> Result<Vec<u8>, String> {
    let mut resolve = wit_parser::Resolve::default();
    let id = resolve.push_str("c05.wit", wit).map_err(|e| format!("{e:#}"))?;
    wit_component::encode(&resolve, id).map_err(|e| format!("{e:#}"))
}

fn wac_encode(wac: &str) -> Result<Vec<u8>, String> {
    let doc = wac_parser::Document::parse(wac).map_err(|e| format!("parse: {e:?}"))?;
    let res = doc.resolve(Default::default()).map_err(|e| format!("resolve: {e:?}"))?;
    res.encode(wac_graph::EncodeOptions::default()).map_err(|e| format!("encode: {e:?}"))
}

fn main() {
    let a: Vec<String> = std::env::args().collect();
    let wit = std::fs::read_to_string(&a[2]).unwrap();
    let wac = std::fs::read_to_string(&a[3]).unwrap();
    let wb = wit_encode(&wit).unwrap();
    let cb = wac_encode(&wac).unwrap();
    println!("--- wit\n{}", wasmprinter::print_bytes(&wb).unwrap());
    println!("--- wac\n{}", wasmprinter::print_bytes(&cb).unwrap());
    let mut types = Types::default();
    let pw = Package::from_bytes("ref", None, wb, &mut types).unwrap();
    let pc = Package::from_bytes("wac", None, cb, &mut types).unwrap();
    println!("wit defs {:?}", pw.definitions().keys().collect::<Vec<_>>());
    println!("wac defs {:?}", pc.definitions().keys().collect::<Vec<_>>());
    // wasmparser-level
    {
        let wb = wit_encode(&wit).unwrap(); let cb = wac_encode(&wac).unwrap();
        let mut outer = wasm_encoder::Component::new();
        outer.section(&wasm_encoder::RawSection { id: 4, data: &wb });
        outer.section(&wasm_encoder::RawSection { id: 4, data: &cb });
        let bytes = outer.finish();
        let mut v = wasmparser::Validator::new_with_features(wasmparser::WasmFeatures::all());
        let types = v.validate_all(&bytes).unwrap();
        let tr = types.as_ref();
        let a = tr.component_at(0); let b = tr.component_at(1);
        let (ca, cb2) = (&tr[a], &tr[b]);
        for (n, ea) in ca.exports.iter() {
            if let Some(eb) = cb2.exports.get(n) {
                let r1 = wasmparser::component_types::ComponentEntityType::is_subtype_of(ea, tr, eb, tr);
                let r2 = wasmparser::component_types::ComponentEntityType::is_subtype_of(eb, tr, ea, tr);
                println!("wasmparser {n}: wit<=wac {r1} wac<=wit {r2}");
            }
        }
    }
    for (n, k) in pw.definitions() {
        match pc.definitions().get(n) {
            None => println!("{n}: missing in wac"),
            Some(k2) => {
                let mut cache = HashSet::new();
                let mut c = SubtypeChecker::new(&mut cache);
                let r1 = c.is_subtype(*k, &types, *k2, &types);
                let mut cache = HashSet::new();
                let mut c = SubtypeChecker::new(&mut cache);
                let r2 = c.is_subtype(*k2, &types, *k, &types);
                println!("{n}: wit<=wac {:?}  wac<=wit {:?}", r1.map_err(|e| format!("{e:#}")), r2.map_err(|e| format!("{e:#}")));
            }
        }
    }
}
