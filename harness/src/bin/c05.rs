//! C05 correspondence: WIT declarations in WAC mean what WIT means.
//!
//! usage: c05 <quick|thorough> <seed> <cases_out> <impl_out> [replay_cases_in]
//!        c05 show <file.wac> [<file.wit>]        (diagnostics: prints both encodings and all verdicts)
//!
//! One neutral description of a package (`Pkg`: interfaces with all value-type constructors, resources with
//! constructors/methods/statics, own/borrow, `use` chains and diamonds with renames, worlds with named / inline /
//! path imports and exports and `include ... with`) is rendered twice: as WIT text and as a WAC document.
//!
//! case line (tab separated):  kind  id  wac-source  wit-source  meta  [dep-source]
//!   kind = pkg (both renderings, reference comparison) | neg (WAC only: error classes / panics)
//!   sources: comma separated code points ("-" = empty)
//!   dep-source: WIT text of a second, versioned package the main package refers to by path (`use dep:lib/i@1.2.0.{t}`,
//!         `import dep:lib/i@1.2.0;`); the reference gets it through `Resolve::push_str`, wac as the reference's binary
//!         encoding in the `packages` map of `Document::resolve`, the model as source text (driver/c05.ml)
//!   In WAC renderings some references into the package itself are written as full package paths (`use x:y/a@1.2.0.{t}`,
//!   `import x:y/a@1.2.0;`, `include x:y/w@1.2.0`); the reference toolchain rejects those ("package depends on itself"), so
//!   the WIT rendering keeps the plain name.
//!   meta: `;`-separated records  W|<world>|<explicit import names ,>|<explicit export names ,>|<strict 0/1>
//!         and F|<feature> (shape features used for the signatures of known findings)
//! impl line (tab separated):
//!   1. observation of the real resolver on the WAC text, in the format of the extracted model
//!      (`OK name=tree | ... ## name:id=.. uses=[..] | ...`, `ERR <Class>`, `PANIC`, `PARSE-ERR`)
//!   2. reference verdict (wac-types SubtypeChecker on both binaries loaded into ONE Types collection):
//!      `REF-OK <interfaces> <worlds>` | `REF-DIFF <where>: <what>` | `REF-SKIP <why>` | `-`
//!   3. validator verdict (both binaries nested in one component, wasmparser's own component subtyping):
//!      `WP-OK <n>` | `WP-DIFF <where>: <what>` | `WP-SKIP <why>` | `-`
//!      interfaces: mutual; worlds: wac <= reference always, reference <= wac when no implicit interface import carries
//!      functions (wac trims implicit imports to the used types; meta strict=1); skipped when the reference satisfies a
//!      dependency of an export from another export of the world (meta strict=2)
//!   4. shape features of the document (signatures of known findings), computed from the AST and the resolved types
use std::collections::{BTreeMap, BTreeSet, HashSet};
use std::io::Write;
use std::panic::{catch_unwind, AssertUnwindSafe};
use wac_types::*;
use wacv::Rng;

// ------------------------------------------------------------------------------------------------ neutral description
#[derive(Clone, Debug)]
enum Ty { P(u8), List(Box<Ty>), Opt(Box<Ty>), Res(Option<Box<Ty>>, Option<Box<Ty>>), Tuple(Vec<Ty>), Name(String), Borrow(String) }
#[derive(Clone, Debug)]
struct Func { params: Vec<(String, Ty)>, result: Option<Ty> }
#[derive(Clone, Debug)]
enum Member { Ctor(Vec<(String, Ty)>), Method(String, Func), Static(String, Func) }
#[derive(Clone, Debug)]
enum Decl {
    Record(String, Vec<(String, Ty)>), Variant(String, Vec<(String, Option<Ty>)>), Enum(String, Vec<String>),
    Flags(String, Vec<String>), Alias(String, Ty), Resource(String, Vec<Member>),
}
#[derive(Clone, Debug)]
enum IItem { Use(String, Vec<(String, Option<String>)>), Decl(Decl), Func(String, Func) }
#[derive(Clone, Debug)]
struct Iface { name: String, items: Vec<IItem> }
#[derive(Clone, Debug)]
enum WPath { Func(String, Func), Inline(String, Vec<IItem>), Iface(String) }
#[derive(Clone, Debug)]
enum WItem { Use(String, Vec<(String, Option<String>)>), Decl(Decl), Import(WPath), Export(WPath), Include(String, Vec<(String, String)>) }
#[derive(Clone, Debug)]
struct World { name: String, items: Vec<WItem> }
#[derive(Clone, Debug)]
enum Top { I(Iface), W(World) }
#[derive(Clone, Debug)]
struct Pkg { name: String, version: Option<String>, tops: Vec<Top> }

const PRIMS: [&str; 13] = ["u8", "s8", "u16", "s16", "u32", "s32", "u64", "s64", "f32", "f64", "char", "bool", "string"];

// ------------------------------------------------------------------------------------------------ rendering
#[derive(Clone, Copy, PartialEq)]
enum Lang { Wit, Wac }

fn r_ty(t: &Ty) -> String {
    match t {
        Ty::P(i) => PRIMS[*i as usize].to_string(),
        Ty::List(x) => format!("list<{}>", r_ty(x)),
        Ty::Opt(x) => format!("option<{}>", r_ty(x)),
        Ty::Res(None, None) => "result".to_string(),
        Ty::Res(Some(o), None) => format!("result<{}>", r_ty(o)),
        Ty::Res(None, Some(e)) => format!("result<_, {}>", r_ty(e)),
        Ty::Res(Some(o), Some(e)) => format!("result<{}, {}>", r_ty(o), r_ty(e)),
        Ty::Tuple(v) => format!("tuple<{}>", v.iter().map(r_ty).collect::<Vec<_>>().join(", ")),
        Ty::Name(n) => n.clone(),
        Ty::Borrow(n) => format!("borrow<{n}>"),
    }
}
fn r_params(p: &[(String, Ty)]) -> String { p.iter().map(|(n, t)| format!("{n}: {}", r_ty(t))).collect::<Vec<_>>().join(", ") }
fn r_func(f: &Func) -> String {
    format!("func({}){}", r_params(&f.params), match &f.result { Some(t) => format!(" -> {}", r_ty(t)), None => String::new() })
}
fn r_decl(d: &Decl, ind: &str, o: &mut String) {
    match d {
        Decl::Record(n, fs) => o.push_str(&format!("{ind}record {n} {{ {} }}\n", fs.iter().map(|(f, t)| format!("{f}: {}", r_ty(t))).collect::<Vec<_>>().join(", "))),
        Decl::Variant(n, cs) => o.push_str(&format!("{ind}variant {n} {{ {} }}\n", cs.iter().map(|(c, t)| match t { Some(t) => format!("{c}({})", r_ty(t)), None => c.clone() }).collect::<Vec<_>>().join(", "))),
        Decl::Enum(n, cs) => o.push_str(&format!("{ind}enum {n} {{ {} }}\n", cs.join(", "))),
        Decl::Flags(n, cs) => o.push_str(&format!("{ind}flags {n} {{ {} }}\n", cs.join(", "))),
        Decl::Alias(n, t) => o.push_str(&format!("{ind}type {n} = {};\n", r_ty(t))),
        Decl::Resource(n, ms) => {
            if ms.is_empty() { o.push_str(&format!("{ind}resource {n};\n")); return; }
            o.push_str(&format!("{ind}resource {n} {{\n"));
            for m in ms {
                match m {
                    Member::Ctor(p) => o.push_str(&format!("{ind}  constructor({});\n", r_params(p))),
                    Member::Method(m, f) => o.push_str(&format!("{ind}  {m}: {};\n", r_func(f))),
                    Member::Static(m, f) => o.push_str(&format!("{ind}  {m}: static {};\n", r_func(f))),
                }
            }
            o.push_str(&format!("{ind}}}\n"));
        }
    }
}
fn r_use(from: &str, items: &[(String, Option<String>)], ind: &str, o: &mut String) {
    // a leading '@' marks a reference by full package path; the marker is replaced by `render`
    let from = from.trim_start_matches('!');
    o.push_str(&format!("{ind}use {from}.{{{}}};\n", items.iter().map(|(a, b)| match b { Some(b) => format!("{a} as {b}"), None => a.clone() }).collect::<Vec<_>>().join(", ")));
}
fn r_iitems(items: &[IItem], ind: &str, o: &mut String) {
    for it in items {
        match it {
            IItem::Use(f, l) => r_use(f, l, ind, o),
            IItem::Decl(d) => r_decl(d, ind, o),
            IItem::Func(n, f) => o.push_str(&format!("{ind}{n}: {};\n", r_func(f))),
        }
    }
}
fn r_wpath(kw: &str, p: &WPath, lang: Lang, o: &mut String) {
    match p {
        WPath::Func(n, f) => o.push_str(&format!("  {kw} {n}: {};\n", r_func(f))),
        WPath::Inline(n, items) => {
            o.push_str(&format!("  {kw} {n}: interface {{\n"));
            r_iitems(items, "    ", o);
            // WIT: no semicolon after the closing brace; WAC: required
            o.push_str(if lang == Lang::Wit { "  }\n" } else { "  };\n" });
        }
        WPath::Iface(n) => o.push_str(&format!("  {kw} {};\n", n.trim_start_matches('!'))),
    }
}
fn render(p: &Pkg, lang: Lang) -> String {
    let mut o = String::new();
    o.push_str(&format!("package {}{};\n\n", p.name, match &p.version { Some(v) => format!("@{v}"), None => String::new() }));
    for t in &p.tops {
        match t {
            Top::I(i) => { o.push_str(&format!("interface {} {{\n", i.name)); r_iitems(&i.items, "  ", &mut o); o.push_str("}\n\n"); }
            Top::W(w) => {
                o.push_str(&format!("world {} {{\n", w.name));
                for it in &w.items {
                    match it {
                        WItem::Use(f, l) => r_use(f, l, "  ", &mut o),
                        WItem::Decl(d) => r_decl(d, "  ", &mut o),
                        WItem::Import(p) => r_wpath("import", p, lang, &mut o),
                        WItem::Export(p) => r_wpath("export", p, lang, &mut o),
                        WItem::Include(w, ren) => {
                            if ren.is_empty() { o.push_str(&format!("  include {w};\n")); }
                            else {
                                let l = ren.iter().map(|(a, b)| format!("{a} as {b}")).collect::<Vec<_>>().join(", ");
                                // WIT: `include w with { .. }` has no semicolon; WAC requires one
                                o.push_str(&format!("  include {w} with {{ {l} }}{}\n", if lang == Lang::Wit { "" } else { ";" }));
                            }
                        }
                    }
                }
                o.push_str("}\n\n");
            }
        }
    }
    // `use @iface.{..}` -> `use ns:pkg/iface@version.{..}`
    let ver = match &p.version { Some(v) => format!("@{v}"), None => String::new() };
    let mut out = String::new();
    for line in o.lines() {
        let t = line.trim_start();
        if t.starts_with("import @") || t.starts_with("export @") || t.starts_with("include @") {
            let pos = line.find('@').unwrap();
            let rest = &line[pos + 1..];
            let end = rest.find(|c: char| c == ';' || c == ' ').unwrap_or(rest.len());
            let (name, tail) = rest.split_at(end);
            if lang == Lang::Wit { out.push_str(&format!("{}{}{}\n", &line[..pos], name, tail)); }
            else { out.push_str(&format!("{}{}/{}{}{}\n", &line[..pos], p.name, name, ver, tail)); }
        } else if let Some(pos) = line.find("use @") {
            let rest = &line[pos + 5..];
            let (iface, tail) = rest.split_once('.').unwrap();
            // the reference toolchain rejects a path into the package itself ("package depends on itself"): WIT gets the plain name
            if lang == Lang::Wit { out.push_str(&format!("{}use {}.{}\n", &line[..pos], iface, tail)); }
            else { out.push_str(&format!("{}use {}/{}{}.{}\n", &line[..pos], p.name, iface, ver, tail)); }
        } else { out.push_str(line); out.push('\n'); }
    }
    out
}

// ------------------------------------------------------------------------------------------------ generation
#[derive(Clone, Copy, PartialEq, Debug)]
enum Cat { Val, Res }
/// what a body can see / what an interface exports: (name, category)
type Names = Vec<(String, Cat)>;

struct IfaceInfo { name: String, types: Names, has_funcs: bool, deps: BTreeSet<String> }
struct WorldInfo {
    name: String,
    imports: Vec<String>, exports: Vec<String>,       // explicit names (plain names and interface ids), after includes
    iface_refs: BTreeSet<String>,                      // interfaces referenced explicitly or through use (for implicit imports)
    explicit_iface_imports: BTreeSet<String>,
    export_ifaces: BTreeSet<String>, export_deps: BTreeSet<String>,
    has_use: bool, has_use_res: bool,
}

struct Gen<'a> { r: &'a mut Rng, n: u32, feats: BTreeSet<String> }

impl<'a> Gen<'a> {
    fn fresh(&mut self, p: &str) -> String { self.n += 1; format!("{p}{}", self.n) }
    fn small(&mut self, max: u64) -> usize { self.r.below(max + 1) as usize }

    /// a value type; `borrow_ok`: directly in parameter position
    fn ty(&mut self, sc: &Names, depth: u32, borrow_ok: bool) -> Ty {
        let vals: Vec<&(String, Cat)> = sc.iter().collect();
        let c = self.r.below(if depth == 0 { 10 } else { 16 });
        match c {
            0..=3 => Ty::P(self.r.below(13) as u8),
            4..=8 if !vals.is_empty() => {
                let (n, cat) = (*self.r.pick(&vals)).clone();
                if cat == Cat::Res && borrow_ok && self.r.chance(1, 2) { Ty::Borrow(n) } else { Ty::Name(n) }
            }
            4..=9 => Ty::P(self.r.below(13) as u8),
            10 => Ty::List(Box::new(self.ty(sc, depth - 1, borrow_ok))),
            11 => Ty::Opt(Box::new(self.ty(sc, depth - 1, borrow_ok))),
            12 => {
                let o = if self.r.chance(2, 3) { Some(Box::new(self.ty(sc, depth - 1, borrow_ok))) } else { None };
                let e = if self.r.chance(1, 2) { Some(Box::new(self.ty(sc, depth - 1, borrow_ok))) } else { None };
                Ty::Res(o, e)
            }
            13 | 14 => { let n = 1 + self.small(2); Ty::Tuple((0..n).map(|_| self.ty(sc, depth - 1, borrow_ok)).collect()) }
            _ => Ty::P(12),
        }
    }
    fn func(&mut self, sc: &Names) -> Func {
        let np = self.small(3);
        let params = (0..np).map(|i| (format!("p{i}"), self.ty(sc, 2, true))).collect();
        let result = if self.r.chance(3, 5) { Some(self.ty(sc, 2, false)) } else { None };
        Func { params, result }
    }
    fn decl(&mut self, sc: &Names, taken: &mut BTreeSet<String>, allow_res: bool) -> (Decl, Cat) {
        let name = self.type_name(taken);
        let c = self.r.below(if allow_res { 8 } else { 6 });
        match c {
            0 => { let n = 1 + self.small(3); (Decl::Record(name, (0..n).map(|i| (format!("fld{i}"), self.ty(sc, 2, false))).collect()), Cat::Val) }
            1 => {
                let n = 1 + self.small(3);
                (Decl::Variant(name, (0..n).map(|i| (format!("case{i}"), if self.r.chance(2, 3) { Some(self.ty(sc, 2, false)) } else { None })).collect()), Cat::Val)
            }
            2 => { let n = 1 + self.small(3); (Decl::Enum(name, (0..n).map(|i| format!("e{i}")).collect()), Cat::Val) }
            3 => { let n = 1 + self.small(3); (Decl::Flags(name, (0..n).map(|i| format!("fl{i}")).collect()), Cat::Val) }
            4 | 5 => {
                // alias: of a structural type, or of a name (value or resource)
                let t = self.ty(sc, 2, false);
                let cat = match &t { Ty::Name(n) => sc.iter().find(|x| &x.0 == n).map(|x| x.1).unwrap_or(Cat::Val), _ => Cat::Val };
                (Decl::Alias(name, t), cat)
            }
            _ => {
                // resource: members see the resource itself
                let mut sc2 = sc.clone(); sc2.push((name.clone(), Cat::Res));
                let mut ms = Vec::new();
                let mut used = BTreeSet::new();
                if self.r.chance(1, 2) { let np = self.small(2); ms.push(Member::Ctor((0..np).map(|i| (format!("p{i}"), self.ty(&sc2, 1, true))).collect())); }
                for _ in 0..self.small(3) {
                    let m = format!("m{}", self.r.below(5));
                    if !used.insert(m.clone()) { continue; }
                    let f = if self.r.chance(1, 4) { Func { params: vec![], result: None } } else { self.func(&sc2) };
                    if self.r.chance(1, 3) { ms.push(Member::Static(m, f)) } else { ms.push(Member::Method(m, f)) }
                }
                (Decl::Resource(name, ms), Cat::Res)
            }
        }
    }
    /// type names come from a small pool so that equal names occur in different interfaces
    fn type_name(&mut self, taken: &mut BTreeSet<String>) -> String {
        for _ in 0..8 {
            let n = format!("{}{}", self.r.pick(&["t", "ty-a", "r", "rec-x", "my-type"]), self.r.below(4));
            if taken.insert(n.clone()) { return n; }
        }
        let n = self.fresh("tz"); taken.insert(n.clone()); n
    }

    /// a `use` from one of the earlier interfaces: (from, items, bound names)
    fn use_from(&mut self, ifaces: &[IfaceInfo], taken: &mut BTreeSet<String>) -> Option<(String, Vec<(String, Option<String>)>, Names)> {
        let cands: Vec<&IfaceInfo> = ifaces.iter().filter(|i| !i.types.is_empty()).collect();
        if cands.is_empty() { return None; }
        let src = *self.r.pick(&cands);
        let mut items = Vec::new(); let mut bound = Vec::new(); let mut seen = BTreeSet::new();
        for _ in 0..1 + self.small(2) {
            let (n, cat) = self.r.pick(&src.types).clone();
            if !seen.insert(n.clone()) { continue; }
            if taken.contains(&n) || self.r.chance(1, 3) {
                let local = self.type_name(taken);
                items.push((n, Some(local.clone()))); bound.push((local, cat));
            } else {
                taken.insert(n.clone()); items.push((n.clone(), None)); bound.push((n, cat));
            }
        }
        if items.is_empty() { return None; }
        let by_path = !src.name.starts_with('!') && self.r.chance(1, 6);
        if by_path { self.feats.insert("use-by-package-path".into()); }
        if src.name.starts_with('!') { self.feats.insert("use-from-foreign-package".into()); }
        Some((if by_path { format!("@{}", src.name) } else { src.name.clone() }, items, bound))
    }

    fn iitems(&mut self, ifaces: &[IfaceInfo], max_items: u64, allow_use: bool) -> (Vec<IItem>, Names, bool, BTreeSet<String>) {
        let mut items = Vec::new(); let mut sc: Names = Vec::new(); let mut taken = BTreeSet::new();
        let mut has_funcs = false; let mut deps = BTreeSet::new();
        let n = 1 + self.small(max_items);
        for _ in 0..n {
            match self.r.below(10) {
                0..=2 if allow_use => {
                    if let Some((from, l, bound)) = self.use_from(ifaces, &mut taken) {
                        deps.insert(from.trim_start_matches('@').to_string()); sc.extend(bound); items.push(IItem::Use(from, l));
                    }
                }
                0..=6 => {
                    let (d, cat) = self.decl(&sc, &mut taken, true);
                    if let Decl::Resource(_, ms) = &d { if !ms.is_empty() { has_funcs = true; } }
                    let name = match &d { Decl::Record(n, _) | Decl::Variant(n, _) | Decl::Enum(n, _) | Decl::Flags(n, _) | Decl::Alias(n, _) | Decl::Resource(n, _) => n.clone() };
                    sc.push((name, cat)); items.push(IItem::Decl(d));
                }
                _ => { let f = self.func(&sc); let n = self.fresh("f"); items.push(IItem::Func(n, f)); has_funcs = true; }
            }
        }
        (items, sc, has_funcs, deps)
    }

    fn pkg(&mut self, max_if: u64, max_w: u64, foreign: Vec<IfaceInfo>, dep: bool) -> (Pkg, String, Vec<IfaceInfo>) {
        let name = if dep { format!("{}:{}", self.r.pick(&["dep", "other"]), self.r.pick(&["lib", "p-q"])) }
                   else { format!("{}:{}", self.r.pick(&["x", "foo", "my-ns"]), self.r.pick(&["y", "bar", "pk-g"])) };
        let version = match self.r.below(4) { 0 => None, 1 => Some("1.2.0".to_string()), 2 => Some("0.3.1".to_string()), _ => Some("2.0.0-rc.1".to_string()) };
        let id_of = |n: &str| if let Some(f) = n.strip_prefix('!') { f.to_string() } else { format!("{name}/{n}{}", match &version { Some(v) => format!("@{v}"), None => String::new() }) };
        let n_if = 1 + self.small(max_if - 1); let n_w = self.small(max_w);
        let n_foreign = foreign.len();
        let mut ifaces: Vec<IfaceInfo> = foreign; let mut worlds: Vec<WorldInfo> = Vec::new();
        let mut tops = Vec::new(); let mut metas = Vec::new();
        let (mut di, mut dw) = (0, 0);
        while di < n_if || dw < n_w {
            let do_iface = dw >= n_w || (di < n_if && (ifaces.is_empty() || self.r.chance(2, 3)));
            if do_iface {
                di += 1;
                let iname = format!("{}{}", self.r.pick(&["ia", "ib", "api-x"]), di);
                let types_only = self.r.chance(1, 4);
                let (mut items, sc, mut has_funcs, deps) = self.iitems(&ifaces, 5, true);
                if types_only {
                    items.retain(|i| !matches!(i, IItem::Func(..)));
                    for i in items.iter_mut() { if let IItem::Decl(Decl::Resource(_, ms)) = i { ms.clear(); } }
                    has_funcs = false;
                }
                if items.is_empty() { items.push(IItem::Decl(Decl::Enum("e-only".into(), vec!["a".into()]))); }
                let types: Names = sc;
                let types = if types_only || true { types } else { types };
                // a types-only pass may have removed nothing that `types` depends on (functions bind no names)
                let mut tys: Names = Vec::new();
                for it in &items {
                    match it {
                        IItem::Use(_, l) => for (a, b) in l { let n = b.clone().unwrap_or(a.clone()); if let Some(x) = types.iter().find(|x| x.0 == n) { tys.push(x.clone()); } },
                        IItem::Decl(d) => { let n = match d { Decl::Record(n, _) | Decl::Variant(n, _) | Decl::Enum(n, _) | Decl::Flags(n, _) | Decl::Alias(n, _) | Decl::Resource(n, _) => n }; if let Some(x) = types.iter().find(|x| &x.0 == n) { tys.push(x.clone()); } else { tys.push((n.clone(), Cat::Val)); } }
                        IItem::Func(..) => {}
                    }
                }
                ifaces.push(IfaceInfo { name: iname.clone(), types: tys, has_funcs, deps });
                tops.push(Top::I(Iface { name: iname, items }));
            } else {
                dw += 1;
                let wname = format!("{}{}", self.r.pick(&["wa", "wb", "host-w"]), dw);
                let mut items = Vec::new(); let mut sc: Names = Vec::new(); let mut taken = BTreeSet::new();
                let mut imps: Vec<String> = Vec::new(); let mut exps: Vec<String> = Vec::new();
                let mut refs = BTreeSet::new(); let mut expl_if_imports = BTreeSet::new();
                let (mut has_use, mut has_use_res) = (false, false);
                let mut exp_ifaces: BTreeSet<String> = BTreeSet::new(); let mut exp_deps: BTreeSet<String> = BTreeSet::new();
                let n = 1 + self.small(5);
                for _ in 0..n {
                    match self.r.below(12) {
                        0 | 1 => {
                            if let Some((from, l, bound)) = self.use_from(&ifaces, &mut taken) {
                                has_use = true; if bound.iter().any(|b| b.1 == Cat::Res) { has_use_res = true; }
                                refs.insert(from.trim_start_matches('@').to_string());
                                for b in &bound { imps.push(b.0.clone()); }
                                sc.extend(bound); items.push(WItem::Use(from, l));
                            }
                        }
                        2 => {
                            let ar = self.r.chance(1, 3); let (d, cat) = self.decl(&sc, &mut taken, ar);
                            let name = match &d { Decl::Record(n, _) | Decl::Variant(n, _) | Decl::Enum(n, _) | Decl::Flags(n, _) | Decl::Alias(n, _) | Decl::Resource(n, _) => n.clone() };
                            imps.push(name.clone());
                            if let Decl::Resource(rn, ms) = &d {
                                for m in ms { imps.push(match m { Member::Ctor(_) => format!("[constructor]{rn}"), Member::Method(m, _) => format!("[method]{rn}.{m}"), Member::Static(m, _) => format!("[static]{rn}.{m}") }); }
                                self.feats.insert("world-resource".into());
                            }
                            sc.push((name, cat)); items.push(WItem::Decl(d));
                        }
                        3 | 4 | 5 | 6 => {
                            let imp = self.r.chance(1, 2);
                            let p = if self.r.chance(2, 3) { let n = self.fresh("wf"); WPath::Func(n, self.func(&sc)) }
                                    else { let n = self.fresh("inl"); let (it, _, _, deps) = self.iitems(&ifaces, 3, true); if !imp { exp_deps.extend(deps.iter().cloned()); } refs.extend(deps); WPath::Inline(n, it) };
                            let n = match &p { WPath::Func(n, _) | WPath::Inline(n, _) => n.clone(), _ => unreachable!() };
                            if imp { imps.push(n); items.push(WItem::Import(p)); } else { exps.push(n); items.push(WItem::Export(p)); }
                        }
                        7 | 8 | 9 if !ifaces.is_empty() => {
                            let i = self.r.pick(&ifaces); let id = id_of(&i.name);
                            let imp = self.r.chance(1, 2);
                            let side = if imp { &mut imps } else { &mut exps };
                            if side.contains(&id) { continue; }
                            side.push(id);
                            refs.insert(i.name.clone());
                            let by_path = !i.name.starts_with('!') && self.r.chance(1, 5);
                            if by_path { self.feats.insert("item-by-package-path".into()); }
                            let shown = if by_path { format!("@{}", i.name) } else { i.name.clone() };
                            if imp { expl_if_imports.insert(i.name.clone()); items.push(WItem::Import(WPath::Iface(shown))); }
                            else { exp_ifaces.insert(i.name.clone()); exp_deps.extend(i.deps.iter().cloned()); items.push(WItem::Export(WPath::Iface(shown))); }
                        }
                        _ if !worlds.is_empty() => {
                            // include an earlier world; rename some plain names; never create a conflict
                            let w = self.r.pick(&worlds);
                            if items.iter().any(|i| matches!(i, WItem::Include(n, _) if n.trim_start_matches('@') == w.name)) { continue; }
                            let mut ren: Vec<(String, String)> = Vec::new();
                            let plain: BTreeSet<String> = w.imports.iter().chain(w.exports.iter()).filter(|n| !n.contains(':') && !n.contains('[')).cloned().collect();
                            let mut ok = true;
                            let mut new_i = Vec::new(); let mut new_e = Vec::new();
                            for n in &plain {
                                let clash = (w.imports.contains(n) && imps.contains(n)) || (w.exports.contains(n) && exps.contains(n)) || taken.contains(n);
                                if clash || self.r.chance(1, 4) { ren.push((n.clone(), self.fresh("rn"))); }
                            }
                            let map = |n: &String| ren.iter().find(|r| &r.0 == n).map(|r| r.1.clone()).unwrap_or(n.clone());
                            for n in &w.imports { let m = map(n); if n.contains('[') && imps.contains(&m) { ok = false; } if !imps.contains(&m) { new_i.push(m); } }
                            for n in &w.exports { let m = map(n); if !exps.contains(&m) { new_e.push(m); } }
                            if !ok { continue; }
                            if w.imports.iter().any(|n| !n.contains(':') && w.exports.contains(n)) && !ren.is_empty() { self.feats.insert("include-with-both-sides".into()); }
                            if w.has_use { self.feats.insert("include-of-use".into()); }
                            if w.has_use_res { self.feats.insert("include-of-use-res".into()); }
                            for n in new_i.iter().chain(new_e.iter()) { if !n.contains(':') { taken.insert(n.clone()); } }
                            imps.extend(new_i); exps.extend(new_e);
                            refs.extend(w.iface_refs.iter().cloned());
                            expl_if_imports.extend(w.explicit_iface_imports.iter().cloned());
                            exp_ifaces.extend(w.export_ifaces.iter().cloned()); exp_deps.extend(w.export_deps.iter().cloned());
                            has_use |= w.has_use; has_use_res |= w.has_use_res;
                            let by_path = self.r.chance(1, 5);
                            items.push(WItem::Include(if by_path { format!("@{}", w.name) } else { w.name.clone() }, ren));
                        }
                        _ => {}
                    }
                }
                if items.is_empty() { let n = self.fresh("wf"); exps.push(n.clone()); items.push(WItem::Export(WPath::Func(n, Func { params: vec![], result: None }))); }
                // features for known-finding signatures
                for it in &items { if let WItem::Use(from, _) = it { let from = from.trim_start_matches('@'); if items.iter().any(|j| matches!(j, WItem::Import(WPath::Iface(n)) if n.trim_start_matches('@') == from)) { self.feats.insert("use+import-same-iface".into()); } } }
                // implicit imports: everything reachable through `use` from the referenced interfaces, not imported explicitly
                let mut reach = BTreeSet::new(); let mut todo: Vec<String> = refs.iter().cloned().collect();
                while let Some(x) = todo.pop() { if reach.insert(x.clone()) { if let Some(i) = ifaces.iter().find(|i| i.name == x) { todo.extend(i.deps.iter().cloned()); } } }
                let strict = reach.iter().filter(|n| !expl_if_imports.contains(*n)).all(|n| ifaces.iter().find(|i| &i.name == n).map(|i| !i.has_funcs).unwrap_or(true));
                // the reference satisfies a dependency of an export from another export of the world when the interface is
                // exported and not imported; wac imports it: the world types then legitimately differ in an implicit import
                let mut dreach = BTreeSet::new(); let mut todo: Vec<String> = exp_deps.iter().cloned().collect();
                while let Some(x) = todo.pop() { if dreach.insert(x.clone()) { if let Some(i) = ifaces.iter().find(|i| i.name == x) { todo.extend(i.deps.iter().cloned()); } } }
                let expdep = dreach.iter().any(|d| exp_ifaces.contains(d));
                metas.push(format!("W|{wname}|{}|{}|{}", imps.join(","), exps.join(","), if expdep { 2 } else if strict { 1 } else { 0 }));
                worlds.push(WorldInfo { name: wname.clone(), imports: imps, exports: exps, iface_refs: refs, explicit_iface_imports: expl_if_imports, export_ifaces: exp_ifaces, export_deps: exp_deps, has_use, has_use_res });
                tops.push(Top::W(World { name: wname, items }));
            }
        }
        for f in &self.feats { metas.push(format!("F|{f}")); }
        let infos: Vec<IfaceInfo> = ifaces.into_iter().skip(n_foreign).map(|i| {
            let id = id_of(&i.name);
            IfaceInfo { name: format!("!{id}"), types: i.types, has_funcs: i.has_funcs, deps: i.deps.iter().map(|d| format!("!{}", id_of(d))).collect() }
        }).collect();
        (Pkg { name, version, tops }, metas.join(";"), infos)
    }
}

// ------------------------------------------------------------------------------------------------ observation of the real resolver
fn prim(p: PrimitiveType) -> &'static str {
    match p {
        PrimitiveType::U8 => "u8", PrimitiveType::S8 => "s8", PrimitiveType::U16 => "u16", PrimitiveType::S16 => "s16",
        PrimitiveType::U32 => "u32", PrimitiveType::S32 => "s32", PrimitiveType::U64 => "u64", PrimitiveType::S64 => "s64",
        PrimitiveType::F32 => "f32", PrimitiveType::F64 => "f64", PrimitiveType::Char => "char", PrimitiveType::Bool => "bool",
        PrimitiveType::String => "string", PrimitiveType::ErrorContext => "error-context",
    }
}
fn res_name(t: &Types, r: ResourceId) -> String { t[t.resolve_resource(r)].name.clone() }
fn s_vt(t: &Types, v: ValueType) -> String {
    let o = |x: &Option<ValueType>| match x { Some(y) => s_vt(t, *y), None => "_".into() };
    match v {
        ValueType::Primitive(p) => prim(p).into(),
        ValueType::Borrow(r) => format!("borrow({})", res_name(t, r)),
        ValueType::Own(r) => format!("own({})", res_name(t, r)),
        ValueType::Defined(d) => match &t[d] {
            DefinedType::Tuple(l) => format!("tuple({})", l.iter().map(|x| s_vt(t, *x)).collect::<Vec<_>>().join(",")),
            DefinedType::List(x) => format!("list({})", s_vt(t, *x)),
            DefinedType::FixedSizeList(x, n) => format!("fsl({},{n})", s_vt(t, *x)),
            DefinedType::Option(x) => format!("option({})", s_vt(t, *x)),
            DefinedType::Result { ok, err } => format!("result({},{})", o(ok), o(err)),
            DefinedType::Variant(v) => format!("variant({})", v.cases.iter().map(|(n, x)| match x { Some(y) => format!("{n}:{}", s_vt(t, *y)), None => n.clone() }).collect::<Vec<_>>().join(",")),
            DefinedType::Record(r) => format!("record({})", r.fields.iter().map(|(n, x)| format!("{n}:{}", s_vt(t, *x))).collect::<Vec<_>>().join(",")),
            DefinedType::Flags(f) => format!("flags({})", f.0.iter().cloned().collect::<Vec<_>>().join(",")),
            DefinedType::Enum(e) => format!("enum({})", e.0.iter().cloned().collect::<Vec<_>>().join(",")),
            DefinedType::Alias(x) => s_vt(t, *x),
            DefinedType::Stream(x) => format!("stream({})", o(x)),
            DefinedType::Future(x) => format!("future({})", o(x)),
        },
    }
}
fn s_func(t: &Types, f: FuncTypeId) -> String {
    let f = &t[f];
    format!("{}func({})->{}", if f.is_async { "async " } else { "" },
        f.params.iter().map(|(n, x)| format!("{n}:{}", s_vt(t, *x))).collect::<Vec<_>>().join(","),
        match f.result { Some(y) => s_vt(t, y), None => "_".into() })
}
fn s_items<'a>(t: &Types, l: impl Iterator<Item = (&'a String, &'a ItemKind)>) -> String {
    l.map(|(n, k)| format!("{n}={}", s_kind(t, *k))).collect::<Vec<_>>().join(";")
}
fn s_kind(t: &Types, k: ItemKind) -> String {
    match k {
        ItemKind::Func(f) => format!("F:{}", s_func(t, f)),
        ItemKind::Instance(i) => format!("I{{{}}}", s_items(t, t[i].exports.iter())),
        ItemKind::Component(w) => format!("C{{{}}}{{{}}}", s_items(t, t[w].imports.iter()), s_items(t, t[w].exports.iter())),
        ItemKind::Module(_) => "M".into(),
        ItemKind::Value(v) => format!("V:{}", s_vt(t, v)),
        ItemKind::Type(Type::Resource(r)) => format!("res({})", res_name(t, r)),
        ItemKind::Type(Type::Func(f)) => format!("TF:{}", s_func(t, f)),
        ItemKind::Type(Type::Value(v)) => format!("T:{}", s_vt(t, v)),
        ItemKind::Type(Type::Interface(i)) => format!("TI{{{}}}", s_items(t, t[i].exports.iter())),
        ItemKind::Type(Type::World(w)) => format!("TC{{{}}}{{{}}}", s_items(t, t[w].imports.iter()), s_items(t, t[w].exports.iter())),
        ItemKind::Type(Type::Module(_)) => "TM".into(),
    }
}
fn s_uses(t: &Types, u: &indexmap::IndexMap<String, UsedType>) -> String {
    u.iter().map(|(n, x)| format!("{n}<-{}#{}", t[x.interface].id.clone().unwrap_or("-".into()), x.name.clone().unwrap_or("-".into()))).collect::<Vec<_>>().join(",")
}
fn s_meta(t: &Types, k: ItemKind) -> String {
    match k {
        ItemKind::Type(Type::Interface(i)) => format!("id={} uses=[{}]", t[i].id.clone().unwrap_or("-".into()), s_uses(t, &t[i].uses)),
        ItemKind::Type(Type::World(w)) => format!("id={} uses=[{}]", t[w].id.clone().unwrap_or("-".into()), s_uses(t, &t[w].uses)),
        _ => "-".into(),
    }
}


// ------------------------------------------------------------------------------------------------ shape features (signatures of known findings)
fn closure(t: &Types, i: InterfaceId, out: &mut Vec<String>) {
    // dependencies first, then the interface itself (TypeEncoder::import_deps)
    for u in t[i].uses.values() { closure(t, u.interface, out); }
    if let Some(id) = &t[i].id { if !out.contains(id) { out.push(id.clone()); } }
}
fn res_collision<'a>(t: &Types, items: impl Iterator<Item = (&'a String, &'a ItemKind)>) -> bool {
    let mut seen: Vec<(String, ResourceId)> = Vec::new();   // (definition name, id) of the resource externs so far
    for (n, k) in items {
        if let ItemKind::Type(Type::Resource(r)) = k {
            let dn = t[*r].name.clone();
            if seen.iter().any(|(d, id)| *d == dn || (d == n && id != r)) { return true; }
            seen.push((dn, *r));
        }
    }
    false
}
fn iface_collision(t: &Types, i: InterfaceId) -> bool { res_collision(t, t[i].exports.iter()) }
/// `type a = b` where `b` was obtained by `use`
fn alias_of_used<'a>(t: &Types, uses: &indexmap::IndexMap<String, UsedType>, items: &indexmap::IndexMap<String, ItemKind>) -> bool {
    let used: Vec<ItemKind> = uses.keys().filter_map(|k| items.get(k).copied()).collect();
    items.iter().any(|(n, k)| !uses.contains_key(n) && match k {
        ItemKind::Type(Type::Value(ValueType::Defined(d))) => match &t[*d] { DefinedType::Alias(v) => used.contains(&ItemKind::Type(Type::Value(*v))), _ => false },
        _ => false })
}
/// `type a = r` where the resource `r` was obtained by `use`
fn res_alias_of_used(t: &Types, uses: &indexmap::IndexMap<String, UsedType>, items: &indexmap::IndexMap<String, ItemKind>) -> bool {
    let used: Vec<ResourceId> = uses.keys().filter_map(|k| match items.get(k) { Some(ItemKind::Type(Type::Resource(r))) => Some(*r), _ => None }).collect();
    items.iter().any(|(n, k)| !uses.contains_key(n) && match k {
        ItemKind::Type(Type::Resource(r)) => match &t[*r].alias { Some(a) => used.contains(&a.source), None => false },
        _ => false })
}
fn all_use_names(t: &Types, i: InterfaceId, out: &mut BTreeSet<String>, depth: u32) {
    if depth > 8 { return; }
    for (n, u) in &t[i].uses { out.insert(n.clone()); all_use_names(t, u.interface, out, depth + 1); }
}
fn world_features(t: &Types, w: WorldId, f: &mut BTreeSet<String>) {
    let world = &t[w];
    let mut inst: Vec<String> = Vec::new();
    for u in world.uses.values() { closure(t, u.interface, &mut inst); }
    if alias_of_used(t, &world.uses, &world.imports) { f.insert("alias-of-used-type".into()); }
    if res_alias_of_used(t, &world.uses, &world.imports) { f.insert("res-alias-of-used".into()); }
    let mut leaked: BTreeSet<String> = BTreeSet::new();    // local names of `use`s of interfaces encoded so far
    let mut seen_instance = false;
    for (n, k) in &world.imports {
        if let ItemKind::Type(_) = k { if leaked.contains(n) { f.insert("alias-name-leak".into()); } }
        // encoding an instance import clears the world's own `type_aliases`: a used RESOURCE imported after it loses its alias
        if let ItemKind::Type(Type::Resource(_)) = k { if seen_instance && world.uses.contains_key(n) { f.insert("alias-name-leak".into()); } }
        if let ItemKind::Instance(_) = k { seen_instance = true; }
        if let ItemKind::Instance(i) = k {
            all_use_names(t, *i, &mut leaked, 0);
            if alias_of_used(t, &t[*i].uses, &t[*i].exports) { f.insert("alias-of-used-type".into()); }
            if res_alias_of_used(t, &t[*i].uses, &t[*i].exports) { f.insert("res-alias-of-used".into()); }
            if let Some(id) = &t[*i].id { if inst.contains(id) { f.insert("dup-import".into()); } }
            for u in t[*i].uses.values() { closure(t, u.interface, &mut inst); }
            if let Some(id) = &t[*i].id { if !inst.contains(id) { inst.push(id.clone()); } }
            if iface_collision(t, *i) { f.insert("res-name-collision".into()); }
        }
    }
    for (_, k) in &world.exports { if let ItemKind::Instance(i) = k {
        if iface_collision(t, *i) { f.insert("res-name-collision".into()); }
        if alias_of_used(t, &t[*i].uses, &t[*i].exports) { f.insert("alias-of-used-type".into()); }
        if res_alias_of_used(t, &t[*i].uses, &t[*i].exports) { f.insert("res-alias-of-used".into()); } } }
    if res_collision(t, world.imports.iter()) { f.insert("res-name-collision".into()); }
}
fn world_decl<'a, 'b>(doc: &'b wac_parser::Document<'a>, name: &str) -> Option<&'b wac_parser::WorldDecl<'a>> {
    doc.statements.iter().find_map(|s| match s { wac_parser::Statement::Type(wac_parser::TypeStatement::World(w)) if w.id.string == name => Some(w), _ => None })
}
fn world_ref_name<'a>(doc: &wac_parser::Document<'a>, r: &wac_parser::WorldRef<'a>) -> Option<&'a str> {
    match r {
        wac_parser::WorldRef::Ident(id) => Some(id.string),
        wac_parser::WorldRef::Package(p) if p.name == doc.directive.package.name => p.segment_spans().next().map(|x| x.0),
        _ => None,
    }
}
fn world_has_use(doc: &wac_parser::Document, name: &str, depth: u32) -> bool {
    if depth > 8 { return false; }
    match world_decl(doc, name) {
        None => false,
        Some(w) => w.items.iter().any(|it| match it {
            wac_parser::WorldItem::Use(_) => true,
            wac_parser::WorldItem::Include(i) => match world_ref_name(doc, &i.world) { Some(n) => world_has_use(doc, n, depth + 1), None => false },
            _ => false,
        }),
    }
}
fn features(doc: &wac_parser::Document, g: &wac_graph::CompositionGraph) -> String {
    let t = g.types();
    let mut f = BTreeSet::new();
    for s in &doc.statements {
        if let wac_parser::Statement::Type(ts) = s {
            match ts {
                wac_parser::TypeStatement::Interface(i) => {
                    if let Some(ItemKind::Type(Type::Interface(id))) = g.get_export(i.id.string).map(|n| g[n].item_kind()) {
                        if iface_collision(t, id) { f.insert("res-name-collision".into()); }
                        if alias_of_used(t, &t[id].uses, &t[id].exports) { f.insert("alias-of-used-type".into()); }
                        if res_alias_of_used(t, &t[id].uses, &t[id].exports) { f.insert("res-alias-of-used".into()); } }
                }
                wac_parser::TypeStatement::World(w) => {
                    let wid = match g.get_export(w.id.string).map(|n| g[n].item_kind()) { Some(ItemKind::Type(Type::World(id))) => id, _ => continue };
                    world_features(t, wid, &mut f);
                    for it in &w.items {
                        if let wac_parser::WorldItem::Include(inc) = it {
                            if let Some(v) = world_ref_name(doc, &inc.world) {
                                if world_has_use(doc, v, 0) { f.insert("include-of-use".into()); }
                                if let Some(ItemKind::Type(Type::World(vid))) = g.get_export(v).map(|n| g[n].item_kind()) {
                                    for r in &inc.with {
                                        if t[vid].imports.contains_key(r.from.string) && t[vid].exports.contains_key(r.from.string) { f.insert("include-with-both-sides".into()); }
                                        if let Some(ItemKind::Type(Type::Resource(_))) = t[vid].imports.get(r.from.string) {
                                            let pre = [format!("[constructor]{}", r.from.string), format!("[method]{}.", r.from.string), format!("[static]{}.", r.from.string)];
                                            if t[vid].imports.keys().any(|k| pre.iter().any(|p| k.starts_with(p.as_str()))) { f.insert("include-with-renames-resource".into()); }
                                        }
                                    }
                                }
                            }
                        }
                    }
                }
                _ => {}
            }
        }
    }
    f.into_iter().collect::<Vec<_>>().join(",")
}

static LAST_PANIC: std::sync::Mutex<String> = std::sync::Mutex::new(String::new());
fn last_panic() -> String { LAST_PANIC.lock().unwrap().chars().take(300).collect() }

fn err_class<E: std::fmt::Debug>(e: &E) -> String {
    let d = format!("{e:?}");
    d.split(|c: char| !(c.is_alphanumeric())).next().unwrap_or("?").to_string()
}

/// observation + (if everything succeeds) the encoded bytes
/// name and version of the `package` line of a WIT text
fn package_line(src: &str) -> Option<(String, Option<semver::Version>)> {
    let l = src.lines().find(|l| l.starts_with("package "))?;
    let body = l.trim_start_matches("package ").trim_end_matches(';').trim();
    match body.split_once('@') { Some((n, v)) => Some((n.to_string(), semver::Version::parse(v).ok())), None => Some((body.to_string(), None)) }
}

fn observe_wac(src: &str, dep: &str) -> (String, Option<Result<Vec<u8>, String>>, String) {
    let r = catch_unwind(AssertUnwindSafe(|| {
        let doc = match wac_parser::Document::parse(src) { Ok(d) => d, Err(_) => return ("PARSE-ERR".to_string(), None, String::new()) };
        // the dependency, if any, is supplied as the reference toolchain's binary encoding of its WIT text
        let dep_info = if dep.is_empty() { None } else {
            let (n, v) = match package_line(dep) { Some(x) => x, None => return ("BAD-DEP".to_string(), None, String::new()) };
            let bytes = match wit_encode(dep, "") { Ok(b) => b, Err(e) => return (format!("BAD-DEP {e}"), None, String::new()) };
            Some((n, v, bytes))
        };
        let mut packages = indexmap::IndexMap::new();
        if let Some((n, v, bytes)) = &dep_info { packages.insert(BorrowedPackageKey::from_name_and_version(n, v.as_ref()), bytes.clone()); }
        let res = match doc.resolve(packages) { Ok(r) => r, Err(e) => return (format!("ERR {}", err_class(&e)), None, String::new()) };
        let g = res.graph(); let t = g.types();
        let mut trees = Vec::new(); let mut metas = Vec::new();
        for s in &doc.statements {
            let name = match s {
                wac_parser::Statement::Type(wac_parser::TypeStatement::Interface(i)) => i.id.string,
                wac_parser::Statement::Type(wac_parser::TypeStatement::World(w)) => w.id.string,
                wac_parser::Statement::Type(wac_parser::TypeStatement::Type(d)) => d.id().string,
                _ => return ("UNMODELLED".to_string(), None, String::new()),
            };
            let node = match g.get_export(name) { Some(n) => n, None => return (format!("NO-EXPORT {name}"), None, String::new()) };
            let k = g[node].item_kind();
            trees.push(format!("{name}={}", s_kind(t, k)));
            metas.push(format!("{name}:{}", s_meta(t, k)));
        }
        let obs = format!("OK {} ## {}", trees.join(" | "), metas.join(" | "));
        let enc = catch_unwind(AssertUnwindSafe(|| res.encode(wac_graph::EncodeOptions::default()).map_err(|e| format!("{}: {e:?}", err_class(&e)))))
            .unwrap_or_else(|_| Err(format!("PANIC in encode: {}", last_panic())));
        let feats = catch_unwind(AssertUnwindSafe(|| features(&doc, g))).unwrap_or_else(|_| "FEATURE-PANIC".into());
        (obs, Some(enc), feats)
    }));
    r.unwrap_or_else(|_| (format!("PANIC {}", last_panic()), None, String::new()))
}

fn wit_encode(wit: &str, dep: &str) -> Result<Vec<u8>, String> {
    catch_unwind(AssertUnwindSafe(|| {
        let mut resolve = wit_parser::Resolve::default();
        if !dep.is_empty() { resolve.push_str("dep.wit", dep).map_err(|e| format!("dependency: {e:#}"))?; }
        let id = resolve.push_str("c05.wit", wit).map_err(|e| format!("{e:#}"))?;
        wit_component::encode(&resolve, id).map_err(|e| format!("{e:#}"))
    })).unwrap_or_else(|_| Err("PANIC in the reference toolchain".into()))
}

struct WMeta { name: String, imports: Vec<String>, exports: Vec<String>, strict: bool, skip_wp: bool }
fn parse_meta(meta: &str) -> (Vec<WMeta>, Vec<String>) {
    let mut w = Vec::new(); let mut f = Vec::new();
    let l = |s: &str| if s.is_empty() { vec![] } else { s.split(',').map(|x| x.to_string()).collect::<Vec<_>>() };
    for rec in meta.split(';') {
        let p: Vec<&str> = rec.split('|').collect();
        if p[0] == "W" && p.len() == 5 { w.push(WMeta { name: p[1].to_string(), imports: l(p[2]), exports: l(p[3]), strict: p[4] == "1", skip_wp: p[4] == "2" }); }
        else if p[0] == "F" && p.len() == 2 { f.push(p[1].to_string()); }
    }
    (w, f)
}

fn mutual(types: &Types, a: ItemKind, b: ItemKind) -> Result<(), String> {
    let mut cache = HashSet::new();
    SubtypeChecker::new(&mut cache).is_subtype(a, types, b, types).map_err(|e| format!("reference </= wac: {e:#}"))?;
    let mut cache = HashSet::new();
    SubtypeChecker::new(&mut cache).is_subtype(b, types, a, types).map_err(|e| format!("wac </= reference: {e:#}"))
}

/// wac-types level comparison: both binaries in ONE Types collection
fn compare_ref(wit_bytes: &[u8], wac_bytes: &[u8], worlds: &[WMeta]) -> String {
    let r = catch_unwind(AssertUnwindSafe(|| -> Result<(usize, usize), String> {
        let mut types = Types::default();
        let pw = match catch_unwind(AssertUnwindSafe(|| Package::from_bytes("ref", None, wit_bytes.to_vec(), &mut types))) {
            Ok(r) => r.map_err(|e| format!("SKIP decoder rejects the reference encoding: {e:#}"))?, Err(_) => return Err(format!("SKIP decoder panics on the reference encoding: {}", last_panic())) };
        let pc = match catch_unwind(AssertUnwindSafe(|| Package::from_bytes("wac", None, wac_bytes.to_vec(), &mut types))) {
            Ok(r) => r.map_err(|e| format!("decode wac: {e:#}"))?, Err(_) => return Err(format!("SKIP decoder panics on the wac encoding: {}", last_panic())) };
        let (mut ni, mut nw) = (0, 0);
        for n in pc.definitions().keys() { if !pw.definitions().contains_key(n) { return Err(format!("{n}: defined by wac only")); } }
        for (n, k) in pw.definitions() {
            let k2 = *pc.definitions().get(n).ok_or(format!("{n}: missing in the wac encoding"))?;
            match (*k, k2) {
                (ItemKind::Type(Type::Interface(_)), ItemKind::Type(Type::Interface(_))) => { mutual(&types, *k, k2).map_err(|e| format!("interface {n}: {e}"))?; ni += 1; }
                (ItemKind::Type(Type::World(a)), ItemKind::Type(Type::World(b))) => {
                    let meta = worlds.iter().find(|w| &w.name == n);
                    let (wa, wb) = (&types[a], &types[b]);
                    // exports: explicit on both sides
                    let ka: BTreeSet<&String> = wa.exports.keys().collect(); let kb: BTreeSet<&String> = wb.exports.keys().collect();
                    if ka != kb { return Err(format!("world {n}: export names differ: reference {ka:?} wac {kb:?}")); }
                    for (x, ia) in &wa.exports { mutual(&types, *ia, wb.exports[x]).map_err(|e| format!("world {n} export {x}: {e}"))?; }
                    // imports: every import of the wac encoding exists in the reference; explicit ones mutually subtype,
                    // the others (implicit interface imports, which wac trims to the used types) in one direction
                    for (x, ib) in &wb.imports {
                        let explicit = meta.map(|m| m.imports.contains(x)).unwrap_or(false);
                        // an implicit interface import that only wac has: the reference satisfies the dependency of an
                        // export from another export of the world (tolerated: the property speaks of explicit items)
                        if !explicit && x.contains('/') && !wa.imports.contains_key(x) && wa.exports.contains_key(x) { continue; }
                        let ia = *wa.imports.get(x).ok_or(format!("world {n}: import {x} only in the wac encoding"))?;
                        if explicit { mutual(&types, ia, *ib).map_err(|e| format!("world {n} import {x}: {e}"))?; }
                        else { let mut c = HashSet::new(); SubtypeChecker::new(&mut c).is_subtype(ia, &types, *ib, &types).map_err(|e| format!("world {n} implicit import {x}: reference </= wac: {e:#}"))?; }
                    }
                    if let Some(m) = meta {
                        for x in &m.imports { if !wb.imports.contains_key(x) { return Err(format!("world {n}: explicit import {x} missing in the wac encoding")); } if !wa.imports.contains_key(x) { return Err(format!("world {n}: explicit import {x} missing in the reference encoding")); } }
                        for x in &m.exports { if !wb.exports.contains_key(x) { return Err(format!("world {n}: explicit export {x} missing in the wac encoding")); } }
                    }
                    for x in wa.imports.keys() { if !wb.imports.contains_key(x) && !x.contains('/') { return Err(format!("world {n}: plain import {x} missing in the wac encoding")); } }
                    nw += 1;
                }
                _ => return Err(format!("{n}: kinds differ")),
            }
        }
        Ok((ni, nw))
    }));
    match r { Ok(Ok((i, w))) => format!("REF-OK {i} {w}"), Ok(Err(e)) if e.starts_with("SKIP ") => format!("REF-{e}"), Ok(Err(e)) => format!("REF-DIFF {e}"), Err(_) => format!("REF-DIFF PANIC while comparing: {}", last_panic()) }
}

/// validator level comparison: both binaries nested in one component; wasmparser's own subtyping on the exported types
fn compare_wp(wit_bytes: &[u8], wac_bytes: &[u8], worlds: &[WMeta]) -> String {
    let r = catch_unwind(AssertUnwindSafe(|| -> Result<usize, String> {
        use wasmparser::component_types::ComponentEntityType as E;
        let mut outer = wasm_encoder::Component::new();
        outer.section(&wasm_encoder::RawSection { id: 4, data: wit_bytes });
        outer.section(&wasm_encoder::RawSection { id: 4, data: wac_bytes });
        let bytes = outer.finish();
        let mut v = wasmparser::Validator::new_with_features(wasmparser::WasmFeatures::all());
        let types = v.validate_all(&bytes).map_err(|e| format!("nested component does not validate: {e}"))?;
        let tr = types.as_ref();
        let (ca, cb) = (&tr[tr.component_at(0)], &tr[tr.component_at(1)]);
        let mut n = 0;
        for (name, ea) in ca.exports.iter() {
            let eb = cb.exports.get(name).ok_or(format!("{name}: missing in the wac encoding"))?;
            let ab = E::is_subtype_of(ea, tr, eb, tr); let ba = E::is_subtype_of(eb, tr, ea, tr);
            match worlds.iter().find(|w| &w.name == name) {
                None => { if !(ab && ba) { return Err(format!("interface {name}: reference<=wac {ab}, wac<=reference {ba}")); } }
                Some(m) if m.skip_wp => { continue; }
                Some(m) => {
                    if !ba { return Err(format!("world {name}: wac<=reference false")); }
                    if m.strict && !ab { return Err(format!("world {name}: reference<=wac false (no function-bearing implicit import)")); }
                }
            }
            n += 1;
        }
        Ok(n)
    }));
    match r { Ok(Ok(n)) => format!("WP-OK {n}"), Ok(Err(e)) => format!("WP-DIFF {e}"), Err(_) => format!("WP-SKIP the validator's subtype check panics: {}", last_panic()) }
}

fn evaluate(kind: &str, wac: &str, wit: &str, meta: &str, dep: &str) -> String {
    let (obs, enc, feats) = observe_wac(wac, dep);
    let feats = if feats.is_empty() { "-".to_string() } else { feats };
    if kind != "pkg" { return format!("{obs}\t-\t-\t{feats}"); }
    let (worlds, _) = parse_meta(meta);
    let clean = |s: String| s.replace(['\n', '\t'], " ");
    let wb = match wit_encode(wit, dep) { Ok(b) => b, Err(e) => return format!("{obs}\tREF-SKIP reference toolchain rejects the text: {}\tWP-SKIP\t{feats}", clean(e)) };
    let cb = match enc {
        None => return format!("{obs}\tREF-DIFF wac does not resolve a text the reference accepts\tWP-SKIP\t{feats}"),
        Some(Err(e)) => return format!("{obs}\tREF-DIFF wac encode fails: {}\tWP-SKIP\t{feats}", clean(e)),
        Some(Ok(b)) => b,
    };
    format!("{obs}\t{}\t{}\t{feats}", clean(compare_ref(&wb, &cb, &worlds)), clean(compare_wp(&wb, &cb, &worlds)))
}

// ------------------------------------------------------------------------------------------------ negative cases (WAC only)
fn negatives(r: &mut Rng, n_random: usize) -> Vec<String> {
    let hdr = "package x:y;\n";
    let mut v: Vec<String> = vec![
        // duplicate / undefined names
        "interface a { record t { f: u8 } record t { g: u8 } }".into(),
        "interface a { type t = u8; type t = u16; }".into(),
        "interface a { resource r; resource r; }".into(),
        "interface a { type t = nope; }".into(),
        "interface a { f: func(x: nope); }".into(),
        "interface a { f: func() -> nope; }".into(),
        "interface a {} interface a {}".into(),
        "interface a {} world a {}".into(),
        "type t = u8; type t = u16;".into(),
        "type t = u8; interface t {}".into(),
        // duplicate members of structural types
        "interface a { variant v { x, x } }".into(),
        "interface a { variant v { x(u8), y, x(u16) } }".into(),
        "interface a { record r { x: u8, x: u16 } }".into(),
        "interface a { flags f { x, y, x } }".into(),
        "interface a { enum e { x, x } }".into(),
        "variant v { x, x }".into(), "record r { x: u8, x: u8 }".into(), "flags f { x, x }".into(), "enum e { x, x }".into(),
        // aliases, references of the wrong kind
        "interface a {} type t = a;".into(),
        "world w {} type t = w;".into(),
        "interface a { type f = func(); g: f; type h = f; k: h; }".into(),
        "interface a { type t = u8; g: t; }".into(),
        "interface a { type t = u8; f: func(x: borrow<t>); }".into(),
        "interface a { type f = func(); g: func(x: f); }".into(),
        "interface a { type f = func(); type t = list<f>; }".into(),
        "interface a { resource r; type r2 = r; type r3 = r2; f: func(x: borrow<r3>) -> r2; }".into(),
        // parameters, results
        "interface a { f: func(x: u8, x: u16); }".into(),
        "interface a { resource r { m: func(self: u8); } }".into(),
        "interface a { resource r { s: static func(self: u8); } }".into(),
        "interface a { resource r { constructor(x: u8, x: u8); } }".into(),
        "interface a { resource r; f: func() -> borrow<r>; }".into(),
        "interface a { resource r; f: func() -> list<borrow<r>>; }".into(),
        "interface a { resource r; f: func() -> tuple<u8, option<borrow<r>>>; }".into(),
        "interface a { resource r; f: func() -> result<u8, borrow<r>>; }".into(),
        "interface a { resource r; f: func() -> result<borrow<r>>; }".into(),
        "interface a { resource r; type f = func() -> borrow<r>; }".into(),
        "interface a { resource r { m: func() -> borrow<r>; } }".into(),
        "interface a { resource r; f: func(x: list<borrow<r>>) -> r; }".into(),
        "type f = func() -> u8; type g = func(x: u8, x: u8);".into(),
        // resources
        "interface a { resource r { constructor(); constructor(x: u8); } }".into(),
        "interface a { resource r { m: func(); m: func(x: u8); } }".into(),
        "interface a { resource r { m: func(); m: static func(); } }".into(),
        "interface a { resource r { m: static func(); n: func(); constructor(); } }".into(),
        // interface exports
        "interface a { f: func(); f: func(x: u8); }".into(),
        "interface a { type f = u8; f: func(); }".into(),
        "interface a { f: func(); type f = u8; }".into(),
        "interface a { f: func(); record f { x: u8 } }".into(),
        "interface a { f: func(); resource f; }".into(),
        "interface a { resource r { m: func(); } r: func(); }".into(),
        // use
        "interface a { type t = u8; } interface b { use a.{nope}; }".into(),
        "interface a { type t = u8; } interface b { use nope.{t}; }".into(),
        "interface a { type t = u8; } interface b { use b.{t}; }".into(),
        "interface a { f: func(); } interface b { use a.{f}; }".into(),
        "interface a { type f = func(); } interface b { use a.{f}; }".into(),
        "interface a { type t = u8; } interface b { type t = u16; use a.{t}; }".into(),
        "interface a { type t = u8; } interface b { use a.{t}; type t = u16; }".into(),
        "interface a { type t = u8; } interface b { use a.{t, t}; }".into(),
        "interface a { type t = u8; } interface b { use a.{t as u, t as u}; }".into(),
        "interface a { type t = u8; } interface b { use a.{t as u, t as v}; f: func(x: u) -> v; }".into(),
        "interface a { type t = u8; } interface b { f: func(); use a.{t as f}; }".into(),
        "interface a { type t = u8; } world w { use a.{t}; } interface b { use w.{t}; }".into(),
        "type t = u8; interface b { use t.{x}; }".into(),
        "interface a { type t = u8; } interface b { use x:y/a.{t}; }".into(),
        "interface a { resource r { constructor(); } } interface b { use a.{r}; f: func() -> r; } interface c { use b.{r as q}; g: func(x: borrow<q>); }".into(),
        // worlds
        "world w { import f: func(); import f: func(); }".into(),
        "world w { export f: func(); export f: func(); }".into(),
        "world w { import f: func(); export f: func(); }".into(),
        "interface a {} world w { import a; import a; }".into(),
        "interface a {} world w { import a; export a; }".into(),
        "interface a {} world w { export a; export a; }".into(),
        "world w { import nope; }".into(),
        "type t = u8; world w { import t; }".into(),
        "world v {} world w { import v; }".into(),
        "interface a {} world w { import x: a; export y: a; }".into(),
        "type f = func(x: u8); world w { import x: f; }".into(),
        "type t = u8; world w { import x: t; }".into(),
        "world w { import x: nope; }".into(),
        "world w { type t = u8; import x: t; }".into(),
        "world w { type f = func(); import x: f; }".into(),
        "world w { import t: func(); type t = u8; }".into(),
        "world w { import r: func(); resource r; }".into(),
        "world w { import a: func(); record a { x: u8 } }".into(),
        "world w { import r: interface {}; resource r { constructor(); } }".into(),
        "interface a { f: func(); variant f { x } }".into(),
        "interface a { f: func(); type f = u8; f: func(); }".into(),
        "world w { type t = u8; import t: func(); }".into(),
        "world w { resource r { constructor(); m: func(); } import f: func(x: borrow<r>) -> r; export g: func() -> r; }".into(),
        "world w { import i: interface { type t = u8; f: func() -> t; }; export j: interface { resource r; }; }".into(),
        "interface a { type t = u8; } world w { import i: interface { use a.{t}; f: func() -> t; }; }".into(),
        "world w { type t = u8; import i: interface { f: func() -> t; }; }".into(),
        "interface a { type t = u8; } world w { use a.{t}; use a.{t}; }".into(),
        "interface a { type t = u8; } world w { use a.{t}; type t = u16; }".into(),
        "interface a { type t = u8; } world w { import t: func(); use a.{t}; }".into(),
        "interface a { type t = u8; } world w { use a.{t}; import a; }".into(),
        // include
        "world v { import f: func(); } world w { include v; }".into(),
        "world v { import f: func(); } world w { include nope; }".into(),
        "interface v {} world w { include v; }".into(),
        "world v { import f: func(); } world w { import f: func(); include v; }".into(),
        "world v { import f: func(); } world w { include v; import f: func(); }".into(),
        "world v { export f: func(); } world w { export f: func(); include v; }".into(),
        "world v { import f: func(); } world w { import f: func(); include v with { f as g }; }".into(),
        "world v { import f: func(); } world w { import g: func(); include v with { f as g }; }".into(),
        "world v { import f: func(); } world w { include v with { nope as g }; }".into(),
        "world v { import f: func(); } world w { include v with { f as g, f as h }; }".into(),
        "world v { import f: func(); export h: func(); } world w { include v with { f as g, h as k }; }".into(),
        "world v { import f: func(); export f: func(); } world w { include v with { f as g }; }".into(),
        "interface a {} world v { import a; } world w { import a; include v; }".into(),
        "interface a {} world v { import a; } world w { include v with { a as b }; }".into(),
        "interface a {} world v { export a; import f: func(); } world u { export a; import g: func(); } world w { include v; include u; }".into(),
        "world v { import f: func(); } world u { import f: func(); } world w { include v; include u; }".into(),
        "world v { import f: func(); } world u { import f: func(); } world w { include v; include u with { f as g }; }".into(),
        "world v { import f: func(); } world w { include v; include v; }".into(),
        "world v { type t = u8; import f: func(x: t); } world w { include v with { t as u }; }".into(),
        "world w { include w; }".into(),
        // outside the declaration half
        "import f: func();".into(),
        "interface a {} export a;".into(),
    ].into_iter().map(|b: String| format!("{hdr}{b}\n")).collect();
    v.push("package x:y@1.0.0;\ninterface a { type t = u8; }\nworld w { import a; export a; }\n".into());
    v.push("package x:y@0.1.0-rc.1+b7;\ninterface a { type t = u8; }\nworld w { import a; }\n".into());
    v.push("package x:y targets x:z/w;\ninterface a {}\n".into());
    // random single-point mutations of generated packages
    for _ in 0..n_random {
        let mut g = Gen { r, n: 0, feats: BTreeSet::new() };
        let (p, _, _) = g.pkg(3, 2, Vec::new(), false);
        let src = render(&p, Lang::Wac);
        let lines: Vec<&str> = src.lines().collect();
        let idx: Vec<usize> = (0..lines.len()).filter(|i| lines[*i].starts_with("  ") && lines[*i].trim_end().ends_with(';') || lines[*i].trim_start().starts_with("record") || lines[*i].trim_start().starts_with("enum")).collect();
        if idx.is_empty() { continue; }
        let i = idx[r.below(idx.len() as u64) as usize];
        let mut out: Vec<String> = lines.iter().map(|s| s.to_string()).collect();
        match r.below(4) {
            0 => { let l = out[i].clone(); out.insert(i, l); }                                   // duplicate a line
            1 => { out.remove(i); }                                                              // delete a line (dangling references)
            2 => { out[i] = out[i].replace("-> ", "-> borrow<").replacen(";", ">;", if out[i].contains("-> ") { 1 } else { 0 }); }
            _ => { if i + 1 < out.len() { out.swap(i, i + 1); } }                                // use before declaration
        }
        v.push(out.join("\n") + "\n");
    }
    v
}

// ------------------------------------------------------------------------------------------------ main
fn enc(s: &str) -> String { if s.is_empty() { "-".into() } else { s.chars().map(|c| (c as u32).to_string()).collect::<Vec<_>>().join(",") } }
fn dec(s: &str) -> String { if s == "-" || s.is_empty() { String::new() } else { s.split(',').map(|x| char::from_u32(x.parse().unwrap()).unwrap()).collect() } }

fn main() {
    let a: Vec<String> = std::env::args().collect();
    std::panic::set_hook(Box::new(|info| {
        let loc = info.location().map(|l| format!("{}:{}", l.file().rsplit('/').next().unwrap_or(""), l.line())).unwrap_or_default();
        let msg = info.payload().downcast_ref::<&str>().map(|s| s.to_string()).or_else(|| info.payload().downcast_ref::<String>().cloned()).unwrap_or_default();
        *LAST_PANIC.lock().unwrap() = format!("{loc} {msg}").replace(['\n', '\t'], " ");
    }));
    if a.len() >= 3 && a[1] == "show" {
        let wac = std::fs::read_to_string(&a[2]).unwrap();
        let wit = if a.len() > 3 { std::fs::read_to_string(&a[3]).unwrap() } else { wac.clone() };
        let meta = if a.len() > 4 { a[4].clone() } else { String::new() };
        let dep = if a.len() > 5 { std::fs::read_to_string(&a[5]).unwrap() } else { String::new() };
        let (obs, enc, feats) = observe_wac(&wac, &dep);
        println!("features: {feats}");
        println!("observation: {obs}");
        if let Some(Ok(b)) = &enc { println!("--- wac encoding\n{}", wasmprinter::print_bytes(b).unwrap_or_default()); } else {
            println!("wac encode: {enc:?}");
            // print the invalid encoding for diagnosis
            let r = catch_unwind(AssertUnwindSafe(|| {
                let doc = wac_parser::Document::parse(&wac).ok()?; let res = doc.resolve(Default::default()).ok()?;
                let mut o = wac_graph::EncodeOptions::default(); o.validate = false; res.encode(o).ok()
            }));
            if let Ok(Some(b)) = r { println!("--- wac encoding (not validated)\n{}", wasmprinter::print_bytes(&b).unwrap_or_else(|e| format!("unprintable: {e}"))); }
        }
        match wit_encode(&wit, &dep) { Ok(b) => println!("--- reference encoding\n{}", wasmprinter::print_bytes(&b).unwrap_or_default()), Err(e) => println!("reference: {e}") }
        println!("{}", evaluate("pkg", &wac, &wit, &meta, &dep));
        return;
    }
    if a.len() < 5 { eprintln!("usage: c05 <quick|thorough> <seed> <cases_out> <impl_out> [replay_cases_in]"); std::process::exit(2); }
    let (tier, seed) = (a[1].as_str(), a[2].parse::<u64>().unwrap_or(1));
    let mut cases: Vec<String> = Vec::new();
    if a.len() > 5 {
        for l in std::fs::read_to_string(&a[5]).unwrap().lines() { if !l.trim().is_empty() { cases.push(l.to_string()); } }
    } else {
        let mut r = Rng::new(seed ^ 0xC05);
        let (n_pkg, n_neg) = if tier == "thorough" { (2000, 400) } else { (150, 40) };
        for i in 0..n_pkg {
            // packages that have the shape of a known finding are kept at a fifth of their natural frequency, so that most of the
            // budget explores elsewhere (the witnesses of the known findings are in the corpus and are replayed on every run)
            for attempt in 0..12 {
                let mut g = Gen { r: &mut r, n: 0, feats: BTreeSet::new() };
                // every fourth package depends on a second, versioned package (`use dep:lib/i@0.2.0.{..}`, `import dep:lib/i@0.2.0;`)
                let with_dep = i % 4 == 3;
                let (dep_src, foreign) = if with_dep {
                    let (d, _, infos) = g.pkg(2, 0, Vec::new(), true);
                    (render(&d, Lang::Wit), infos)
                } else { (String::new(), Vec::new()) };
                let (p, meta, _) = g.pkg(if with_dep { 4 } else { 6 }, 3, foreign, false);
                let wac = render(&p, Lang::Wac);
                let (_, _, feats) = observe_wac(&wac, &dep_src);
                if !feats.is_empty() && attempt < 11 && !r.chance(1, 5) { continue; }
                cases.push(format!("pkg\tg{i}\t{}\t{}\t{}\t{}", enc(&wac), enc(&render(&p, Lang::Wit)), meta, enc(&dep_src)));
                break;
            }
        }
        for (i, s) in negatives(&mut r, n_neg).into_iter().enumerate() { cases.push(format!("neg\tn{i}\t{}\t-\t-\t-", enc(&s))); }
    }
    let mut fc = std::io::BufWriter::new(std::fs::File::create(&a[3]).unwrap());
    let mut fi = std::io::BufWriter::new(std::fs::File::create(&a[4]).unwrap());
    for c in &cases {
        let f: Vec<&str> = c.split('\t').collect();
        let out = if f.len() < 5 { "BAD-LINE\t-\t-\t-".to_string() } else { evaluate(f[0], &dec(f[2]), &dec(f[3]), f[4], &if f.len() > 5 { dec(f[5]) } else { String::new() }) };
        writeln!(fc, "{c}").unwrap();
        writeln!(fi, "{out}").unwrap();
    }
    let _ = BTreeMap::<u8, u8>::new();
}
