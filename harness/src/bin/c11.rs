//! C11 correspondence: generated (world, composition) pairs; three verdicts from the real code plus the
//! abstract descriptions the Coq models consume.
//! usage: c11 <quick|thorough> <seed> <cases_out> <impl_out> [replay_recipes.jsonl]
//!
//! Two families of cases:
//!  * `pair`: a WIT world (text -> wit-parser -> wit_component::encode) and a WAC document
//!    `package c:d targets t:w/w; ...` over components built from WIT worlds (dummy module +
//!    ComponentEncoder).  Observations: (i) Document::parse + resolve with the targets clause,
//!    (ii) wac_types::validate_target on (WIT package, encoding of the same document without the clause),
//!    (iii) wit_component::targets (wasmparser component subtyping output <: world type), plus the
//!    import/export names of the encoded output read back with wasmparser's section parser.
//!  * `api`: worlds built directly in a `wac_types::Types` (used interfaces that are NOT explicit
//!    imports, several versions on one track, shadowing) checked with wac_types::validate_target only.
use indexmap::IndexMap;
use serde::{Deserialize, Serialize};
use std::collections::{BTreeMap, BTreeSet, HashMap};
use std::fmt::Write as _;
use std::io::Write;
use std::panic::{catch_unwind, AssertUnwindSafe};
use wac_graph::EncodeOptions;
use wac_parser::{resolution::Error as RError, Document};
use wac_types::{
    validate_target, BorrowedPackageKey, ExternKind, FuncType, Interface, ItemKind, Package, PrimitiveType,
    SubtypeChecker, Type, Types, UsedType, ValueType, World, WorldId,
};
use wacv::{enc, Rng};

// ---------------------------------------------------------------------------------------------
// recipes

#[derive(Clone, Debug, Serialize, Deserialize, PartialEq)]
enum Item {
    /// `pkg/name[@ver]` with a body variant
    Iface { pkg: String, name: String, ver: Option<String>, shape: u8 },
    /// plain function
    Func { name: String, sig: u8 },
    /// world-level `use pkg/types[@ver].{rec};`
    UseRec { pkg: String, ver: Option<String> },
    /// `name: <interface>`: in WIT an inline interface; in a WAC document that declares its own world, a
    /// reference to a locally declared interface `kind` (one declaration, hence one type id, per (kind, shape))
    Inline { name: String, kind: String, shape: u8 },
}

#[derive(Clone, Debug, Serialize, Deserialize, Default)]
struct Side {
    imports: Vec<Item>,
    exports: Vec<Item>,
    /// body variant of the `types` interface of every package of this side
    types_shape: u8,
}

#[derive(Clone, Debug, Serialize, Deserialize)]
struct CompSpec {
    /// package name in the document, e.g. `p:a`
    pkg: String,
    side: Side,
    /// names of function imports satisfied by an explicit `import <name>: func(..)` of the document
    explicit_funcs: Vec<(String, u8)>,
    /// interface imports satisfied by an explicit `import l<i>: pkg/name@ver;`
    explicit_ifaces: Vec<Item>,
    spread_exports: bool,
}

#[derive(Clone, Debug, Serialize, Deserialize)]
struct PairRecipe {
    world: Side,
    comps: Vec<CompSpec>,
    /// unused explicit imports of the document: (name, sig)
    extra_imports: Vec<(String, u8)>,
    perturbation: String,
    /// the target world is declared in the document itself (`package c:d targets c:d/w;`): its `use`d
    /// interfaces are then NOT among its explicit imports
    #[serde(default)]
    local_world: bool,
    /// explicit imports of the document typed by an interface: (name, kind, shape)
    #[serde(default)]
    doc_imports: Vec<(String, String, u8)>,
    /// `export <local> as <name>;` statements (pass-through of explicit imports)
    #[serde(default)]
    doc_exports: Vec<(String, String)>,
}

#[derive(Clone, Debug, Serialize, Deserialize)]
enum KSpec {
    Func(u8),
    Inst(usize),
    TypeFunc(u8),
    TypeIface(usize),
}

#[derive(Clone, Debug, Serialize, Deserialize)]
struct ApiIface {
    id: Option<String>,
    exports: Vec<(String, u8)>,
    uses: Vec<(String, usize)>,
}

#[derive(Clone, Debug, Serialize, Deserialize)]
struct ApiRecipe {
    ifaces: Vec<ApiIface>,
    w_uses: Vec<(String, usize)>,
    w_imports: Vec<(String, KSpec)>,
    w_exports: Vec<(String, KSpec)>,
    c_imports: Vec<(String, KSpec)>,
    c_exports: Vec<(String, KSpec)>,
}

#[derive(Clone, Debug, Serialize, Deserialize)]
enum Recipe {
    Pair(PairRecipe),
    Api(ApiRecipe),
}

// ---------------------------------------------------------------------------------------------
// WIT text

fn sig_text(sig: u8) -> &'static str {
    match sig {
        0 => "func()",
        1 => "func(a: u32) -> u32",
        2 => "func(a: u32) -> u64",
        3 => "func(s: string)",
        4 => "func(a: u32, b: u32) -> u32",
        _ => "func() -> string",
    }
}

fn iface_body(name: &str, shape: u8) -> String {
    match (name, shape) {
        ("types", 0) => "record rec { a: u32, b: string }\n enum color { red, green }".into(),
        ("types", _) => "record rec { a: u64, b: string }\n enum color { red, green }".into(),
        ("z", 0) => "f: func(a: u32) -> u32;".into(),
        ("z", 1) => "f: func(a: u32) -> u32;\n g: func(s: string);".into(),
        ("z", 2) => "f: func(a: u64) -> u32;".into(),
        ("z", _) => "use types.{rec};\n f: func(a: u32) -> u32;\n h: func(r: rec) -> rec;".into(),
        ("q", 0) => "p: func();".into(),
        ("q", 1) => "p: func();\n r: func() -> string;".into(),
        ("q", 2) => "p: func(x: bool);".into(),
        ("q", _) => "use types.{color};\n p: func();\n c: func() -> color;".into(),
        ("out", 0) => "run: func() -> u32;".into(),
        ("out", 1) => "run: func() -> u32;\n stop: func();".into(),
        ("out", 2) => "run: func() -> u64;".into(),
        ("out", _) => "use types.{rec};\n run: func() -> u32;\n mk: func() -> rec;".into(),
        (_, 0) => "ping: func();".into(),
        (_, 1) => "ping: func();\n pong: func() -> u8;".into(),
        (_, 2) => "ping: func(a: u8);".into(),
        (_, _) => "use types.{rec};\n ping: func();\n h: func(r: rec) -> rec;".into(),
    }
}

fn iface_ref(pkg: &str, name: &str, ver: &Option<String>) -> String {
    match ver {
        Some(v) => format!("{pkg}/{name}@{v}"),
        None => format!("{pkg}/{name}"),
    }
}

fn decl_name(kind: &str, shape: u8) -> String {
    if shape == 0 { kind.to_string() } else { format!("{kind}-v{shape}") }
}

/// The pieces of one side: WIT sources of the dependency packages, the interfaces of the main package,
/// the body of the world, and (for the WAC rendition) the declarations `name: body` the body refers to.
fn side_parts(main_pkg: &str, side: &Side, wac: bool) -> (Vec<(String, String)>, String, String, Vec<(String, String)>) {
    // (pkg, ver) -> iface -> shape
    let mut deps: BTreeMap<(String, Option<String>), BTreeMap<String, u8>> = BTreeMap::new();
    let mut body = String::new();
    let mut decls: Vec<(String, String)> = Vec::new();
    let add = |pkg: &str, ver: &Option<String>, name: &str, shape: u8, deps: &mut BTreeMap<_, BTreeMap<String, u8>>| {
        let e = deps.entry((pkg.to_string(), ver.clone())).or_default();
        e.entry(name.to_string()).or_insert(shape);
        if name != "types" && shape >= 3 {
            e.entry("types".to_string()).or_insert(side.types_shape);
        }
    };
    let local = |pkg: &str, ver: &Option<String>| pkg == main_pkg && ver.is_none();
    for (dir, items) in [("import", &side.imports), ("export", &side.exports)] {
        for it in items {
            match it {
                Item::Iface { pkg, name, ver, shape } => {
                    add(pkg, ver, name, *shape, &mut deps);
                    if local(pkg, ver) {
                        writeln!(body, "  {dir} {name};").unwrap();
                    } else {
                        writeln!(body, "  {dir} {};", iface_ref(pkg, name, ver)).unwrap();
                    }
                }
                Item::Func { name, sig } => writeln!(body, "  {dir} {name}: {};", sig_text(*sig)).unwrap(),
                Item::UseRec { pkg, ver } => {
                    add(pkg, ver, "types", side.types_shape, &mut deps);
                    if local(pkg, ver) {
                        writeln!(body, "  use types.{{rec}};").unwrap();
                    } else {
                        writeln!(body, "  use {}.{{rec}};", iface_ref(pkg, "types", ver)).unwrap();
                    }
                }
                Item::Inline { name, kind, shape } => {
                    let b = iface_body(kind, (*shape).min(2));
                    if wac {
                        let d = decl_name(kind, *shape);
                        if !decls.iter().any(|(n, _)| *n == d) {
                            decls.push((d.clone(), b));
                        }
                        writeln!(body, "  {dir} {name}: {d};").unwrap();
                    } else {
                        writeln!(body, "  {dir} {name}: interface {{\n {b}\n }}").unwrap();
                    }
                }
            }
        }
    }
    let mut out = Vec::new();
    let mut locals = String::new();
    for ((pkg, ver), ifaces) in &deps {
        // `types` first so that `use types.{..}` resolves
        let mut names: Vec<&String> = ifaces.keys().collect();
        names.sort_by_key(|n| (n.as_str() != "types", n.to_string()));
        let mut t = String::new();
        for n in names {
            writeln!(t, "interface {n} {{\n {}\n}}", iface_body(n, ifaces[n])).unwrap();
        }
        if local(pkg, ver) {
            locals = t;
            continue;
        }
        let head = match ver {
            Some(v) => format!("package {pkg}@{v};\n"),
            None => format!("package {pkg};\n"),
        };
        out.push((format!("{pkg}@{}", ver.clone().unwrap_or_default()), head + &t));
    }
    (out, locals, body, decls)
}

/// The WIT sources of one side: dependency packages first, the main package last.
fn side_wit(main_pkg: &str, world: &str, side: &Side) -> Vec<(String, String)> {
    let (mut out, locals, body, _) = side_parts(main_pkg, side, false);
    out.push((main_pkg.to_string(), format!("package {main_pkg};\n{locals}world {world} {{\n{body}}}\n")));
    out
}

struct Built {
    resolve: wit_parser::Resolve,
    main: wit_parser::PackageId,
    world: wit_parser::WorldId,
    deps: Vec<(String, Option<semver::Version>, wit_parser::PackageId)>,
}

fn build_resolve(srcs: &[(String, String)], world: &str) -> anyhow::Result<Built> {
    let mut resolve = wit_parser::Resolve::new();
    let mut last = None;
    let mut deps = Vec::new();
    for (i, (name, text)) in srcs.iter().enumerate() {
        let id = resolve.push_str(format!("{name}.wit"), text)?;
        if i + 1 < srcs.len() {
            let pn = &resolve.packages[id].name;
            deps.push((format!("{}:{}", pn.namespace, pn.name), pn.version.clone(), id));
        }
        last = Some(id);
    }
    let main = last.unwrap();
    let world = resolve.select_world(&[main], Some(world))?;
    Ok(Built { resolve, main, world, deps })
}

fn build_component(b: &Built) -> anyhow::Result<Vec<u8>> {
    let mut module = wit_component::dummy_module(&b.resolve, b.world, wit_parser::ManglingAndAbi::Standard32);
    wit_component::embed_component_metadata(&mut module, &b.resolve, b.world, wit_component::StringEncoding::UTF8)?;
    wit_component::ComponentEncoder::default().module(&module)?.validate(true).encode()
}

// ---------------------------------------------------------------------------------------------
// abstract description

#[derive(Default)]
struct Kinds {
    ids: HashMap<ItemKind, usize>,
    list: Vec<ItemKind>,
}
impl Kinds {
    fn id(&mut self, k: ItemKind) -> usize {
        if let Some(i) = self.ids.get(&k) {
            return *i;
        }
        let i = self.list.len();
        self.ids.insert(k, i);
        self.list.push(k);
        i
    }
}

struct Desc {
    implicit: Vec<(String, ItemKind)>,
    wimports: Vec<(String, ItemKind)>,
    wexports: Vec<(String, ItemKind)>,
    cimports: Vec<(String, ItemKind, bool)>,
    cexports: Vec<(String, ItemKind)>,
}

fn sub(types: &Types, a: ItemKind, b: ItemKind) -> bool {
    let mut cache = Default::default();
    let mut checker = SubtypeChecker::new(&mut cache);
    checker.is_subtype(a, types, b, types).is_ok()
}

/// seven tab separated fields: implicit, world imports, world exports, composition imports (name:kind:explicit),
/// composition exports, promote table (a>b), pairs for which `is_subtype` succeeds (a:b)
fn dump_desc(types: &Types, d: &Desc) -> String {
    let mut k = Kinds::default();
    let nk = |l: &[(String, ItemKind)], k: &mut Kinds| -> String {
        l.iter().map(|(n, x)| format!("{}:{}", enc(n), k.id(*x))).collect::<Vec<_>>().join(";")
    };
    let f1 = nk(&d.implicit, &mut k);
    let f2 = nk(&d.wimports, &mut k);
    let f3 = nk(&d.wexports, &mut k);
    let f4 = d.cimports.iter().map(|(n, x, e)| format!("{}:{}:{}", enc(n), k.id(*x), *e as u8)).collect::<Vec<_>>().join(";");
    let f5 = nk(&d.cexports, &mut k);
    // promoted kinds of world items
    let mut prom = Vec::new();
    let world_kinds: Vec<ItemKind> =
        d.implicit.iter().chain(&d.wimports).chain(&d.wexports).map(|(_, x)| *x).collect();
    for x in &world_kinds {
        let p = x.promote();
        if p != *x {
            let (a, b) = (k.id(*x), k.id(p));
            if !prom.contains(&format!("{a}>{b}")) {
                prom.push(format!("{a}>{b}"));
            }
        }
    }
    // the oracle: every ordered pair of kinds that occur
    let n = k.list.len();
    let mut yes = Vec::new();
    for a in 0..n {
        for b in 0..n {
            if sub(types, k.list[a], k.list[b]) {
                yes.push(format!("{a}:{b}"));
            }
        }
    }
    format!("{f1}\t{f2}\t{f3}\t{f4}\t{f5}\t{}\t{}", prom.join(";"), yes.join(";"))
}

fn world_desc(types: &Types, w: WorldId) -> (Vec<(String, ItemKind)>, Vec<(String, ItemKind)>, Vec<(String, ItemKind)>) {
    let world = &types[w];
    let implicit = world.implicit_imported_interfaces(types).into_iter().map(|(n, k)| (n.to_string(), k)).collect();
    let imports = world.imports.iter().map(|(n, k)| (n.clone(), *k)).collect();
    let exports = world.exports.iter().map(|(n, k)| (n.clone(), *k)).collect();
    (implicit, imports, exports)
}

fn show_report(r: &wac_types::TargetValidationResult) -> String {
    match r {
        Ok(()) => "OK".into(),
        Err(rep) => {
            let nit: BTreeSet<String> = rep.imports_not_in_target().map(enc).collect();
            let miss: BTreeSet<String> = rep.missing_exports().map(|(n, _)| enc(n)).collect();
            let mm: BTreeSet<String> = rep
                .mismatched_types()
                .map(|(n, k, _)| format!("{}/{}", enc(n), if *k == ExternKind::Import { "I" } else { "E" }))
                .collect();
            let j = |s: BTreeSet<String>| s.into_iter().collect::<Vec<_>>().join(";");
            format!("ERR nit={}|miss={}|mm={}", j(nit), j(miss), j(mm))
        }
    }
}

// ---------------------------------------------------------------------------------------------
// pair family

fn doc_text(r: &PairRecipe, with_targets: bool) -> String {
    let mut s = String::new();
    if r.local_world {
        s.push_str(if with_targets { "package c:d targets c:d/w;\n" } else { "package c:d;\n" });
        let (_, locals, body, mut decls) = side_parts("c:d", &r.world, true);
        for (_, k, sh) in &r.doc_imports {
            let d = decl_name(k, *sh);
            if !decls.iter().any(|(n, _)| *n == d) {
                decls.push((d, iface_body(k, (*sh).min(2))));
            }
        }
        s.push_str(&locals);
        for (n, b) in &decls {
            write!(s, "interface {n} {{\n {b}\n}}\n").unwrap();
        }
        write!(s, "world w {{\n{body}}}\n").unwrap();
        for (n, k, sh) in &r.doc_imports {
            writeln!(s, "import {n}: {};", decl_name(k, *sh)).unwrap();
        }
    } else {
        s.push_str(if with_targets { "package c:d targets t:w/w;\n" } else { "package c:d;\n" });
        for (n, k, sh) in &r.doc_imports {
            writeln!(s, "import {n}: interface {{\n {}\n}};", iface_body(k, (*sh).min(2))).unwrap();
        }
    }
    for (n, sig) in &r.extra_imports {
        writeln!(s, "import {n}: {};", sig_text(*sig)).unwrap();
    }
    let mut li = 0;
    let mut lets = String::new();
    let mut exports = String::new();
    for (ci, c) in r.comps.iter().enumerate() {
        let mut args = Vec::new();
        for (n, sig) in &c.explicit_funcs {
            writeln!(s, "import {n}: {};", sig_text(*sig)).unwrap();
            args.push(n.clone());
        }
        for it in &c.explicit_ifaces {
            if let Item::Iface { pkg, name, ver, .. } = it {
                writeln!(s, "import l{li}: {};", iface_ref(pkg, name, ver)).unwrap();
                args.push(format!("l{li}"));
                li += 1;
            }
        }
        args.push("...".into());
        writeln!(lets, "let i{ci} = new {} {{ {} }};", c.pkg, args.join(", ")).unwrap();
        if c.spread_exports && !c.side.exports.is_empty() {
            writeln!(exports, "export i{ci}...;").unwrap();
        }
    }
    for (l, n) in &r.doc_exports {
        writeln!(exports, "export {l} as {n};").unwrap();
    }
    s + &lets + &exports
}

fn world_names(b: &Built) -> (Vec<String>, Vec<String>) {
    let w = &b.resolve.worlds[b.world];
    let mut imps = Vec::new();
    for (k, it) in &w.imports {
        match it {
            wit_parser::WorldItem::Type { .. } => imps.push(b.resolve.name_world_key(k)),
            _ => imps.push(b.resolve.name_world_key(k)),
        }
    }
    let exps = w.exports.keys().map(|k| b.resolve.name_world_key(k)).collect();
    (imps, exps)
}

fn binary_names(bytes: &[u8]) -> (Vec<String>, Vec<String>) {
    let mut imps = Vec::new();
    let mut exps = Vec::new();
    let mut depth = 0i32;
    for p in wasmparser::Parser::new(0).parse_all(bytes) {
        match p {
            Ok(wasmparser::Payload::ComponentSection { .. }) | Ok(wasmparser::Payload::ModuleSection { .. }) => depth += 1,
            Ok(wasmparser::Payload::End(_)) => depth -= 1,
            Ok(wasmparser::Payload::ComponentImportSection(s)) if depth == 0 => {
                for i in s.into_iter().flatten() {
                    imps.push(i.name.0.to_string());
                }
            }
            Ok(wasmparser::Payload::ComponentExportSection(s)) if depth == 0 => {
                for e in s.into_iter().flatten() {
                    exps.push(e.name.0.to_string());
                }
            }
            _ => {}
        }
    }
    (imps, exps)
}

fn verdict_i(e: &RError) -> String {
    match e {
        RError::ImportNotInTarget { name, .. } => format!("INT:{}", enc(name)),
        RError::MissingTargetExport { name, .. } => format!("MTE:{}", enc(name)),
        RError::TargetMismatch { kind, name, .. } => {
            format!("{}:{}", if *kind == ExternKind::Import { "TMI" } else { "TME" }, enc(name))
        }
        other => {
            let d = format!("{other:?}");
            format!("OTHER:{}", d.split(|c: char| !c.is_alphanumeric()).next().unwrap_or("?"))
        }
    }
}

const NA7: &str = "NA\t\t\t\t\t\t";

fn pair_sources(r: &PairRecipe) -> serde_json::Value {
    serde_json::json!({
        "document": doc_text(r, true),
        "world_wit": side_wit(if r.local_world { "c:d" } else { "t:w" }, "w", &r.world),
        "components_wit": r.comps.iter().map(|c| side_wit(&c.pkg, "c", &c.side)).collect::<Vec<_>>(),
    })
}

/// returns (case line, impl line)
fn run_pair(r: &PairRecipe) -> (String, String) {
    let fail = |why: String| (format!("skip\t{NA7}\t{NA7}"), format!("SKIP\t{}", why.replace(['\t', '\n'], " ")));
    // 1. the world
    let wsrc = side_wit(if r.local_world { "c:d" } else { "t:w" }, "w", &r.world);
    let wb = match build_resolve(&wsrc, "w") {
        Ok(b) => b,
        Err(e) => return fail(format!("world wit: {e:#}")),
    };
    let wit_bytes = match wit_component::encode(&wb.resolve, wb.main) {
        Ok(b) => b,
        Err(e) => return fail(format!("world encode: {e:#}")),
    };
    // 2. the components and the dependency packages the document may name
    let mut owned: Vec<(String, Option<semver::Version>, Vec<u8>)> = Vec::new();
    if r.local_world {
        // the document names the world's foreign packages itself
        for (n, v, id) in &wb.deps {
            match wit_component::encode(&wb.resolve, *id) {
                Ok(b) => owned.push((n.clone(), v.clone(), b)),
                Err(e) => return fail(format!("dep encode {n}: {e:#}")),
            }
        }
    } else {
        owned.push(("t:w".into(), None, wit_bytes.clone()));
    }
    for c in &r.comps {
        let csrc = side_wit(&c.pkg, "c", &c.side);
        let cb = match build_resolve(&csrc, "c") {
            Ok(b) => b,
            Err(e) => return fail(format!("component wit {}: {e:#}", c.pkg)),
        };
        let bytes = match build_component(&cb) {
            Ok(b) => b,
            Err(e) => return fail(format!("component encode {}: {e:#}", c.pkg)),
        };
        owned.push((c.pkg.clone(), None, bytes));
        if !c.explicit_ifaces.is_empty() {
            for (n, v, id) in &cb.deps {
                if owned.iter().any(|(n2, v2, _)| n2 == n && v2 == v) {
                    continue;
                }
                match wit_component::encode(&cb.resolve, *id) {
                    Ok(b) => owned.push((n.clone(), v.clone(), b)),
                    Err(e) => return fail(format!("dep encode {n}: {e:#}")),
                }
            }
        }
    }
    let packages = || -> IndexMap<BorrowedPackageKey, Vec<u8>> {
        owned.iter().map(|(n, v, b)| (BorrowedPackageKey::from_name_and_version(n, v.as_ref()), b.clone())).collect()
    };
    let src_t = doc_text(r, true);
    let src_n = doc_text(r, false);
    // 3. the same document without the clause must resolve: it is the composition being judged
    let doc_n = match Document::parse(&src_n) {
        Ok(d) => d,
        Err(e) => return fail(format!("parse: {e:?}")),
    };
    let res_n = match doc_n.resolve(packages()) {
        Ok(r) => r,
        Err(e) => return fail(format!("resolve without targets: {e:?}")),
    };
    // (i)
    let doc_t = Document::parse(&src_t).expect("same grammar");
    let mut bin_obs = "-".to_string();
    let v1 = match catch_unwind(AssertUnwindSafe(|| doc_t.resolve(packages()))) {
        Err(_) => "PANIC".to_string(),
        Ok(Ok(res)) => {
            match res.encode(EncodeOptions::default()) {
                Ok(bytes) => {
                    let (i, e) = binary_names(&bytes);
                    bin_obs = format!(
                        "{}|{}",
                        i.iter().map(|s| enc(s)).collect::<Vec<_>>().join(";"),
                        e.iter().map(|s| enc(s)).collect::<Vec<_>>().join(";")
                    );
                }
                Err(e) => bin_obs = format!("NOENC:{}", verdict_i(&e)),
            }
            "OK".to_string()
        }
        Ok(Err(e)) => verdict_i(&e),
    };
    // description 1: the graph of the composition + the world decoded into the same type collection
    let mut g = res_n.graph().clone();
    let d1 = {
        let w = if r.local_world {
            match g.get_export("w").map(|n| g[n].item_kind()) {
                Some(ItemKind::Type(Type::World(w))) => w,
                _ => return fail("no local world definition".into()),
            }
        } else {
            let pkg = match Package::from_bytes("t:w", None, wit_bytes.clone(), g.types_mut()) {
                Ok(p) => p,
                Err(e) => return fail(format!("world decode: {e:#}")),
            };
            let Some(ItemKind::Type(Type::World(w))) = pkg.definitions().get("w").copied() else {
                return fail("no world definition".into());
            };
            w
        };
        let (implicit, wimports, wexports) = world_desc(g.types(), w);
        let cimports: Vec<(String, ItemKind, bool)> =
            g.imports().map(|(n, k, node)| (n.to_string(), k, node.is_some())).collect();
        // export names: world exports, names the nodes carry, exports of the registered components
        let mut cand: Vec<String> = wexports.iter().map(|(n, _)| n.clone()).collect();
        cand.extend(r.doc_exports.iter().map(|(_, n)| n.clone()));
        for n in g.nodes() {
            if let Some(e) = n.export_name() {
                cand.push(e.to_string());
            }
        }
        for p in g.packages() {
            for n in g.types()[p.ty()].exports.keys() {
                cand.push(n.clone());
            }
        }
        let mut cexports = Vec::new();
        let mut seen = BTreeSet::new();
        for n in cand {
            if !seen.insert(n.clone()) {
                continue;
            }
            if let Some(node) = g.get_export(&n) {
                cexports.push((n, g[node].item_kind()));
            }
        }
        dump_desc(g.types(), &Desc { implicit, wimports, wexports, cimports, cexports })
    };
    // (ii) and description 2
    let (v2, d2, v3) = match res_n.encode(EncodeOptions::default()) {
        Err(e) => (format!("NOENC:{}", verdict_i(&e)), NA7.to_string(), "NA".to_string()),
        Ok(out) => {
            let mut types = Types::default();
            let wit = Package::from_bytes("wit", None, wit_bytes.clone(), &mut types).expect("decoded before");
            match Package::from_bytes("component", None, out.clone(), &mut types) {
                Err(e) => (format!("NODEC:{e:#}").replace(['\t', '\n'], " "), NA7.to_string(), "NA".to_string()),
                Ok(comp) => {
                    // as src/commands/targets.rs get_wit_world
                    let top = &types[wit.ty()];
                    let ww = match top.exports.get("w") {
                        Some(ItemKind::Type(Type::World(id))) => match types[*id].exports.values().next() {
                            Some(ItemKind::Component(w)) => Some(*w),
                            _ => None,
                        },
                        _ => None,
                    };
                    let Some(ww) = ww else { return fail("wit package not encoded as expected".into()) };
                    let v2 = match catch_unwind(AssertUnwindSafe(|| validate_target(&types, ww, comp.ty()))) {
                        Ok(r) => show_report(&r),
                        Err(_) => "PANIC".into(),
                    };
                    let (implicit, wimports, wexports) = world_desc(&types, ww);
                    let cw = &types[comp.ty()];
                    let cimports = cw.imports.iter().map(|(n, k)| (n.clone(), *k, false)).collect();
                    let cexports = cw.exports.iter().map(|(n, k)| (n.clone(), *k)).collect();
                    let d2 = dump_desc(&types, &Desc { implicit, wimports, wexports, cimports, cexports });
                    // (iii) reference: component subtyping by the validator
                    let v3 = match catch_unwind(AssertUnwindSafe(|| wit_component::targets(&wb.resolve, wb.world, &out))) {
                        Ok(Ok(())) => "1".to_string(),
                        Ok(Err(_)) => "0".to_string(),
                        Err(_) => "PANIC".to_string(),
                    };
                    (v2, d2, v3)
                }
            }
        }
    };
    let (wi, we) = world_names(&wb);
    let names = format!(
        "{}|{}",
        wi.iter().map(|s| enc(s)).collect::<Vec<_>>().join(";"),
        we.iter().map(|s| enc(s)).collect::<Vec<_>>().join(";")
    );
    (format!("pair\t{d1}\t{d2}"), format!("{v1}\t{v2}\t{v3}\t{bin_obs}\t{names}"))
}

// ---------------------------------------------------------------------------------------------
// api family

fn run_api(r: &ApiRecipe) -> (String, String) {
    let mut types = Types::default();
    let mut funcs = Vec::new();
    for sig in 0..6u8 {
        let mut params = IndexMap::new();
        let mut result = None;
        let p = |t| ValueType::Primitive(t);
        match sig {
            0 => {}
            1 => { params.insert("a".to_string(), p(PrimitiveType::U32)); result = Some(p(PrimitiveType::U32)); }
            2 => { params.insert("a".to_string(), p(PrimitiveType::U32)); result = Some(p(PrimitiveType::U64)); }
            3 => { params.insert("s".to_string(), p(PrimitiveType::String)); }
            4 => {
                params.insert("a".to_string(), p(PrimitiveType::U32));
                params.insert("b".to_string(), p(PrimitiveType::U32));
                result = Some(p(PrimitiveType::U32));
            }
            _ => result = Some(p(PrimitiveType::String)),
        }
        funcs.push(types.add_func_type(FuncType { params, result, is_async: false }));
    }
    let mut ifaces = Vec::new();
    for i in &r.ifaces {
        let id = types.add_interface(Interface {
            id: i.id.clone(),
            uses: Default::default(),
            exports: i.exports.iter().map(|(n, s)| (n.clone(), ItemKind::Func(funcs[*s as usize]))).collect(),
        });
        ifaces.push(id);
    }
    for (k, i) in r.ifaces.iter().enumerate() {
        for (n, u) in &i.uses {
            let used = UsedType { interface: ifaces[*u], name: None };
            types[ifaces[k]].uses.insert(n.clone(), used);
        }
    }
    let kind = |k: &KSpec| -> ItemKind {
        match k {
            KSpec::Func(s) => ItemKind::Func(funcs[*s as usize]),
            KSpec::Inst(i) => ItemKind::Instance(ifaces[*i]),
            KSpec::TypeFunc(s) => ItemKind::Type(Type::Func(funcs[*s as usize])),
            KSpec::TypeIface(i) => ItemKind::Type(Type::Interface(ifaces[*i])),
        }
    };
    let map = |l: &[(String, KSpec)]| -> IndexMap<String, ItemKind> { l.iter().map(|(n, k)| (n.clone(), kind(k))).collect() };
    let w = types.add_world(World {
        id: Some("t:w/w".into()),
        uses: r.w_uses.iter().map(|(n, u)| (n.clone(), UsedType { interface: ifaces[*u], name: None })).collect(),
        imports: map(&r.w_imports),
        exports: map(&r.w_exports),
    });
    let c = types.add_world(World { id: None, uses: Default::default(), imports: map(&r.c_imports), exports: map(&r.c_exports) });
    let v2 = match catch_unwind(AssertUnwindSafe(|| validate_target(&types, w, c))) {
        Ok(r) => show_report(&r),
        Err(_) => "PANIC".into(),
    };
    let (implicit, wimports, wexports) = world_desc(&types, w);
    let cw = &types[c];
    let cimports = cw.imports.iter().map(|(n, k)| (n.clone(), *k, false)).collect();
    let cexports = cw.exports.iter().map(|(n, k)| (n.clone(), *k)).collect();
    let d = dump_desc(&types, &Desc { implicit, wimports, wexports, cimports, cexports });
    (format!("api\t{d}"), v2)
}

// ---------------------------------------------------------------------------------------------
// generators

const VERSIONS: &[&str] = &["0.2.0", "0.2.1", "0.2.2", "0.3.0", "1.0.0", "1.2.0"];

fn same_track_other(r: &mut Rng, v: &str) -> Option<String> {
    let c: Vec<&str> = match v {
        "0.2.0" | "0.2.1" | "0.2.2" => vec!["0.2.0", "0.2.1", "0.2.2"],
        "1.0.0" | "1.2.0" => vec!["1.0.0", "1.2.0"],
        _ => return None,
    };
    let c: Vec<&str> = c.into_iter().filter(|x| *x != v).collect();
    Some(r.pick(&c).to_string())
}
fn other_track(r: &mut Rng, v: &str) -> String {
    let c: Vec<&str> = match v {
        "0.2.0" | "0.2.1" | "0.2.2" => vec!["0.3.0", "1.0.0"],
        "1.0.0" | "1.2.0" => vec!["0.2.1", "0.3.0"],
        _ => vec!["0.2.0", "1.0.0"],
    };
    r.pick(&c).to_string()
}

fn rand_ver(r: &mut Rng) -> Option<String> {
    if r.chance(1, 6) { None } else { Some(r.pick(VERSIONS).to_string()) }
}

fn gen_world(r: &mut Rng, local: bool) -> Side {
    let mut s = Side::default();
    let ni = r.below(4);
    for _ in 0..ni {
        let it = match if local { r.below(16) } else { r.below(12) } {
            14 | 15 => Item::Inline { name: r.pick(&["foo", "svc"]).to_string(), kind: "big".into(), shape: r.below(3) as u8 },
            10 | 11 if !local => Item::Inline { name: r.pick(&["foo", "svc"]).to_string(), kind: "big".into(), shape: r.below(3) as u8 },
            10 | 11 => Item::Iface { pkg: "c:d".into(), name: "loc".into(), ver: None, shape: r.below(4) as u8 },
            12 | 13 => Item::UseRec { pkg: "c:d".into(), ver: None },
            0..=3 => Item::Iface { pkg: "x:y".into(), name: "z".into(), ver: rand_ver(r), shape: r.below(4) as u8 },
            4..=5 => Item::Iface { pkg: "x:y".into(), name: "q".into(), ver: rand_ver(r), shape: r.below(4) as u8 },
            6 => Item::Iface { pkg: "a:b".into(), name: "c".into(), ver: rand_ver(r), shape: r.below(2) as u8 },
            7 => Item::UseRec { pkg: "x:y".into(), ver: rand_ver(r) },
            _ => Item::Func { name: r.pick(&["k", "m"]).to_string(), sig: r.below(5) as u8 },
        };
        push_unique(&mut s.imports, it);
    }
    let ne = r.below(3);
    for _ in 0..ne {
        let it = match r.below(8) {
            6 => Item::Inline { name: r.pick(&["foo", "svc", "api"]).to_string(), kind: "big".into(), shape: r.below(3) as u8 },
            // exported under the very name of the interface declaration (only distinguishable in a local world)
            7 => Item::Inline { name: "handler".into(), kind: "handler".into(), shape: 0 },
            0..=2 => Item::Iface { pkg: "x:y".into(), name: "out".into(), ver: rand_ver(r), shape: r.below(4) as u8 },
            3 => Item::Iface { pkg: "a:b".into(), name: "srv".into(), ver: rand_ver(r), shape: r.below(2) as u8 },
            _ => Item::Func { name: r.pick(&["run", "stop"]).to_string(), sig: r.below(5) as u8 },
        };
        push_unique(&mut s.exports, it);
    }
    if r.chance(if local { 2 } else { 1 }, 7) {
        let it = Item::Inline { name: "foo".into(), kind: "big".into(), shape: r.below(2) as u8 };
        s.imports.retain(|x| key(x) != "foo");
        s.exports.retain(|x| key(x) != "foo");
        s.imports.push(it.clone());
        s.exports.push(it);
    }
    s
}

fn key(it: &Item) -> String {
    match it {
        Item::Iface { pkg, name, ver, .. } => iface_ref(pkg, name, ver),
        Item::Func { name, .. } => name.clone(),
        Item::UseRec { .. } => "use rec".to_string(),
        Item::Inline { name, .. } => name.clone(),
    }
}
/// one shape per interface of a package version within a side, one item per name
fn push_unique(l: &mut Vec<Item>, it: Item) {
    if l.iter().any(|x| key(x) == key(&it)) {
        return;
    }
    l.push(it);
}

/// make the shapes of a side coherent: one body per (pkg, ver, iface) across imports and exports
fn normalise(s: &mut Side) {
    let mut seen: HashMap<String, u8> = HashMap::new();
    for it in s.imports.iter_mut().chain(s.exports.iter_mut()) {
        let k = key(it);
        if let Item::Iface { shape, .. } = it {
            let e = seen.entry(k).or_insert(*shape);
            *shape = *e;
        }
    }
    // an interface cannot be imported and exported by name in our generator
    let imp: Vec<String> = s.imports.iter().map(key).collect();
    s.exports.retain(|e| matches!(e, Item::Inline { .. }) || !imp.contains(&key(e)));
}

fn gen_pair(r: &mut Rng) -> PairRecipe {
    let local_world = r.chance(3, 10);
    let mut world = gen_world(r, local_world);
    normalise(&mut world);
    // a conforming component: a subset of the imports, all the exports (and perhaps one more)
    let mut side = Side { types_shape: world.types_shape, ..Default::default() };
    for it in &world.imports {
        if r.chance(7, 10) {
            side.imports.push(it.clone());
        }
    }
    side.exports = world.exports.clone();
    if r.chance(1, 4) {
        push_unique(&mut side.exports, Item::Func { name: "bonus".into(), sig: r.below(5) as u8 });
    }
    let mut extra_imports = Vec::new();
    let mut tags = Vec::new();
    let np = match r.below(20) { 0..=3 => 0, 4..=16 => 1, _ => 2 };
    for _ in 0..np {
        match r.below(9) {
            0 => {
                tags.push("extra-import");
                match r.below(3) {
                    0 => extra_imports.push(("extra".to_string(), r.below(5) as u8)),
                    1 => push_unique(&mut side.imports, Item::Func { name: "extra2".into(), sig: r.below(5) as u8 }),
                    _ => push_unique(&mut side.imports, Item::Iface { pkg: "n:o".into(), name: "p".into(), ver: rand_ver(r), shape: 0 }),
                }
            }
            1 => {
                tags.push("missing-export");
                if !side.exports.is_empty() {
                    let i = r.below(world.exports.len().max(1) as u64) as usize;
                    if i < side.exports.len() { side.exports.remove(i); }
                }
            }
            2 | 3 => {
                tags.push("import-type");
                if side.imports.is_empty() {
                    if let Some(it) = world.imports.first() { side.imports.push(it.clone()); }
                }
                if !side.imports.is_empty() {
                    let i = r.below(side.imports.len() as u64) as usize;
                    match &mut side.imports[i] {
                        Item::Iface { shape, .. } => *shape = (*shape + 1 + r.below(3) as u8) % 4,
                        Item::Func { sig, .. } => *sig = (*sig + 1 + r.below(4) as u8) % 5,
                        Item::UseRec { .. } => side.types_shape = 1,
                        Item::Inline { shape, .. } => *shape = (*shape + 1 + r.below(2) as u8) % 3,
                    }
                }
            }
            4 | 5 => {
                tags.push("export-type");
                if !side.exports.is_empty() {
                    let i = r.below(side.exports.len() as u64) as usize;
                    match &mut side.exports[i] {
                        Item::Iface { shape, .. } => *shape = (*shape + 1 + r.below(3) as u8) % 4,
                        Item::Func { sig, .. } => *sig = (*sig + 1 + r.below(4) as u8) % 5,
                        Item::Inline { shape, .. } => *shape = (*shape + 1 + r.below(2) as u8) % 3,
                        _ => {}
                    }
                }
            }
            6 | 7 => {
                tags.push("import-version");
                if side.imports.is_empty() {
                    if let Some(it) = world.imports.first() { side.imports.push(it.clone()); }
                }
                let idx: Vec<usize> = (0..side.imports.len()).filter(|i| matches!(side.imports[*i], Item::Iface { ver: Some(_), .. })).collect();
                if !idx.is_empty() {
                    let i = *r.pick(&idx);
                    if let Item::Iface { ver: Some(v), .. } = &mut side.imports[i] {
                        let nv = if r.chance(3, 4) { same_track_other(r, v).unwrap_or_else(|| other_track(r, v)) } else { other_track(r, v) };
                        *v = nv;
                    }
                }
            }
            _ => {
                tags.push("export-version");
                let idx: Vec<usize> = (0..side.exports.len()).filter(|i| matches!(side.exports[*i], Item::Iface { ver: Some(_), .. })).collect();
                if !idx.is_empty() {
                    let i = *r.pick(&idx);
                    if let Item::Iface { ver: Some(v), .. } = &mut side.exports[i] {
                        let nv = if r.chance(3, 4) { same_track_other(r, v).unwrap_or_else(|| other_track(r, v)) } else { other_track(r, v) };
                        *v = nv;
                    }
                }
            }
        }
    }
    dedup_side(&mut side);
    normalise(&mut side);
    let mut comps = Vec::new();
    // explicit imports of the document for some of the first component's imports
    let mut explicit_funcs = Vec::new();
    let mut explicit_ifaces: Vec<Item> = Vec::new();
    for it in &side.imports {
        match it {
            Item::Func { name, sig } if r.chance(1, 3) => explicit_funcs.push((name.clone(), *sig)),
            Item::Iface { shape, .. } if !local_world && *shape < 3 && r.chance(1, 4) => explicit_ifaces.push(it.clone()),
            _ => {}
        }
    }
    // interface-typed explicit imports of the document, possibly passed through as exports
    let mut doc_imports: Vec<(String, String, u8)> = Vec::new();
    let mut doc_exports: Vec<(String, String)> = Vec::new();
    let inl: Vec<Item> = side.imports.iter().filter(|i| matches!(i, Item::Inline { .. })).cloned().collect();
    for it in inl {
        if let Item::Inline { name, kind, shape } = &it {
            if r.chance(2, 3) {
                side.imports.retain(|x| key(x) != *name);
                // the document may ask for less or more than the world offers under that name
                let sh = if r.chance(1, 2) { *shape } else { r.below(3) as u8 };
                if sh != *shape { tags.push("doc-import-type"); }
                doc_imports.push((name.clone(), kind.clone(), sh));
                // the same import is the export of that name
                if side.exports.iter().any(|x| matches!(x, Item::Inline { .. }) && key(x) == *name) && r.chance(3, 4) {
                    side.exports.retain(|x| key(x) != *name);
                    doc_exports.push((name.clone(), name.clone()));
                    tags.push("pass-through");
                }
            }
        }
    }
    // split the exports over two components now and then
    let shared = r.chance(1, 8);
    let two = shared || r.chance(3, 10);
    if two {
        let mut b = Side { types_shape: side.types_shape, ..Default::default() };
        if side.exports.len() >= 2 && r.chance(1, 2) {
            let moved = side.exports.pop().unwrap();
            b.exports.push(moved);
        } else {
            b.exports.push(Item::Func { name: "aux".into(), sig: r.below(5) as u8 });
        }
        if let Some(it) = world.imports.first() {
            if r.chance(1, 2) { b.imports.push(it.clone()); }
        }
        if r.chance(1, 5) {
            b.imports.push(Item::Iface { pkg: "x:y".into(), name: "z".into(), ver: rand_ver(r), shape: r.below(3) as u8 });
            tags.push("second-component-import");
        }
        if shared {
            // both instantiations import one name at different, mergeable instance types
            let (name, pkg) = if r.chance(1, 2) { ("z", "x:y") } else { ("q", "x:y") };
            let ver = rand_ver(r);
            let (sa, sb) = if r.chance(1, 2) { (0u8, 1u8) } else { (1u8, 0u8) };
            side.imports.retain(|x| !matches!(x, Item::Iface { name: n, .. } if n == name));
            b.imports.retain(|x| !matches!(x, Item::Iface { name: n, .. } if n == name));
            explicit_ifaces.retain(|x| !matches!(x, Item::Iface { name: n, .. } if n == name));
            side.imports.push(Item::Iface { pkg: pkg.into(), name: name.into(), ver: ver.clone(), shape: sa });
            b.imports.push(Item::Iface { pkg: pkg.into(), name: name.into(), ver: ver.clone(), shape: sb });
            // the world offers one of the two bodies (or the interface under another version / not at all)
            let wshape = if r.chance(3, 4) { r.below(2) as u8 } else { r.below(4) as u8 };
            if !local_world || r.chance(1, 2) {
                world.imports.retain(|x| !matches!(x, Item::Iface { name: n, .. } if n == name));
                world.imports.push(Item::Iface { pkg: pkg.into(), name: name.into(), ver, shape: wshape });
                normalise(&mut world);
            }
            tags.push("shared-import");
        }
        dedup_side(&mut b);
        normalise(&mut b);
        comps.push(CompSpec { pkg: "p:a".into(), side, explicit_funcs, explicit_ifaces, spread_exports: true });
        comps.push(CompSpec { pkg: "p:b".into(), side: b, explicit_funcs: vec![], explicit_ifaces: vec![], spread_exports: true });
        if r.chance(1, 2) { comps.swap(0, 1); }
    } else {
        comps.push(CompSpec { pkg: "p:a".into(), side, explicit_funcs, explicit_ifaces, spread_exports: true });
    }
    PairRecipe { world, comps, extra_imports, perturbation: if tags.is_empty() { "none".into() } else { tags.join("+") }, local_world, doc_imports, doc_exports }
}

fn dedup_side(s: &mut Side) {
    let mut out: Vec<Item> = Vec::new();
    for it in s.imports.drain(..) { push_unique(&mut out, it); }
    s.imports = out;
    let mut out: Vec<Item> = Vec::new();
    for it in s.exports.drain(..) { push_unique(&mut out, it); }
    s.exports = out;
}

fn gen_api(r: &mut Rng) -> ApiRecipe {
    // interfaces: ids on a few tracks; bodies small
    let ids = ["x:y/z@0.2.0", "x:y/z@0.2.1", "x:y/z@0.2.2", "x:y/z@0.3.0", "x:y/z@1.0.0", "x:y/z@1.2.0", "x:y/z",
               "x:y/t@0.2.0", "x:y/t@0.2.5", "a:b/c", "x:y/z@0.2.1-rc", "x:y/z@0.0.3"];
    let n = 3 + r.below(5) as usize;
    let mut ifaces = Vec::new();
    for _ in 0..n {
        let id = if r.chance(1, 10) { None } else { Some(r.pick(&ids).to_string()) };
        let mut exports = vec![("f".to_string(), r.below(3) as u8)];
        if r.chance(1, 2) { exports.push(("g".to_string(), 3)); }
        ifaces.push(ApiIface { id, exports, uses: vec![] });
    }
    for k in 0..n {
        if r.chance(1, 4) {
            let u = r.below(n as u64) as usize;
            if u != k && ifaces[u].id.is_some() { ifaces[k].uses.push(("t".into(), u)); }
        }
    }
    let named: Vec<usize> = (0..n).filter(|i| ifaces[*i].id.is_some()).collect();
    let pick_kind = |r: &mut Rng| -> KSpec {
        match r.below(12) {
            0..=6 => KSpec::Inst(r.below(n as u64) as usize),
            7..=9 => KSpec::Func(r.below(5) as u8),
            10 => KSpec::TypeFunc(r.below(5) as u8),
            _ => KSpec::TypeIface(r.below(n as u64) as usize),
        }
    };
    let name_for = |r: &mut Rng, k: &KSpec, ifaces: &Vec<ApiIface>| -> String {
        match k {
            KSpec::Inst(i) | KSpec::TypeIface(i) => match (&ifaces[*i].id, r.below(6)) {
                (Some(id), 0..=2) => id.clone(),
                (Some(id), 3) => match id.split_once('@') {
                    // another version on the same track
                    Some((b, v)) if v.starts_with("0.2.") => format!("{b}@0.2.{}", r.below(4)),
                    Some((b, v)) if v.starts_with("1.") => format!("{b}@1.{}.0", r.below(3)),
                    _ => id.clone(),
                },
                _ => r.pick(&ids).to_string(),
            },
            _ => r.pick(&["k", "m", "run", "x:y/fn@0.2.0", "x:y/fn@0.2.4"]).to_string(),
        }
    };
    let gen_list = |r: &mut Rng, max: u64, ifaces: &Vec<ApiIface>| -> Vec<(String, KSpec)> {
        let mut l: Vec<(String, KSpec)> = Vec::new();
        for _ in 0..r.below(max + 1) {
            let k = pick_kind(r);
            let nm = name_for(r, &k, ifaces);
            if !l.iter().any(|(x, _)| *x == nm) { l.push((nm, k)); }
        }
        l
    };
    let mut w_uses = Vec::new();
    if !named.is_empty() {
        for j in 0..r.below(3) {
            w_uses.push((format!("u{j}"), *r.pick(&named)));
        }
    }
    let w_imports = gen_list(r, 4, &ifaces);
    let w_exports = gen_list(r, 3, &ifaces);
    // the component: mostly derived from the world, with renamings onto other versions
    let mut c_imports: Vec<(String, KSpec)> = Vec::new();
    let mut pool: Vec<(String, KSpec)> = w_imports.clone();
    for (_, u) in &w_uses {
        pool.push((ifaces[*u].id.clone().unwrap(), KSpec::Inst(*u)));
    }
    for (nm, k) in &pool {
        if r.chance(2, 3) {
            let nm2 = if r.chance(1, 3) { name_for(r, k, &ifaces) } else { nm.clone() };
            let k2 = if r.chance(1, 5) { pick_kind(r) } else { k.clone() };
            if !c_imports.iter().any(|(x, _)| *x == nm2) { c_imports.push((nm2, k2)); }
        }
    }
    if r.chance(1, 4) {
        let k = pick_kind(r);
        let nm = name_for(r, &k, &ifaces);
        if !c_imports.iter().any(|(x, _)| *x == nm) { c_imports.push((nm, k)); }
    }
    let mut c_exports: Vec<(String, KSpec)> = Vec::new();
    for (nm, k) in &w_exports {
        if r.chance(5, 6) {
            let nm2 = if r.chance(1, 3) { name_for(r, k, &ifaces) } else { nm.clone() };
            let k2 = if r.chance(1, 5) { pick_kind(r) } else { k.clone() };
            if !c_exports.iter().any(|(x, _)| *x == nm2) { c_exports.push((nm2, k2)); }
        }
    }
    if r.chance(1, 3) {
        let k = pick_kind(r);
        let nm = name_for(r, &k, &ifaces);
        if !c_exports.iter().any(|(x, _)| *x == nm) { c_exports.push((nm, k)); }
    }
    ApiRecipe { ifaces, w_uses, w_imports, w_exports, c_imports, c_exports }
}

/// The regression witnesses (always run first).
fn fixed() -> Vec<Recipe> {
    let z = |v: &str, shape: u8| Item::Iface { pkg: "x:y".into(), name: "z".into(), ver: Some(v.into()), shape };
    let out = |v: &str, shape: u8| Item::Iface { pkg: "x:y".into(), name: "out".into(), ver: Some(v.into()), shape };
    let comp = |imports: Vec<Item>, exports: Vec<Item>| CompSpec {
        pkg: "p:a".into(),
        side: Side { imports, exports, types_shape: 0 },
        explicit_funcs: vec![],
        explicit_ifaces: vec![],
        spread_exports: true,
    };
    let run = Item::Func { name: "run".into(), sig: 0 };
    vec![
        // known finding, import side: composition imports x:y/z@0.2.0, world imports x:y/z@0.2.1
        Recipe::Pair(PairRecipe {
            world: Side { imports: vec![z("0.2.1", 0)], exports: vec![run.clone()], types_shape: 0 },
            comps: vec![comp(vec![z("0.2.0", 0)], vec![run.clone()])],
            extra_imports: vec![],
            perturbation: "witness-import-version".into(),
            local_world: false,
            doc_imports: vec![],
            doc_exports: vec![],
        }),
        // export side: world exports x:y/out@0.2.1, composition exports x:y/out@0.2.0
        Recipe::Pair(PairRecipe {
            world: Side { imports: vec![], exports: vec![out("0.2.1", 0)], types_shape: 0 },
            comps: vec![comp(vec![], vec![out("0.2.0", 0)])],
            extra_imports: vec![],
            perturbation: "witness-export-version".into(),
            local_world: false,
            doc_imports: vec![],
            doc_exports: vec![],
        }),
        // second known finding: the world is declared in the document and exports an interface that uses a type
        // of x:y/types; the composition (necessarily) imports x:y/types
        Recipe::Pair(PairRecipe {
            world: Side { imports: vec![], exports: vec![Item::Iface { pkg: "x:y".into(), name: "out".into(), ver: None, shape: 3 }], types_shape: 0 },
            comps: vec![comp(vec![], vec![Item::Iface { pkg: "x:y".into(), name: "out".into(), ver: None, shape: 3 }])],
            extra_imports: vec![],
            perturbation: "witness-exported-interface-uses".into(),
            local_world: true,
            doc_imports: vec![],
            doc_exports: vec![],
        }),
        // conforming pair with a used interface
        Recipe::Pair(PairRecipe {
            world: Side { imports: vec![z("0.2.1", 3), Item::UseRec { pkg: "x:y".into(), ver: Some("0.2.1".into()) }], exports: vec![run.clone()], types_shape: 0 },
            comps: vec![comp(vec![z("0.2.1", 3)], vec![run.clone()])],
            extra_imports: vec![],
            perturbation: "none".into(),
            local_world: false,
            doc_imports: vec![],
            doc_exports: vec![],
        }),
        // one extra import, one missing export, one type change
        Recipe::Pair(PairRecipe {
            world: Side { imports: vec![z("0.2.1", 0)], exports: vec![run.clone()], types_shape: 0 },
            comps: vec![comp(vec![z("0.2.1", 0)], vec![run.clone()])],
            extra_imports: vec![("extra".into(), 0)],
            perturbation: "extra-import".into(),
            local_world: false,
            doc_imports: vec![],
            doc_exports: vec![],
        }),
        Recipe::Pair(PairRecipe {
            world: Side { imports: vec![z("0.2.1", 0)], exports: vec![run.clone(), out("1.0.0", 0)], types_shape: 0 },
            comps: vec![comp(vec![z("0.2.1", 0)], vec![run.clone()])],
            extra_imports: vec![],
            perturbation: "missing-export".into(),
            local_world: false,
            doc_imports: vec![],
            doc_exports: vec![],
        }),
        Recipe::Pair(PairRecipe {
            world: Side { imports: vec![z("0.2.1", 0)], exports: vec![run.clone()], types_shape: 0 },
            comps: vec![comp(vec![z("0.2.1", 1)], vec![run.clone()])],
            extra_imports: vec![],
            perturbation: "import-type".into(),
            local_world: false,
            doc_imports: vec![],
            doc_exports: vec![],
        }),
        Recipe::Pair(PairRecipe {
            world: Side { imports: vec![], exports: vec![Item::Func { name: "run".into(), sig: 1 }], types_shape: 0 },
            comps: vec![comp(vec![], vec![Item::Func { name: "run".into(), sig: 2 }])],
            extra_imports: vec![],
            perturbation: "export-type".into(),
            local_world: false,
            doc_imports: vec![],
            doc_exports: vec![],
        }),
        // the world is declared in the document; `types` is reached through `use` only
        Recipe::Pair(PairRecipe {
            world: Side {
                imports: vec![Item::UseRec { pkg: "c:d".into(), ver: None },
                              Item::Iface { pkg: "c:d".into(), name: "loc".into(), ver: None, shape: 3 }],
                exports: vec![run.clone()], types_shape: 0 },
            comps: vec![comp(vec![Item::Iface { pkg: "c:d".into(), name: "loc".into(), ver: None, shape: 3 }], vec![run.clone()])],
            extra_imports: vec![],
            perturbation: "none".into(),
            local_world: true,
            doc_imports: vec![],
            doc_exports: vec![],
        }),
        // api: a used interface that is not an explicit import
        Recipe::Api(ApiRecipe {
            ifaces: vec![
                ApiIface { id: Some("x:y/t@0.2.0".into()), exports: vec![("f".into(), 1)], uses: vec![] },
                ApiIface { id: Some("x:y/z@0.2.1".into()), exports: vec![("f".into(), 1)], uses: vec![("t".into(), 0)] },
            ],
            w_uses: vec![],
            w_imports: vec![("x:y/z@0.2.1".into(), KSpec::Inst(1))],
            w_exports: vec![],
            c_imports: vec![("x:y/t@0.2.0".into(), KSpec::Inst(0)), ("x:y/z@0.2.1".into(), KSpec::Inst(1))],
            c_exports: vec![],
        }),
    ]
}

fn main() {
    let args: Vec<String> = std::env::args().collect();
    let tier = args.get(1).map(String::as_str).unwrap_or("quick");
    let seed: u64 = args.get(2).and_then(|s| s.parse().ok()).unwrap_or(1);
    let cases_out = args.get(3).expect("cases_out");
    let impl_out = args.get(4).expect("impl_out");
    let replay = args.get(5).filter(|s| s.as_str() != "-");
    let corpus = args.get(6);
    std::panic::set_hook(Box::new(|_| {}));
    let mut recipes: Vec<Recipe> = Vec::new();
    if let Some(p) = replay {
        for line in std::fs::read_to_string(p).expect("replay file").lines() {
            if line.trim().is_empty() { continue; }
            recipes.push(serde_json::from_str(line).expect("recipe"));
        }
    } else {
        recipes.extend(fixed());
        if let Some(p) = corpus {
            for line in std::fs::read_to_string(p).expect("corpus file").lines() {
                if line.trim().is_empty() || line.starts_with('#') { continue; }
                recipes.push(serde_json::from_str(line).expect("corpus recipe"));
            }
        }
        let mut r = Rng::new(seed ^ 0xC11);
        let (npairs, napi) = if tier == "thorough" { (5000, 40000) } else { (300, 3000) };
        for _ in 0..npairs { recipes.push(Recipe::Pair(gen_pair(&mut r))); }
        for _ in 0..napi { recipes.push(Recipe::Api(gen_api(&mut r))); }
    }
    let mut fc = std::io::BufWriter::new(std::fs::File::create(cases_out).unwrap());
    let mut fi = std::io::BufWriter::new(std::fs::File::create(impl_out).unwrap());
    let mut fr = std::io::BufWriter::new(std::fs::File::create(format!("{cases_out}.recipes")).unwrap());
    let mut fs = std::io::BufWriter::new(std::fs::File::create(format!("{cases_out}.src")).unwrap());
    for rc in &recipes {
        let res = catch_unwind(AssertUnwindSafe(|| match rc {
            Recipe::Pair(p) => run_pair(p),
            Recipe::Api(a) => run_api(a),
        }));
        let (c, i) = res.unwrap_or_else(|_| (format!("skip\t{NA7}\t{NA7}"), "SKIP\tharness panic".to_string()));
        writeln!(fc, "{c}").unwrap();
        writeln!(fi, "{i}").unwrap();
        writeln!(fr, "{}", serde_json::to_string(rc).unwrap()).unwrap();
        let src = match rc { Recipe::Pair(p) => pair_sources(p), Recipe::Api(_) => serde_json::Value::Null };
        writeln!(fs, "{}", serde_json::to_string(&src).unwrap()).unwrap();
    }
}
