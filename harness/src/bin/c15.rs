//! C15 correspondence: generate cases, run the implementation, write cases + observations.
//! usage: c15 <quick|thorough> <seed> <cases_out> <impl_out> [replay_cases_in]
use std::fmt::Write as _;
use std::io::Write;
use std::panic::catch_unwind;
use wac_types::{are_semver_compatible, verif_alternate_lookup_key, NameMap, NameMapNoIntern};
use wacv::{enc, Rng};

fn universe() -> Vec<String> {
    let mut v = Vec::new();
    for base in ["a:b/c", "x"] {
        v.push(base.to_string());
        for ma in 0..4 { for mi in 0..4 { for pa in 0..4 {
            for pre in ["", "-rc"] { for build in ["", "+meta"] {
                v.push(format!("{base}@{ma}.{mi}.{pa}{pre}{build}"));
            }}
        }}}
        for bad in ["@", "@1", "@1.0", "@1.0.0.0", "@01.0.0", "@1.0.0-", "@1.0.0+", "@1.0.0-01", "@1.0.0-rc..1",
                    "@1.0.0+a..b", "@1.0.x", "@v1.0.0", "@1.0.0 ", "@1.0.0-rc+meta", "@1.0.0+m-1", "@1.0.0-0a",
                    "@18446744073709551615.0.0", "@18446744073709551616.0.0", "@1.0.0@2.0.0", "@0.1.0-00", "@0.1.0+00",
                    "@1.0.0-a.b.c", "@1.0.0+a.b.c", "@1.0.0+001", "@1.0.0+01", "@1.0.0+1"] {
            v.push(format!("{base}{bad}"));
        }
    }
    v
}

fn rand_version(r: &mut Rng) -> String {
    let num = |r: &mut Rng| -> String {
        match r.below(10) {
            0 => "0".into(),
            1 => "18446744073709551615".into(),
            2 => "18446744073709551616".into(),
            3 => format!("0{}", r.below(10)),
            4 => format!("{}", r.next()),
            _ => format!("{}", r.below(4)),
        }
    };
    let ident = |r: &mut Rng| -> String {
        let n = r.below(4);
        let mut segs = Vec::new();
        for _ in 0..=n {
            let l = r.below(4);
            let mut s = String::new();
            for _ in 0..l { s.push(*r.pick(&['0', '1', '9', 'a', 'Z', '-', '0', '0'])); }
            segs.push(s);
        }
        segs.join(".")
    };
    let mut s = format!("{}.{}.{}", num(r), num(r), num(r));
    if r.chance(1, 8) { s = format!("{}.{}", num(r), num(r)); }
    if r.chance(1, 3) { s.push('-'); s.push_str(&ident(r)); }
    if r.chance(1, 3) { s.push('+'); s.push_str(&ident(r)); }
    if r.chance(1, 12) {
        // inject a stray character at a random position
        let chars: Vec<char> = s.chars().collect();
        let pos = r.below(chars.len() as u64 + 1) as usize;
        let c = *r.pick(&['@', '+', '-', '.', ' ', 'é', '0', 'x', '\u{202e}']);
        let mut t: String = chars[..pos].iter().collect();
        t.push(c);
        t.extend(chars[pos..].iter());
        s = t;
    }
    s
}

fn rand_name(r: &mut Rng) -> String {
    let base = *r.pick(&["a:b/c", "x", "a:b/c.d", "ü:b/c", "", "a@b", "a.b"]);
    if r.chance(1, 10) { return base.to_string(); }
    format!("{base}@{}", rand_version(r))
}

fn run_case(fields: &[&str]) -> String {
    let dec = |s: &str| -> String {
        if s == "-" || s.is_empty() { return String::new(); }
        s.split(',').map(|x| char::from_u32(x.parse::<u32>().unwrap()).unwrap()).collect()
    };
    let dec_list = |s: &str| -> Vec<String> { if s.is_empty() { vec![] } else { s.split(';').map(dec).collect() } };
    match fields {
        ["compat", a, b] => (are_semver_compatible(&dec(a), &dec(b)) as u8).to_string(),
        ["alt", a] => match verif_alternate_lookup_key(&dec(a)) {
            None => "none".into(),
            Some((k, v)) => format!("{}|{}", enc(&k), enc(&v)),
        },
        ["parse", a] => match semver::Version::parse(&dec(a)) { Ok(v) => enc(&v.to_string()), Err(_) => "none".into() },
        ["cmp", a, b] => match (semver::Version::parse(&dec(a)), semver::Version::parse(&dec(b))) {
            (Ok(x), Ok(y)) => match x.cmp(&y) {
                std::cmp::Ordering::Less => "lt", std::cmp::Ordering::Equal => "eq", std::cmp::Ordering::Greater => "gt" }.into(),
            _ => "none".into(),
        },
        ["nm", names, queries] => {
            let mut map: NameMap<String, usize> = NameMap::default();
            let mut cx = NameMapNoIntern;
            let mut acc = Vec::new();
            for (i, n) in dec_list(names).iter().enumerate() {
                acc.push(if map.insert(n, &mut cx, false, i).is_ok() { "1" } else { "0" });
            }
            let g: Vec<String> = dec_list(queries).iter()
                .map(|q| map.get(q, &cx).map(|v| v.to_string()).unwrap_or("none".into())).collect();
            format!("{}\t{}", acc.join(","), g.join(","))
        }
        _ => "BAD-LINE".into(),
    }
}

fn main() {
    let args: Vec<String> = std::env::args().collect();
    let tier = args[1].as_str();
    let seed: u64 = args[2].parse().unwrap();
    let mut cases: Vec<String> = Vec::new();
    if let Some(replay) = args.get(5) {
        cases = std::fs::read_to_string(replay).unwrap().lines().map(|s| s.to_string()).collect();
    } else {
        let mut r = Rng::new(seed);
        let u = universe();
        let thorough = tier == "thorough";
        // 1. all ordered pairs of the universe
        for a in &u { for b in &u { cases.push(format!("compat\t{}\t{}", enc(a), enc(b))); } }
        for a in &u { cases.push(format!("alt\t{}", enc(a))); }
        // 2. version parsing and ordering on random version texts
        let nver = if thorough { 100_000 } else { 8_000 };
        let vers: Vec<String> = (0..400).map(|_| rand_version(&mut r)).collect();
        for _ in 0..nver {
            let v = rand_version(&mut r);
            cases.push(format!("parse\t{}", enc(&v)));
            let w = r.pick(&vers).clone();
            cases.push(format!("cmp\t{}\t{}", enc(&v), enc(&w)));
            let n1 = rand_name(&mut r); let n2 = if r.chance(1,2) { rand_name(&mut r) } else {
                // same base, random other version: exercises the track comparison
                let b = n1.split('@').next().unwrap().to_string(); format!("{b}@{}", rand_version(&mut r)) };
            cases.push(format!("alt\t{}", enc(&n1)));
            cases.push(format!("compat\t{}\t{}", enc(&n1), enc(&n2)));
        }
        // ordering on the universe versions incl. build/pre interplay
        let uv: Vec<&str> = u.iter().filter_map(|n| n.split_once('@').map(|x| x.1)).collect();
        for _ in 0..(if thorough { 60_000 } else { 6_000 }) {
            cases.push(format!("cmp\t{}\t{}", enc(*r.pick::<&str>(&uv)), enc(*r.pick::<&str>(&uv))));
        }
        // 3. name-map histories
        let small: Vec<String> = {
            let mut s = vec!["a:b/c".to_string(), "x".to_string(), "a:b/c@bad".to_string()];
            for v in ["1.0.0", "1.2.0", "1.2.0+meta", "1.2.1-rc", "2.0.0", "0.1.0", "0.1.3", "0.2.0", "0.0.1", "0.0.2",
                      "1.10.0", "1.9.0", "0.1.3+meta", "1.2.0+m2"] { s.push(format!("a:b/c@{v}")); }
            for v in ["1.0.0", "1.3.0", "0.1.0", "0.1.9", "2.0.0-rc", "3.1.4", "0.0.0"] { s.push(format!("x@{v}")); }
            s
        };
        let queries = small.iter().map(|q| enc(q)).collect::<Vec<_>>().join(";");
        if thorough {
            // all sequences of <= 4 (not nec. distinct) entries over the 24-name universe
            let n = small.len();
            for len in 0..=4usize {
                let total = n.pow(len as u32);
                for code in 0..total {
                    let mut c = code; let mut names = Vec::new();
                    for _ in 0..len { names.push(enc(&small[c % n])); c /= n; }
                    cases.push(format!("nm\t{}\t{}", names.join(";"), queries));
                }
            }
        } else {
            // all sequences of <= 2 entries, random ones of 3..6
            let n = small.len();
            for len in 0..=2usize {
                for code in 0..n.pow(len as u32) {
                    let mut c = code; let mut names = Vec::new();
                    for _ in 0..len { names.push(enc(&small[c % n])); c /= n; }
                    cases.push(format!("nm\t{}\t{}", names.join(";"), queries));
                }
            }
            for _ in 0..6000 {
                let len = 3 + r.below(4);
                let names: Vec<String> = (0..len).map(|_| enc(r.pick::<String>(&small))).collect();
                cases.push(format!("nm\t{}\t{}", names.join(";"), queries));
            }
        }
        for _ in 0..(if thorough { 20_000 } else { 2_000 }) {
            let len = 1 + r.below(5);
            let names: Vec<String> = (0..len).map(|_| rand_name(&mut r)).collect();
            let mut qs: Vec<String> = names.iter().map(|n| enc(n)).collect();
            for _ in 0..3 { qs.push(enc(&rand_name(&mut r))); }
            cases.push(format!("nm\t{}\t{}", names.iter().map(|n| enc(n)).collect::<Vec<_>>().join(";"), qs.join(";")));
        }
    }
    let mut co = std::io::BufWriter::new(std::fs::File::create(&args[3]).unwrap());
    let mut io = std::io::BufWriter::new(std::fs::File::create(&args[4]).unwrap());
    std::panic::set_hook(Box::new(|_| {}));
    for c in &cases {
        writeln!(co, "{c}").unwrap();
        let c2 = c.clone();
        let out = catch_unwind(move || { let f: Vec<&str> = c2.split('\t').collect(); run_case(&f) })
            .unwrap_or_else(|_| "PANIC".to_string());
        let mut line = String::new(); write!(line, "{out}").unwrap();
        writeln!(io, "{line}").unwrap();
    }
}
