//! C17 harness: package discovery (`wac_resolver::packages`) against the package requests of resolution.
//!
//! usage: c17 <tier> <seed> <cases_out> <impl_out> [replay_cases_file]
//!
//! A fixed library of packages is built at start-up: WIT packages (text -> wit-parser -> wit_component::encode)
//! for interface / world references, and small components (WAT) for `new`, several of them in two versions and
//! one unversioned.  Documents are generated with package references in every syntactic position (targets clause,
//! import paths, `use` paths and world items inside interfaces / worlds / inline interfaces, includes, `new` nested
//! in named arguments and parentheses, export expressions), with and without versions, with references to the
//! document's own package, self-`new`, unknown packages, wrong kinds and missing exports.
//!
//! One case line per document:   doc <TAB> id <TAB> origin <TAB> source (code points)
//! One observation line:         P=.. <TAB> D=.. <TAB> S=.. <TAB> A=.. <TAB> O=.. <TAB> L=.. <TAB> H=.. <TAB> X=..
//!   P  parse verdict (OK / ERR)
//!   D  `packages(&doc)`: `OK key#off+len ...` (map order) or `ERR CannotInstantiateSelf off len`
//!   S  the document contains a `new` of its own package (walk of the real AST, written here)
//!   A  outcome of `doc.resolve(ALL library packages)` (+ encode): `OK digest:len` / `ERR Variant off` / `PANIC ..`
//!   O  outcome of `doc.resolve(only the discovered keys that the library has)`
//!   L  library keys whose removal from the full map changes the outcome (= the keys actually looked up),
//!      found through the public API only
//!   H  the request log of the `#[cfg(wac_verif)]` hook (hooks/c17-request-log.patch), when compiled with
//!      `--cfg wac_c17_log`; `-` otherwise
//!   X  own package name
#![allow(unexpected_cfgs)]
use indexmap::IndexMap;
use semver::Version;
use std::io::Write as _;
use std::panic::{catch_unwind, AssertUnwindSafe};
use wac_graph::EncodeOptions;
use wac_parser::{Document, Expr, InstantiationArgument, PrimaryExpr, Statement};
use wac_types::BorrowedPackageKey;
use wacv::{enc, Rng};

// ------------------------------------------------------------------------------------------------ library

#[derive(Clone, Copy, PartialEq)]
enum Kind {
    Wit,
    Comp(&'static [&'static str]),
}

struct Pkg {
    name: String,
    version: Option<Version>,
    bytes: Vec<u8>,
    kind: Kind,
}

impl Pkg {
    fn key(&self) -> String {
        match &self.version {
            Some(v) => format!("{}@{}", self.name, v),
            None => self.name.clone(),
        }
    }
    /// `name/segment[@version]`
    fn path(&self, seg: &str) -> String {
        match &self.version {
            Some(v) => format!("{}/{}@{}", self.name, seg, v),
            None => format!("{}/{}", self.name, seg),
        }
    }
}

fn wit_text(name: &str, version: Option<&str>, variant: usize) -> String {
    let t = ["u32", "u64", "s16", "string", "bool", "f32"][variant % 6];
    let v = version.map(|v| format!("@{v}")).unwrap_or_default();
    format!(
        "package {name}{v};\n\
         interface api {{ type t = {t}; record r {{ a: u8, b: string }} f: func(x: t) -> r; }}\n\
         interface other {{ enum e {{ x, y }} type u = list<{t}>; g: func() -> e; }}\n\
         world plain {{ import api; export other; }}\n\
         world host {{ import other; }}\n\
         world empty {{ }}\n"
    )
}

/// `run_import`: the component also imports a function `run` (what the library components export), so that a
/// spread argument `...s` of an instance of a library component can succeed.
fn comp_wat(imports: &[&str], variant: usize, run_import: bool) -> String {
    let mut s = String::from("(component\n");
    if run_import {
        s.push_str("  (import \"run\" (func (result u32)))\n");
    }
    for i in imports {
        s.push_str(&format!("  (import \"{i}\" (instance))\n"));
    }
    s.push_str(&format!(
        "  (core module $m (func (export \"f\") (result i32) (i32.const {variant})))\n\
         \x20 (core instance $i (instantiate $m))\n\
         \x20 (func $f (result u32) (canon lift (core func $i \"f\")))\n\
         \x20 (export \"run\" (func $f)))\n"
    ));
    s
}

fn build_library() -> Vec<Pkg> {
    let mut lib = Vec::new();
    let wits: [(&str, Option<&str>); 6] = [
        ("lib:aaa", None),
        ("lib:aaa", Some("1.0.0")),
        ("lib:aaa", Some("2.1.0")),
        ("lib:bbb", Some("0.3.0-rc.1+build5")),
        ("lib:ccc", None),
        ("wasi:dd", Some("0.2.0")),
    ];
    for (i, (n, v)) in wits.iter().enumerate() {
        let text = wit_text(n, *v, i);
        let mut resolve = wit_parser::Resolve::new();
        let id = resolve.push_str("lib.wit", &text).expect("library WIT parses");
        let bytes = wit_component::encode(&resolve, id).expect("library WIT encodes");
        lib.push(Pkg { name: n.to_string(), version: v.map(|v| v.parse().unwrap()), bytes, kind: Kind::Wit });
    }
    const NONE: &[&str] = &[];
    const ONE: &[&str] = &["dep"];
    const TWO: &[&str] = &["a", "b"];
    let comps: [(&str, Option<&str>, &'static [&'static str]); 8] = [
        ("comp:leaf", None, NONE),
        ("comp:leaf", Some("1.0.0"), NONE),
        ("comp:one", None, ONE),
        ("comp:one", Some("0.1.0"), ONE),
        ("comp:two", Some("1.0.0"), TWO),
        ("comp:two", Some("2.0.0"), TWO),
        ("comp:user", None, ONE),
        ("comp:user", Some("3.1.4"), ONE),
    ];
    for (i, (n, v, imports)) in comps.iter().enumerate() {
        let bytes = wat::parse_str(comp_wat(imports, i + 1, *n == "comp:user")).expect("library component assembles");
        lib.push(Pkg { name: n.to_string(), version: v.map(|v| v.parse().unwrap()), bytes, kind: Kind::Comp(imports) });
    }
    lib
}

// ------------------------------------------------------------------------------------------------ generator

struct Gen<'l> {
    r: Rng,
    lib: &'l [Pkg],
    own: String,
    own_name: String,
    uid: u32,
    closed: bool,
    ifaces: Vec<(String, String)>, // local interface id, a type it exports
    worlds: Vec<String>,
    insts: Vec<String>,
    imported: Vec<String>,
    spread_done: bool,
    self_new_budget: u32,
    mixed: bool, // argument lists mix all four forms freely
}

#[derive(Clone, Copy, PartialEq)]
enum Want {
    Iface,
    World,
}

impl<'l> Gen<'l> {
    /// Fresh identifier; the `x` keeps it clear of keywords such as `u8`.
    fn id(&mut self, p: &str) -> String {
        self.uid += 1;
        format!("{p}x{}", self.uid)
    }

    fn wits(&self) -> Vec<&'l Pkg> {
        self.lib.iter().filter(|p| p.kind == Kind::Wit).collect()
    }
    fn comps(&self) -> Vec<&'l Pkg> {
        self.lib.iter().filter(|p| p.kind != Kind::Wit).collect()
    }

    /// A package path and, when it names a library interface, that interface's name.
    fn pkgref(&mut self, want: Want) -> (String, Option<&'static str>) {
        let wits = self.wits();
        let p = *self.r.pick(&wits);
        let roll = self.r.below(200);
        let iface: &'static str = if self.r.chance(1, 2) { "api" } else { "other" };
        let world: &'static str = *self.r.pick(&["plain", "host", "empty"]);
        if roll < 176 {
            return match want {
                Want::Iface => (p.path(iface), Some(iface)),
                Want::World => (p.path(world), None),
            };
        }
        if roll < 188 {
            // the document's own package: resolved locally, never requested
            let seg = match want {
                Want::Iface if !self.ifaces.is_empty() => self.r.pick(&self.ifaces).0.clone(),
                Want::World if !self.worlds.is_empty() => self.r.pick(&self.worlds).clone(),
                _ => "nope".to_string(),
            };
            let v = match self.r.below(3) {
                0 => "",
                1 => "@9.9.9",
                _ => "@1.2.3",
            };
            return (format!("{}/{}{}", self.own_name, seg, v), None);
        }
        if roll < 191 {
            return match want {
                Want::Iface => (p.path(world), None),
                Want::World => (p.path(iface), None),
            };
        }
        if roll < 194 {
            return (p.path("nope"), None);
        }
        if roll < 198 {
            let s = *self.r.pick(&["zzz:none/api", "lib:aaa/api@9.9.9", "lib:bbb/api", "lib:ccc/plain@1.0.0", "comp:none/run"]);
            return (s.to_string(), None);
        }
        let comps = self.comps();
        let c = *self.r.pick(&comps);
        (c.path("run"), None)
    }

    fn use_items(&mut self, iface: Option<&'static str>) -> String {
        let names: &[&str] = match iface {
            Some("api") => &["t", "r"],
            Some("other") => &["e", "u"],
            _ => &["t"],
        };
        let mut items = Vec::new();
        for n in names {
            if items.is_empty() || self.r.chance(1, 2) {
                let alias = self.id(n);
                items.push(format!("{n} as {alias}"));
            }
        }
        format!("{{{}}}", items.join(", "))
    }

    fn use_decl(&mut self) -> String {
        if !self.ifaces.is_empty() && self.r.chance(1, 6) {
            let (i, t) = self.r.pick(&self.ifaces).clone();
            let alias = self.id("q");
            return format!("use {i}.{{{t} as {alias}}};");
        }
        let (p, i) = self.pkgref(Want::Iface);
        let items = self.use_items(i);
        format!("use {p}.{items};")
    }

    fn interface_body(&mut self, ty_name: &str) -> String {
        let mut s = String::from("{ ");
        let n = self.r.below(3);
        for _ in 0..n {
            s.push_str(&self.use_decl());
            s.push(' ');
        }
        if !ty_name.is_empty() {
            s.push_str(&format!("type {ty_name} = u32; "));
        }
        if self.r.chance(1, 2) {
            let f = self.id("f");
            s.push_str(&format!("{f}: func(x: u8) -> string; "));
        }
        s.push('}');
        s
    }

    fn world_body(&mut self) -> String {
        let mut s = String::from("{\n");
        let n = 1 + self.r.below(6);
        let mut seen: Vec<String> = Vec::new();
        for _ in 0..n {
            let item = match self.r.below(11) {
                0 | 1 => self.use_decl(),
                2 | 3 => {
                    let (p, _) = self.pkgref(Want::Iface);
                    let kw = if self.r.chance(1, 2) { "import" } else { "export" };
                    let k = format!("{kw} {}", p.split('@').next().unwrap_or(""));
                    if seen.contains(&k) && self.r.chance(9, 10) {
                        continue;
                    }
                    seen.push(k);
                    format!("{kw} {p};")
                }
                4 => {
                    let n = self.id("n");
                    let kw = if self.r.chance(1, 2) { "import" } else { "export" };
                    let body = self.interface_body("");
                    format!("{kw} {n}: interface {body};")
                }
                5 => {
                    let n = self.id("n");
                    let kw = if self.r.chance(1, 2) { "import" } else { "export" };
                    format!("{kw} {n}: func(a: string);")
                }
                6 | 7 | 8 => {
                    let (p, _) = self.pkgref(Want::World);
                    format!("include {p};")
                }
                9 if !self.worlds.is_empty() => {
                    let w = self.r.pick(&self.worlds).clone();
                    format!("include {w};")
                }
                _ if !self.ifaces.is_empty() => {
                    let i = self.r.pick(&self.ifaces).0.clone();
                    let k = format!("import {i}");
                    if seen.contains(&k) {
                        continue;
                    }
                    seen.push(k);
                    format!("import {i};")
                }
                _ => {
                    let t = self.id("t");
                    format!("type {t} = u8;")
                }
            };
            s.push_str("  ");
            s.push_str(&item);
            s.push('\n');
        }
        s.push('}');
        s
    }

    fn arg_expr(&mut self, depth: u32) -> String {
        let roll = self.r.below(100);
        if depth == 0 || (roll >= 80 && !self.insts.is_empty()) {
            if !self.insts.is_empty() && self.r.chance(3, 4) {
                return self.r.pick(&self.insts).clone();
            }
            return self.new_expr(0);
        }
        let inner = self.new_expr(depth - 1);
        if roll < 45 {
            inner
        } else if roll < 72 {
            format!("({inner})")
        } else {
            format!("(({inner}))")
        }
    }

    fn new_expr(&mut self, depth: u32) -> String {
        let roll = self.r.below(100);
        if roll < 3 && self.self_new_budget > 0 {
            self.self_new_budget -= 1;
            let fill = if self.r.chance(1, 2) { " ... " } else { "" };
            return format!("new {} {{{fill}}}", self.own);
        }
        if roll < 5 {
            return format!("new {} {{ ... }}", self.r.pick(&["zzz:none", "comp:leaf@9.9.9", "comp:two", "lib:aaa@1.0.0"]));
        }
        let comps = self.comps();
        let c = if depth == 0 {
            *self.r.pick(&comps.iter().copied().filter(|c| matches!(c.kind, Kind::Comp(i) if i.is_empty())).collect::<Vec<_>>())
        } else {
            *self.r.pick(&comps)
        };
        let Kind::Comp(imports) = c.kind else { unreachable!() };
        let mut args: Vec<String> = Vec::new();
        let mut omitted = false;
        for i in imports {
            if !self.closed && self.r.chance(1, 6) {
                omitted = true;
                continue;
            }
            if !self.closed && !self.insts.is_empty() && self.r.chance(1, 14) {
                // inferred argument
                args.push(self.r.pick(&self.insts).clone());
                continue;
            }
            let e = self.arg_expr(depth);
            if self.r.chance(1, 8) {
                args.push(format!("\"{i}\": {e}"));
            } else {
                args.push(format!("{i}: {e}"));
            }
        }
        let (num, den) = if self.mixed { (1, 2) } else { (1, 9) };
        if !self.closed && depth > 0 && self.r.chance(num, den * 4) {
            // a named argument the component does not import: its expression is evaluated all the same
            let n = self.id("k");
            let e = self.arg_expr(depth);
            args.push(format!("{n}: {e}"));
        }
        // the four argument forms in every order: shuffle, then put spreads, inferred arguments and
        // NON-final fills at random positions, so that named arguments (with nested `new`) follow them
        for i in (1..args.len()).rev() {
            let j = self.r.below(i as u64 + 1) as usize;
            args.swap(i, j);
        }
        if !self.closed {
            if !self.insts.is_empty() && self.r.chance(num, den) {
                let pos = self.r.below(args.len() as u64 + 1) as usize;
                let s = self.r.pick(&self.insts).clone();
                args.insert(pos, format!("...{s}"));
            }
            if !self.insts.is_empty() && self.r.chance(num, den * 2) {
                let pos = self.r.below(args.len() as u64 + 1) as usize;
                let s = self.r.pick(&self.insts).clone();
                args.insert(pos, s);
            }
            if !args.is_empty() && self.r.chance(num, den * 3) {
                let pos = self.r.below(args.len() as u64) as usize;
                args.insert(pos, "...".to_string());
            }
        }
        if c.name == "comp:user" && !args.iter().any(|a| a.starts_with("...") && a.len() > 3) {
            let pos = self.r.below(args.len() as u64 + 1) as usize;
            if !self.insts.is_empty() && self.r.chance(2, 3) {
                let s = self.r.pick(&self.insts).clone();
                args.insert(pos, format!("...{s}"));
            } else {
                let leaf = if self.r.chance(1, 2) { "comp:leaf" } else { "comp:leaf@1.0.0" };
                args.insert(pos, format!("run: (new {leaf} {{}}).run"));
            }
        }
        if omitted || (!self.closed && self.r.chance(1, 10)) {
            args.push("...".to_string());
        }
        let trailing = if !args.is_empty() && args.last().map(|a| a != "...").unwrap_or(false) && self.r.chance(1, 5) { "," } else { "" };
        if args.is_empty() {
            format!("new {} {{}}", c.key())
        } else {
            format!("new {} {{ {}{trailing} }}", c.key(), args.join(", "))
        }
    }

    fn statement(&mut self) -> String {
        let roll = self.r.below(if self.closed { 70 } else { 100 });
        match roll {
            // ---- type statements
            0..=14 => {
                let i = self.id("i");
                let t = self.id("q");
                let body = self.interface_body(&t);
                self.ifaces.push((i.clone(), t));
                format!("interface {i} {body}")
            }
            15..=36 => {
                let w = self.id("w");
                let body = self.world_body();
                self.worlds.push(w.clone());
                format!("world {w} {body}")
            }
            37..=40 => {
                let t = self.id("t");
                format!("type {t} = list<u8>;")
            }
            // ---- let / export
            41..=58 => {
                let v = self.id("v");
                let e = self.new_expr(3);
                let (e, inst) = match self.r.below(8) {
                    0 => (format!("({e})"), true),
                    1 => (format!("({e}).run"), false),
                    _ => (e, true),
                };
                if inst {
                    self.insts.push(v.clone());
                }
                format!("let {v} = {e};")
            }
            59..=69 => {
                let n = self.id("e");
                match self.r.below(6) {
                    0 if !self.insts.is_empty() => {
                        let i = self.r.pick(&self.insts).clone();
                        format!("export {i} as {n};")
                    }
                    1 => {
                        let e = self.new_expr(2);
                        format!("export ({e}).run as {n};")
                    }
                    2 if !self.spread_done => {
                        self.spread_done = true;
                        let e = self.new_expr(2);
                        format!("export {e}...;")
                    }
                    3 => {
                        let e = self.new_expr(2);
                        format!("export ({e}) as \"{n}\";")
                    }
                    _ => {
                        let e = self.new_expr(3);
                        format!("export {e} as {n};")
                    }
                }
            }
            // ---- imports
            70..=84 => {
                let x = self.id("x");
                let (p, _) = self.pkgref(Want::Iface);
                let base = p.clone();
                if self.imported.contains(&base) || self.r.chance(1, 4) {
                    let n = self.id("nm");
                    format!("import {x} as {n}: {p};")
                } else {
                    self.imported.push(base);
                    format!("import {x}: {p};")
                }
            }
            85..=92 => {
                let x = self.id("x");
                let body = self.interface_body("");
                format!("import {x}: interface {body};")
            }
            93..=95 => {
                let x = self.id("x");
                format!("import {x}: func(a: u8) -> string;")
            }
            _ => {
                let x = self.id("x");
                if !self.ifaces.is_empty() {
                    let i = self.r.pick(&self.ifaces).0.clone();
                    format!("import {x}: {i};")
                } else {
                    format!("import {x}: func();")
                }
            }
        }
    }

    fn document(&mut self) -> String {
        let mut s = format!("package {}", self.own);
        if self.closed || self.r.chance(1, 7) {
            let (mut p, _) = self.pkgref(Want::World);
            if self.closed && self.r.chance(4, 5) {
                let wits = self.wits();
                p = self.r.pick(&wits).path("empty");
            }
            s.push_str(&format!(" targets {p}"));
        }
        s.push_str(";\n");
        let n = 1 + self.r.below(8);
        for _ in 0..n {
            let st = self.statement();
            s.push_str(&st);
            s.push('\n');
        }
        s
    }
}

fn gen_doc(seed: u64, lib: &[Pkg]) -> String {
    let mut r = Rng::new(seed);
    let own = match r.below(20) {
        0 | 1 => "test:own@1.2.3".to_string(),
        2 => "lib:aaa".to_string(),
        3 => "lib:aaa@1.0.0".to_string(),
        4 => "comp:leaf".to_string(),
        5 => "comp:one@0.1.0".to_string(),
        _ => "test:own".to_string(),
    };
    let own_name = own.split('@').next().unwrap().to_string();
    let closed = r.chance(1, 6);
    let budget = if r.chance(1, 3) { 1 } else { 0 };
    let mixed = r.chance(1, 4);
    let mut g = Gen {
        r,
        lib,
        own,
        own_name,
        uid: 0,
        closed,
        ifaces: vec![],
        worlds: vec![],
        insts: vec![],
        imported: vec![],
        spread_done: false,
        self_new_budget: budget,
        mixed,
    };
    g.document()
}

/// Hand-written documents: one per syntactic position, version combinations, own-package references.
fn edge_docs() -> Vec<(&'static str, String)> {
    let v: Vec<(&str, &str)> = vec![
        ("targets", "package test:own targets lib:aaa/empty@1.0.0;\nlet a = new comp:leaf {};\nexport a as out;\n"),
        ("import-path", "package test:own;\nimport x: lib:aaa/api;\nimport y: lib:bbb/other@0.3.0-rc.1+build5;\n"),
        ("import-inline-use", "package test:own;\nimport x: interface { use lib:ccc/api.{t as t1}; f: func(a: t1); };\n"),
        ("interface-use", "package test:own;\ninterface i { use lib:aaa/api@2.1.0.{t as t1, r as r1}; use wasi:dd/other@0.2.0.{e}; }\n"),
        ("world-use", "package test:own;\nworld w { use lib:aaa/api@1.0.0.{t}; }\n"),
        ("world-import-export", "package test:own;\nworld w { import lib:aaa/api; export lib:ccc/other; }\n"),
        ("world-inline", "package test:own;\nworld w { import n: interface { use lib:bbb/api@0.3.0-rc.1+build5.{r}; }; export m: interface { use lib:ccc/other.{u}; }; }\n"),
        ("include", "package test:own;\nworld w { include lib:aaa/plain@2.1.0; }\n"),
        ("include-first", "package test:own;\nworld w { include wasi:dd/host@0.2.0; import lib:ccc/api; }\n"),
        ("include-only-ref", "package test:own;\nworld w0 { }\nworld w { include w0; include lib:ccc/plain; }\n"),
        ("new-nested-named", "package test:own;\nlet a = new comp:one { dep: new comp:leaf@1.0.0 {} };\nexport a as out;\n"),
        ("new-nested-paren", "package test:own;\nlet a = new comp:two@2.0.0 { a: (new comp:one { dep: ((new comp:leaf {})) }), \"b\": (new comp:one@0.1.0 { ... }) };\nexport a as out;\n"),
        ("new-deep", "package test:own;\nexport new comp:two@1.0.0 { a: new comp:two@2.0.0 { a: new comp:one { dep: new comp:leaf {} }, b: new comp:leaf@1.0.0 {} }, b: new comp:leaf {} } as out;\n"),
        ("export-expr", "package test:own;\nexport (new comp:leaf {}).run as f;\nexport new comp:leaf@1.0.0 {}...;\n"),
        ("two-versions-iface", "package test:own;\ninterface i { use lib:aaa/api.{t as t0}; use lib:aaa/api@1.0.0.{t as t1}; use lib:aaa/api@2.1.0.{t as t2}; }\n"),
        ("two-versions-new", "package test:own;\nlet a = new comp:leaf {};\nlet b = new comp:leaf@1.0.0 {};\nexport a as x;\nexport b as y;\n"),
        ("two-versions-later-first", "package test:own;\nlet a = new comp:two@2.0.0 { a: new comp:leaf {}, b: new comp:leaf {} };\nlet b = new comp:two@1.0.0 { a: a, b: a };\nexport b as y;\n"),
        ("own-refs", "package test:own;\ninterface i { type q = u32; }\nworld w0 { import test:own/i; }\nworld w { include test:own/w0; use test:own/i.{q}; import lib:aaa/api; }\nimport x: test:own/i;\n"),
        ("own-is-library-name", "package lib:aaa;\ninterface api { type t = u8; }\nworld w { import lib:aaa/api; import lib:ccc/api; use lib:aaa/api@1.0.0.{t}; }\n"),
        ("own-is-library-name-missing", "package lib:aaa@1.0.0;\nworld w { import lib:aaa/api@1.0.0; import lib:ccc/api; }\n"),
        ("own-targets", "package test:own targets test:own/w;\nworld w { }\nlet a = new comp:leaf {};\n"),
        ("self-new", "package test:own;\nlet a = new test:own {};\n"),
        ("self-new-versioned", "package test:own@1.2.3;\nlet a = new test:own@9.9.9 { ... };\n"),
        ("self-new-nested", "package test:own;\nlet a = new comp:one { dep: (new comp:two@1.0.0 { a: new test:own { ... }, ... }) };\n"),
        ("self-new-after-unknown", "package test:own;\nimport x: zzz:none/api;\nexport new comp:one { dep: ((new test:own {})) } as e;\n"),
        ("self-new-in-export", "package comp:leaf;\nexport new comp:leaf {} as e;\n"),
        ("unknown-package", "package test:own;\nimport x: lib:aaa/api;\nimport y: zzz:none/api;\nimport z: lib:ccc/api;\n"),
        ("unknown-version", "package test:own;\nlet a = new comp:leaf@9.9.9 {};\nlet b = new comp:leaf {};\n"),
        ("error-before-request", "package test:own;\nimport x: nothing;\nimport y: lib:aaa/api;\n"),
        ("wrong-kind", "package test:own;\nworld w { include lib:aaa/api; import lib:ccc/api; }\n"),
        ("missing-export", "package test:own;\ninterface i { use lib:aaa/nope.{t}; use lib:ccc/api.{t}; }\n"),
        ("postfix-only", "package test:own;\nlet a = new comp:leaf {};\nlet f = a.run;\nexport f as g;\n"),
        ("spread-inferred", "package test:own;\nlet dep = new comp:leaf {};\nlet a = new comp:one { dep };\nlet b = new comp:one@0.1.0 { ...a, ... };\nexport a as out;\n"),
        ("spread-ok-then-named-new", "package test:own;\nlet s = new comp:leaf {};\nlet a = new comp:user { ...s, dep: new comp:leaf@1.0.0 {} };\nexport a as out;\n"),
        ("spread-ok-then-named-paren-new", "package test:own;\nlet s = new comp:leaf@1.0.0 {};\nexport new comp:user@3.1.4 { ...s, \"dep\": ((new comp:one { dep: s })) } as e;\n"),
        ("spread-then-named-new", "package test:own;\nlet s = new comp:leaf {};\nlet a = new comp:two@1.0.0 { ...s, a: new comp:leaf@1.0.0 {}, b: s };\n"),
        ("spread-then-named-paren-new", "package test:own;\nlet s = new comp:leaf {};\nexport new comp:one { ...s, \"dep\": ((new comp:one@0.1.0 { dep: s })) } as e;\n"),
        ("fill-then-named-new", "package test:own;\nlet a = new comp:two@2.0.0 { ..., a: new comp:leaf@1.0.0 {}, b: new comp:leaf {} };\n"),
        ("inferred-then-named-new", "package test:own;\nlet b = new comp:leaf {};\nlet a = new comp:two@2.0.0 { b, a: (new comp:leaf@1.0.0 {}) };\nexport a as out;\n"),
        ("all-four-forms", "package test:own;\nlet s = new comp:leaf {};\nlet b = new comp:leaf {};\nlet a = new comp:two@2.0.0 { b, ...s, ..., a: new comp:one { ...s, dep: new comp:leaf@1.0.0 {} }, ... };\n"),
        ("spread-then-self-new", "package test:own;\nlet s = new comp:leaf {};\nlet a = new comp:one { ...s, dep: (new test:own {}) };\n"),
        ("fill-then-self-new", "package test:own@1.2.3;\nlet a = new comp:two@1.0.0 { a: new comp:leaf {}, ..., b: new test:own { ... } };\n"),
        ("inferred-spread-fill-then-self-new", "package comp:one;\nlet s = new comp:leaf {};\nexport new comp:two@2.0.0 { s, ...s, ..., a: new comp:two@1.0.0 { ...s, b: ((new comp:one@0.1.0 {})) } } as e;\n"),
        ("repeat-same-key", "package test:own;\nimport x: lib:aaa/api;\nworld w { import lib:aaa/api; export lib:aaa/other; include lib:aaa/plain; }\nlet a = new comp:leaf {};\nlet b = new comp:leaf {};\n"),
    ];
    v.into_iter().map(|(a, b)| (a, b.to_string())).collect()
}

// ------------------------------------------------------------------------------------------------ observation

fn fnv(data: &[u8]) -> String {
    let mut h: u64 = 0xcbf29ce484222325;
    for b in data {
        h ^= *b as u64;
        h = h.wrapping_mul(0x100000001b3);
    }
    format!("{h:016x}")
}

fn variant_of(e: &dyn std::fmt::Debug) -> String {
    let s = format!("{e:?}");
    s.split(|c: char| !(c.is_alphanumeric() || c == '_')).next().unwrap_or("").to_string()
}

fn first_label(e: &dyn miette::Diagnostic) -> String {
    match e.labels().and_then(|mut l| l.next()) {
        Some(l) => l.offset().to_string(),
        None => "-".into(),
    }
}

fn panic_text(p: Box<dyn std::any::Any + Send>) -> String {
    let msg = p.downcast_ref::<String>().cloned().or_else(|| p.downcast_ref::<&str>().map(|s| s.to_string()));
    format!("PANIC {}", msg.unwrap_or_default().replace(['\n', '\t'], " "))
}

fn outcome<'a>(doc: &'a Document<'a>, pkgs: IndexMap<BorrowedPackageKey<'a>, Vec<u8>>) -> String {
    let r = catch_unwind(AssertUnwindSafe(|| match doc.resolve(pkgs) {
        Ok(res) => match res.encode(EncodeOptions::default()) {
            Ok(b) => format!("OK {}:{}", fnv(&b), b.len()),
            Err(e) => {
                // the validator's message, so that two failing encodings are compared by more than their variant
                let mut msg = String::new();
                let mut src: Option<&dyn std::error::Error> = std::error::Error::source(&e);
                while let Some(x) = src {
                    msg.push_str(&x.to_string());
                    msg.push('/');
                    src = x.source();
                }
                let msg: String = msg.chars().map(|c| if c.is_whitespace() { '_' } else { c }).take(160).collect();
                format!("ENCERR {} {} {}", variant_of(&e), first_label(&e), msg)
            }
        },
        Err(e) => format!("ERR {} {}", variant_of(&e), first_label(&e)),
    }));
    r.unwrap_or_else(panic_text)
}

#[cfg(wac_c17_log)]
fn take_log() -> String {
    let l = wac_parser::resolution::verif_request_log::take();
    if l.is_empty() {
        return "".into();
    }
    l.iter()
        .map(|(n, v, off, _)| match v {
            Some(v) => format!("{n}@{v}#{off}"),
            None => format!("{n}#{off}"),
        })
        .collect::<Vec<_>>()
        .join(" ")
}
#[cfg(not(wac_c17_log))]
fn take_log() -> String {
    "-".into()
}

fn expr_self_new(this: &str, e: &Expr) -> bool {
    match &e.primary {
        PrimaryExpr::New(n) => {
            n.package.name == this
                || n.arguments.iter().any(|a| match a {
                    InstantiationArgument::Named(a) => expr_self_new(this, &a.expr),
                    _ => false,
                })
        }
        PrimaryExpr::Nested(n) => expr_self_new(this, &n.inner),
        PrimaryExpr::Ident(_) => false,
    }
}

fn key_text(k: &BorrowedPackageKey) -> String {
    match k.version {
        Some(v) => format!("{}@{}", k.name, v),
        None => k.name.to_string(),
    }
}

fn observe(src: &str, lib: &[Pkg]) -> String {
    let doc = match catch_unwind(|| Document::parse(src)) {
        Ok(Ok(d)) => d,
        Ok(Err(_)) => return "P=ERR".into(),
        Err(p) => return format!("P={}", panic_text(p)),
    };
    let own = doc.directive.package.name;
    let self_new = doc.statements.iter().any(|s| match s {
        Statement::Let(l) => expr_self_new(own, &l.expr),
        Statement::Export(e) => expr_self_new(own, &e.expr),
        _ => false,
    });
    let all = || -> IndexMap<BorrowedPackageKey, Vec<u8>> {
        lib.iter().map(|p| (BorrowedPackageKey::from_name_and_version(&p.name, p.version.as_ref()), p.bytes.clone())).collect()
    };
    // discovery
    let disc = catch_unwind(AssertUnwindSafe(|| wac_resolver::packages(&doc)));
    let (d_text, discovered): (String, Option<Vec<String>>) = match &disc {
        Ok(Ok(keys)) => {
            let ks: Vec<String> = keys.keys().map(key_text).collect();
            let t = keys.iter().map(|(k, sp)| format!("{}#{}+{}", key_text(k), sp.offset(), sp.len())).collect::<Vec<_>>().join(" ");
            (format!("OK {t}").trim_end().to_string(), Some(ks))
        }
        Ok(Err(e)) => match e {
            wac_resolver::Error::CannotInstantiateSelf { span } => (format!("ERR CannotInstantiateSelf {} {}", span.offset(), span.len()), None),
            e => (format!("ERR {} {}", variant_of(e), first_label(e)), None),
        },
        Err(_) => ("PANIC".to_string(), None),
    };
    // resolution with everything
    let _ = take_log();
    let a = outcome(&doc, all());
    let h = take_log();
    // resolution with the discovered packages only
    let o = match &discovered {
        Some(ks) => {
            let only: IndexMap<BorrowedPackageKey, Vec<u8>> = all().into_iter().filter(|(k, _)| ks.contains(&key_text(k))).collect();
            outcome(&doc, only)
        }
        None => "-".to_string(),
    };
    // which library keys are looked up: those whose removal changes the outcome
    let mut looked = Vec::new();
    for p in lib {
        let k = p.key();
        let without: IndexMap<BorrowedPackageKey, Vec<u8>> = all().into_iter().filter(|(q, _)| key_text(q) != k).collect();
        if outcome(&doc, without) != a {
            looked.push(k);
        }
    }
    let _ = take_log();
    format!(
        "P=OK\tD={d_text}\tS={}\tA={a}\tO={o}\tL={}\tH={h}\tX={own}",
        if self_new { 1 } else { 0 },
        looked.join(" ")
    )
}

fn dec(s: &str) -> String {
    if s == "-" || s.is_empty() {
        return String::new();
    }
    s.split(',').filter_map(|x| x.parse::<u32>().ok().and_then(char::from_u32)).collect()
}

fn main() {
    let args: Vec<String> = std::env::args().collect();
    if args.len() < 5 {
        eprintln!("usage: c17 <tier> <seed> <cases_out> <impl_out> [replay_cases_file]");
        std::process::exit(2);
    }
    let tier = args[1].as_str();
    let seed: u64 = args[2].parse().unwrap_or(1);
    std::panic::set_hook(Box::new(|_| {}));
    let lib = build_library();
    let mut docs: Vec<(String, String)> = Vec::new();
    if let Some(path) = args.get(5) {
        let text = std::fs::read_to_string(path).expect("replay file");
        for line in text.lines() {
            let f: Vec<&str> = line.split('\t').collect();
            if f.len() >= 4 && f[0] == "doc" {
                docs.push((f[2].to_string(), dec(f[3])));
            }
        }
    } else {
        for (name, src) in edge_docs() {
            docs.push((format!("edge:{name}"), src));
        }
        let n = if tier == "thorough" { 10_000 } else { 520 };
        let mut master = Rng::new(seed ^ 0xC17);
        for i in 0..n {
            docs.push((format!("gen:{i}"), gen_doc(master.next(), &lib)));
        }
    }
    let mut cases = std::io::BufWriter::new(std::fs::File::create(&args[3]).expect("cases_out"));
    let mut imp = std::io::BufWriter::new(std::fs::File::create(&args[4]).expect("impl_out"));
    for (i, (origin, src)) in docs.iter().enumerate() {
        writeln!(cases, "doc\t{i}\t{origin}\t{}", enc(src)).unwrap();
        writeln!(imp, "{}", observe(src, &lib)).unwrap();
    }
    // library keys, for the evidence
    writeln!(cases, "lib\t-\t-\t{}", lib.iter().map(|p| p.key()).collect::<Vec<_>>().join(" ")).unwrap();
    writeln!(imp, "LIB").unwrap();
}
