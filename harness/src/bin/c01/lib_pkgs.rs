//! The component library of the C01 search: the twelve packages of the C02 universe (same indexes, so that the
//! C02/C03 witnesses replay unchanged) followed by WIT-derived components with records / variants / lists /
//! options / results / enums / flags / resources, cross-interface `use`, world-level `use`, world-level types and
//! resources, and versioned interface names on the same and on different semver tracks.

pub enum Src { Wat(&'static str), Wit(&'static str) }
pub struct PkgDesc { pub name: &'static str, pub version: Option<&'static str>, pub src: Src }

pub const BASE_NAMES: &[&str] = &[
    "f", "g", "i", "x", "inst", "h", "foo", "bar", "y", "run",                       // 0..9
    "a:b/c@0.2.0", "a:b/c@0.2.1", "a:b/c@0.3.0", "x:y/z@1.0.0", "x:y/z@1.2.0",       // 10..14
    "p", "q", "my-t", "u:s/types@1.0.0", "u:s/api@1.0.0", "r", "get", "baz",         // 15..22
    "n1", "n2", "n3", "t0", "t1", "a:b/c@0.2.5", "k", "u:s/types@1.1.0", "u:s/api@1.1.0", "put", "s", // 23..33
    // 34..: additional export / import names of the C01 universe
    "out", "out2", "my-i", "v:t/shapes@0.2.5", "r:s/store@1.4.0", "get2",
];

const PROVIDER: &str = r#"(component
    (core module $m (func (export "f")))
    (core instance $ci (instantiate $m))
    (func $f (canon lift (core func $ci "f")))
    (instance $i (export "x" (func $f)) (export "y" (func $f)))
    (instance $z (export "p" (func $f)) (export "q" (func $f)))
    (export "f" (func $f))
    (export "g" (func $f))
    (export "i" (instance $i))
    (export "a:b/c@0.2.1" (instance $i))
    (export "x:y/z@1.2.0" (instance $z)))"#;

macro_rules! shapes_020 { () => { r#"
        interface shapes {
            record point { x: u32, y: u32 }
            variant shape { circle(u32), poly(list<point>), none }
            enum color { red, green }
            flags perms { rd, wr }
            type pts = list<point>;
            area: func(s: shape) -> result<u32, string>;
            paint: func(p: point, c: color, f: perms) -> option<point>;
            all: func() -> pts;
            pair: func(t: tuple<point, color>) -> tuple<u32, string>;
        }"# } }
macro_rules! shapes_021 { () => { r#"
        interface shapes {
            record point { x: u32, y: u32 }
            variant shape { circle(u32), poly(list<point>), none }
            enum color { red, green }
            flags perms { rd, wr }
            type pts = list<point>;
            area: func(s: shape) -> result<u32, string>;
            paint: func(p: point, c: color, f: perms) -> option<point>;
            all: func() -> pts;
            pair: func(t: tuple<point, color>) -> tuple<u32, string>;
            count: func() -> u32;
        }"# } }
macro_rules! canvas { () => { r#"
        interface canvas {
            use shapes.{point, shape};
            draw: func(s: shape, at: point);
            origin: func() -> point;
        }"# } }
macro_rules! store { () => { r#"
        interface store {
            resource blob {
                constructor(n: u32);
                len: func() -> u32;
                merge: static func(a: blob, b: borrow<blob>) -> blob;
            }
            open: func() -> blob;
            peek: func(b: borrow<blob>) -> u32;
        }"# } }
macro_rules! user { () => { r#"
        interface user {
            use store.{blob};
            take: func(b: blob) -> u32;
            make: func() -> blob;
        }"# } }

macro_rules! same_names { () => { r#"
        interface types { record t { a: u32 } enum k { one, two } }
        interface other { enum t { x, y } }
        interface first { use types.{t}; f: func() -> t; }
        interface second { record t { b: string } flags k { p, q } g: func(v: t) -> k; }
        interface third { use other.{t}; use types.{k}; h: func(v: t) -> k; }
        interface fourth { variant t { none, some(u8) } type k = list<t>; j: func() -> k; }"# } }

pub const PKGS: &[PkgDesc] = &[
    // 0..3: the C06 universe
    PkgDesc { name: "test:a", version: None, src: Src::Wat(r#"(component
        (import "f" (func))
        (import "i" (instance (export "x" (func))))
        (alias export 0 "x" (func))
        (instance (export "h" (func 0)) (export "x" (func 1)))
        (export "g" (func 0))
        (export "inst" (instance 1)))"#) },
    PkgDesc { name: "test:b", version: Some("1.0.0"), src: Src::Wat(r#"(component
        (import "f" (func))
        (export "g" (func 0)))"#) },
    PkgDesc { name: "test:b", version: Some("2.0.0"), src: Src::Wat(r#"(component
        (import "g" (func (param "a" u32)))
        (import "f" (func))
        (export "f" (func 1)))"#) },
    PkgDesc { name: "test:c", version: None, src: Src::Wat(r#"(component
        (import "i" (instance (export "x" (func)) (export "y" (func))))
        (export "i" (instance 0)))"#) },
    // 4..7: versioned interface-style import names on same / different semver tracks
    PkgDesc { name: "test:d", version: None, src: Src::Wat(r#"(component
        (import "a:b/c@0.2.0" (instance (export "x" (func))))
        (alias export 0 "x" (func))
        (export "run" (func 0)))"#) },
    PkgDesc { name: "test:e", version: Some("0.1.0"), src: Src::Wat(r#"(component
        (import "a:b/c@0.2.1" (instance (export "x" (func)) (export "y" (func))))
        (import "f" (func))
        (export "a:b/c@0.2.1" (instance 0))
        (export "run" (func 0)))"#) },
    PkgDesc { name: "test:f", version: None, src: Src::Wat(r#"(component
        (import "a:b/c@0.3.0" (instance (export "x" (func))))
        (import "x:y/z@1.0.0" (instance (export "p" (func))))
        (alias export 1 "p" (func))
        (export "run" (func 0)))"#) },
    PkgDesc { name: "test:g", version: None, src: Src::Wat(r#"(component
        (import "x:y/z@1.2.0" (instance (export "p" (func)) (export "q" (func))))
        (import "a:b/c@0.2.5" (instance (export "y" (func))))
        (export "x:y/z@1.2.0" (instance 0)))"#) },
    // 8: provider without imports
    PkgDesc { name: "test:h", version: Some("3.1.4"), src: Src::Wat(PROVIDER) },
    // 9..11: WIT-derived, `use`-dependent interfaces
    PkgDesc { name: "u:consumer", version: Some("1.0.0"), src: Src::Wit(r#"package u:s@1.0.0;
        interface types { record r { a: u32 } }
        interface api { use types.{r}; get: func() -> r; }
        world w { import api; export run: func(); }"#) },
    PkgDesc { name: "u:producer", version: None, src: Src::Wit(r#"package u:s@1.0.0;
        interface types { record r { a: u32 } }
        interface api { use types.{r}; get: func() -> r; }
        world w { import types; export api; }"#) },
    PkgDesc { name: "u:consumer2", version: None, src: Src::Wit(r#"package u:s@1.1.0;
        interface types { record r { a: u32 } enum k { one, two } }
        interface api { use types.{r}; get: func() -> r; put: func(v: r); }
        world w { import api; import types; export run: func(); }"#) },
    // ---------------------------------------------------------------- C01 additions
    // 12: consumer of compound value types through an interface
    PkgDesc { name: "v:consumer", version: Some("0.1.0"), src: Src::Wit(concat!("package v:t@0.2.0;", shapes_020!(),
        "world w { import shapes; export run: func(); }")) },
    // 13: producer of the same interface
    PkgDesc { name: "v:producer", version: None, src: Src::Wit(concat!("package v:t@0.2.0;", shapes_020!(),
        "world w { export shapes; }")) },
    // 14 / 15: the same interface one patch version up (superset, same semver track)
    PkgDesc { name: "v:consumer-next", version: None, src: Src::Wit(concat!("package v:t@0.2.1;", shapes_021!(),
        "world w { import shapes; export run: func(); }")) },
    PkgDesc { name: "v:producer-next", version: Some("0.2.1"), src: Src::Wit(concat!("package v:t@0.2.1;", shapes_021!(),
        "world w { export shapes; }")) },
    // 16: another semver track with a different `point`
    PkgDesc { name: "v:consumer-other", version: None, src: Src::Wit(r#"package v:t@0.3.0;
        interface shapes { record point { x: u64 } all: func() -> list<point>; }
        world w { import shapes; export run: func(); }"#) },
    // 17 / 18: cross-interface `use` of records and variants
    PkgDesc { name: "v:painter", version: None, src: Src::Wit(concat!("package v:t@0.2.0;", shapes_020!(), canvas!(),
        "world w { import canvas; export run: func(); }")) },
    PkgDesc { name: "v:canvas", version: Some("1.0.0"), src: Src::Wit(concat!("package v:t@0.2.0;", shapes_020!(), canvas!(),
        "world w { import shapes; export canvas; }")) },
    // 19: adapter: imports and exports the `use`-dependent interface
    PkgDesc { name: "v:adapter", version: None, src: Src::Wit(concat!("package v:t@0.2.0;", shapes_020!(), canvas!(),
        "world w { import canvas; export canvas; }")) },
    // 20..23: resources, directly and through `use`
    PkgDesc { name: "r:consumer", version: None, src: Src::Wit(concat!("package r:s@1.0.0;", store!(),
        "world w { import store; export run: func(); }")) },
    PkgDesc { name: "r:producer", version: Some("1.0.0"), src: Src::Wit(concat!("package r:s@1.0.0;", store!(),
        "world w { export store; }")) },
    PkgDesc { name: "r:user", version: None, src: Src::Wit(concat!("package r:s@1.0.0;", store!(), user!(),
        "world w { import user; export run: func(); }")) },
    PkgDesc { name: "r:user-producer", version: None, src: Src::Wit(concat!("package r:s@1.0.0;", store!(), user!(),
        "world w { import store; export user; }")) },
    // 24: world-level `use`, function imports and exports over the used type
    PkgDesc { name: "w:uses", version: None, src: Src::Wit(concat!("package v:t@0.2.0;", shapes_020!(),
        "world w { use shapes.{point}; import mk: func() -> point; export get: func() -> point; }")) },
    // 25: world-level record and resource
    PkgDesc { name: "w:local", version: Some("0.0.1"), src: Src::Wit(r#"package w:l;
        world w { record cfg { n: u32 } import setup: func(c: cfg); resource tok; import burn: func(t: tok); export run: func(); }"#) },
    // 26: world-level record on the export side
    PkgDesc { name: "w:local-out", version: None, src: Src::Wit(r#"package w:l;
        world w { record cfg { n: u32 } export getcfg: func() -> cfg; export run: func(); }"#) },
    // 27: hand-shaped WAT: nested instance type, type export with `eq` bound, function over an exported record
    PkgDesc { name: "test:shaped", version: None, src: Src::Wat(r#"(component
        (type $rec (record (field "a" u32)))
        (import "deep" (instance $d
            (type $r (record (field "a" u32)))
            (export "rec" (type $re (eq $r)))
            (export "mk" (func (result $re)))
            (type $inner (instance (export "x" (func))))
            (export "inner" (instance (type $inner)))))
        (alias export $d "mk" (func $mk))
        (alias export $d "inner" (instance $in))
        (export "mk" (func $mk))
        (export "inner" (instance $in))
        (export "deep" (instance $d)))"#) },
    // 28: three same-typed function imports: one node can feed several arguments of one instantiation
    PkgDesc { name: "test:multi", version: None, src: Src::Wat(r#"(component
        (import "f" (func))
        (import "g" (func))
        (import "h" (func))
        (export "x" (func 0))
        (export "y" (func 1))
        (export "run" (func 2)))"#) },
    // 29..32: sibling interfaces that reuse ONE type name with different shapes; some obtain it by `use`, some define it
    PkgDesc { name: "n:first-second", version: None, src: Src::Wit(concat!("package n:m@1.0.0;", same_names!(),
        "world w { import first; import second; export run: func(); }")) },
    PkgDesc { name: "n:second-first", version: None, src: Src::Wit(concat!("package n:m@1.0.0;", same_names!(),
        "world w { import second; import first; export run: func(); }")) },
    PkgDesc { name: "n:mixed", version: Some("0.3.0"), src: Src::Wit(concat!("package n:m@1.0.0;", same_names!(),
        "world w { import first; import third; import second; import fourth; export run: func(); }")) },
    PkgDesc { name: "n:producer", version: None, src: Src::Wit(concat!("package n:m@1.0.0;", same_names!(),
        "world w { export first; export second; export third; }")) },
];

/// (package, "i"|"e", name): world items of the packages usable as kinds of explicit imports
pub const PKG_KINDS_BASE: &[(usize, &str)] = &[(4, "a:b/c@0.2.0"), (5, "a:b/c@0.2.1"), (6, "x:y/z@1.0.0"), (9, "u:s/api@1.0.0"), (10, "u:s/types@1.0.0")];
pub const PKG_KINDS_MORE: &[(usize, char, &str)] = &[
    (12, 'i', "v:t/shapes@0.2.0"), (14, 'i', "v:t/shapes@0.2.1"), (16, 'i', "v:t/shapes@0.3.0"), (17, 'i', "v:t/canvas@0.2.0"),
    (18, 'e', "v:t/canvas@0.2.0"), (20, 'i', "r:s/store@1.0.0"), (22, 'i', "r:s/user@1.0.0"), (23, 'e', "r:s/user@1.0.0"),
    (24, 'i', "mk"), (24, 'e', "get"), (24, 'i', "point"), (25, 'i', "setup"), (25, 'i', "cfg"), (25, 'i', "tok"), (25, 'i', "burn"),
    (26, 'e', "getcfg"), (27, 'i', "deep"), (11, 'i', "u:s/api@1.1.0"),
];

pub fn wit_component_bytes(wit: &str) -> Vec<u8> {
    let mut resolve = wit_parser::Resolve::default();
    let id = resolve.push_str("c01.wit", wit).unwrap_or_else(|e| panic!("wit: {e:?}\n{wit}"));
    let world = resolve.select_world(&[id], None).expect("world");
    let mut module = wit_component::dummy_module(&resolve, world, wit_parser::ManglingAndAbi::Legacy(wit_parser::LiftLowerAbi::Sync));
    wit_component::embed_component_metadata(&mut module, &resolve, world, wit_component::StringEncoding::default()).expect("metadata");
    wit_component::ComponentEncoder::default().validate(true).module(&module).expect("module").encode().expect("encode")
}

pub fn all_pkg_bytes() -> Vec<Vec<u8>> {
    PKGS.iter().map(|p| match p.src { Src::Wat(w) => wat::parse_str(w).unwrap_or_else(|e| panic!("wat {}: {e}", p.name)), Src::Wit(w) => wit_component_bytes(w) }).collect()
}
