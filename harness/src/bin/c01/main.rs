//! C01: every encoded composition is a valid component; no late validation failures.
//!
//! usage: c01 <quick|thorough> <seed> <cases_out> <impl_out> [replay_cases_in]          (supervisor)
//!        c01 --worker <tier> <seed> <cases_out> <impl_out> <replay|-> <from_index>      (one supervised child)
//!
//! The supervisor runs the worker as a child process; a case whose encoding kills the process (stack overflow,
//! abort) is recorded with `abort=<status>` and the worker is restarted after it.
//!
//! cases file: universe header (`U ...`), then one case per line:
//!   `H op;op;...`            graph-API history (c06/c02 operation syntax, concrete node ids)
//!   `W <tag> <codepoints>`   WAC document resolved against the library packages
//!   `F <relative path>`      WAC fixture of the repository, resolved with the file-system resolver as its test does
//! impl file: same header, then one line per case, tab separated `key=value` fields:
//!   res (outcome of every step / of parse+resolve), dump, shape (classification tags), argsub (arguments that fail
//!   the subtype check at encode time), and per dependency mode m in {D (define_components), I (import)}:
//!   m.enc1 / m.enc0 (validate on / off), m.same, m.valid / m.valid1 (independent validation of the bytes returned
//!   with validation off / on), m.log, m.names, m.bad (section reader).
mod lib_pkgs;
mod reader;
mod universe;

use lib_pkgs::*;
use reader::*;
use std::collections::{BTreeMap, HashMap};
use std::fmt::Write as _;
use std::io::Write;
use std::panic::{catch_unwind, AssertUnwindSafe};
use universe::*;
use wac_graph::{types::*, CompositionGraph, EncodeError, EncodeOptions, NodeId, NodeKind, PackageId};
use wacv::{enc, Rng};

#[derive(Clone, Debug, PartialEq)]
enum Op { Reg(usize), Unreg(usize, usize), Def(usize, usize), Imp(usize, usize), Inst(usize, usize), Alias(usize, usize),
    SetArg(usize, usize, usize), UnsetArg(usize, usize, usize), Export(usize, usize), Unexport(usize), Name(usize, usize), Rm(usize) }

fn show_op(o: &Op) -> String {
    match o {
        Op::Reg(p) => format!("reg {p}"), Op::Unreg(i, g) => format!("unreg {i} {g}"), Op::Def(n, t) => format!("def {n} {t}"),
        Op::Imp(n, k) => format!("imp {n} {k}"), Op::Inst(i, g) => format!("inst {i} {g}"), Op::Alias(n, e) => format!("alias {n} {e}"),
        Op::SetArg(i, a, n) => format!("setarg {i} {a} {n}"), Op::UnsetArg(i, a, n) => format!("unsetarg {i} {a} {n}"),
        Op::Export(n, e) => format!("export {n} {e}"), Op::Unexport(n) => format!("unexport {n}"), Op::Name(n, s) => format!("name {n} {s}"),
        Op::Rm(n) => format!("rm {n}"),
    }
}
fn parse_op(s: &str) -> Option<Op> {
    let f: Vec<&str> = s.split(' ').collect();
    let n = |i: usize| f[i].parse::<usize>().unwrap();
    Some(match f[0] {
        "reg" => Op::Reg(n(1)), "unreg" => Op::Unreg(n(1), n(2)), "def" => Op::Def(n(1), n(2)), "imp" => Op::Imp(n(1), n(2)),
        "inst" => Op::Inst(n(1), n(2)), "alias" => Op::Alias(n(1), n(2)), "setarg" => Op::SetArg(n(1), n(2), n(3)),
        "unsetarg" => Op::UnsetArg(n(1), n(2), n(3)), "export" => Op::Export(n(1), n(2)), "unexport" => Op::Unexport(n(1)),
        "name" => Op::Name(n(1), n(2)), "rm" => Op::Rm(n(1)), "enc" => return None, _ => panic!("bad op {s}"),
    })
}

struct Run { g: CompositionGraph, local: Local, ids: HashMap<ItemKind, usize>, pkgs: BTreeMap<(usize, usize), PackageId>, dead: bool }

fn pid_pair(p: PackageId) -> (usize, usize) {
    let s = format!("{p:?}");
    let nums: Vec<usize> = s.split(|c: char| !c.is_ascii_digit()).filter(|x| !x.is_empty()).map(|x| x.parse().unwrap()).collect();
    (nums[0], nums[1])
}
thread_local! { static LAST_PANIC_AT: std::cell::RefCell<String> = const { std::cell::RefCell::new(String::new()) }; }
/// message of a caught panic, prefixed by the source location the panic hook recorded (`@file:line `)
pub fn panic_msg(e: Box<dyn std::any::Any + Send>) -> String {
    let msg = e.downcast_ref::<String>().cloned().or_else(|| e.downcast_ref::<&str>().map(|s| s.to_string())).unwrap_or_default();
    let at = LAST_PANIC_AT.with(|c| c.borrow().clone());
    clean(&format!("@{at} {}", msg.chars().take(300).collect::<String>()))
}
fn argerr(e: &wac_graph::InstantiationArgumentError) -> &'static str {
    use wac_graph::InstantiationArgumentError::*;
    match e { NodeIsNotAnInstantiation { .. } => "NodeIsNotAnInstantiation", InvalidArgumentName { .. } => "InvalidArgumentName",
        ArgumentTypeMismatch { .. } => "ArgumentTypeMismatch", ArgumentAlreadyPassed { .. } => "ArgumentAlreadyPassed" }
}

impl Run {
    fn new(u: &Universe) -> Self {
        let (g, local) = mk_graph(&u.bytes);
        let (reps, ids) = walk(&g, &local);
        assert_eq!(reps.len(), u.nkinds, "kind numbering is not reproducible");
        Run { g, local, ids, pkgs: BTreeMap::new(), dead: false }
    }
    fn node(&self, n: usize) -> Option<NodeId> { self.g.node_ids().find(|i| i.to_string() == n.to_string()) }
    fn kid(&self, k: ItemKind) -> String { self.ids.get(&k).map(|i| i.to_string()).unwrap_or_else(|| "?".into()) }

    fn apply(&mut self, u: &Universe, op: &Op) -> String {
        match catch_unwind(AssertUnwindSafe(|| self.apply_inner(u, op))) {
            Ok(s) => s, Err(e) => { self.dead = true; format!("PANIC({})", panic_msg(e)) } }
    }
    fn apply_inner(&mut self, u: &Universe, op: &Op) -> String {
        use wac_graph::*;
        let nid = |s: &Self, n: usize| s.node(n).unwrap_or_else(|| panic!("harness: dead node id {n}"));
        let nm = |i: usize| u.names[i].as_str();
        match op {
            Op::Reg(p) => { let pk = self.local.pkgs[*p].take().unwrap_or_else(|| panic!("harness: package {p} registered twice"));
                match self.g.register_package(pk) {
                    Ok(id) => { let pr = pid_pair(id); self.pkgs.insert(pr, id); format!("pkg{}.{}", pr.0, pr.1) }
                    Err(RegisterPackageError::PackageAlreadyRegistered { .. }) => "E:PackageAlreadyRegistered".into() } }
            Op::Unreg(i, gen) => { let id = *self.pkgs.get(&(*i, *gen)).unwrap_or_else(|| panic!("harness: unknown package id")); self.g.unregister_package(id); "ok".into() }
            Op::Def(n, t) => match self.g.define_type(nm(*n), self.local.defs[*t]) {
                Ok(id) => format!("n{id}"),
                Err(DefineTypeError::TypeAlreadyDefined) => "E:TypeAlreadyDefined".into(),
                Err(DefineTypeError::CannotDefineResource) => "E:CannotDefineResource".into(),
                Err(DefineTypeError::ExportConflict { .. }) => "E:ExportConflict".into(),
                Err(DefineTypeError::InvalidExternName { .. }) => "E:InvalidExternName".into() },
            Op::Imp(n, k) => match self.g.import(nm(*n), self.local.kinds[*k]) {
                Ok(id) => format!("n{id}"),
                Err(ImportError::ImportAlreadyExists { node, .. }) => format!("E:ImportAlreadyExists({node})"),
                Err(ImportError::InvalidImportName { .. }) => "E:InvalidImportName".into() },
            Op::Inst(i, gen) => { let id = *self.pkgs.get(&(*i, *gen)).unwrap_or_else(|| panic!("harness: unknown package id")); format!("n{}", self.g.instantiate(id)) }
            Op::Alias(n, e) => match self.g.alias_instance_export(nid(self, *n), nm(*e)) {
                Ok(id) => format!("n{id}"),
                Err(AliasError::NodeIsNotAnInstance { .. }) => "E:NodeIsNotAnInstance".into(),
                Err(AliasError::InstanceMissingExport { .. }) => "E:InstanceMissingExport".into() },
            Op::SetArg(i, a, n) => match self.g.set_instantiation_argument(nid(self, *i), nm(*a), nid(self, *n)) {
                Ok(()) => "ok".into(), Err(e) => format!("E:{}", argerr(&e)) },
            Op::UnsetArg(i, a, n) => match self.g.unset_instantiation_argument(nid(self, *i), nm(*a), nid(self, *n)) {
                Ok(()) => "ok".into(), Err(e) => format!("E:{}", argerr(&e)) },
            Op::Export(n, e) => match self.g.export(nid(self, *n), nm(*e)) {
                Ok(()) => "ok".into(),
                Err(ExportError::ExportAlreadyExists { node, .. }) => format!("E:ExportAlreadyExists({node})"),
                Err(ExportError::InvalidExportName { .. }) => "E:InvalidExportName".into() },
            Op::Unexport(n) => match self.g.unexport(nid(self, *n)) { Ok(()) => "ok".into(), Err(UnexportError::MustExportDefinition) => "E:MustExportDefinition".into() },
            Op::Name(n, s) => { self.g.set_node_name(nid(self, *n), nm(*s)); "ok".into() }
            Op::Rm(n) => { self.g.remove_node(nid(self, *n)); "ok".into() }
        }
    }

    /// final state through the public queries only (same layout as the C06 dump, sections N A L I E P)
    fn dump(&self, u: &Universe) -> String { catch_unwind(AssertUnwindSafe(|| self.dump_inner(u))).unwrap_or_else(|_| "DUMP-PANIC".into()) }
    fn dump_inner(&self, u: &Universe) -> String {
        let g = &self.g;
        let opt_name = |s: Option<&str>| s.map(|x| u.nidx(x).to_string()).unwrap_or("-".into());
        let mut o = String::new();
        o.push_str("N[");
        for id in g.node_ids() {
            let n = &g[id];
            let tag = match n.kind() { NodeKind::Definition => "D", NodeKind::Import(_) => "I", NodeKind::Instantiation(_) => "S", NodeKind::Alias => "A" };
            let pk = n.package().map(|p| { let (a, b) = pid_pair(p); format!("{a}.{b}") }).unwrap_or("-".into());
            write!(o, "{id}:{tag}:{pk}:{}:{}:{}:{},", self.kid(n.item_kind()), opt_name(n.export_name()), opt_name(n.name()), opt_name(n.import_name())).unwrap();
        }
        o.push_str("]A[");
        for id in g.node_ids() {
            let args: Vec<String> = g.get_instantiation_arguments(id).map(|(n, s)| format!("{}={s}", u.nidx(n))).collect();
            if !args.is_empty() { write!(o, "{id}:({}),", args.join(",")).unwrap(); }
        }
        o.push_str("]L[");
        for id in g.node_ids() { if let Some((s, e)) = g.get_alias_source(id) { write!(o, "{id}:{s}.{},", u.nidx(e)).unwrap(); } }
        o.push_str("]I[");
        for (n, k, nd) in g.imports() { write!(o, "({},{},{}),", u.nidx(n), self.kid(k), nd.map(|x| x.to_string()).unwrap_or("-".into())).unwrap(); }
        o.push_str("]E[");
        for (i, n) in u.names.iter().enumerate() { if let Some(x) = g.get_export(n) { write!(o, "{i}={x},").unwrap(); } }
        o.push_str("]P[");
        for (i, p) in PKGS.iter().enumerate() {
            let v = p.version.map(|v| semver::Version::parse(v).unwrap());
            if let Some((id, _)) = g.get_package_by_name(p.name, v.as_ref()) { let (a, b) = pid_pair(id); write!(o, "{i}={a}.{b},").unwrap(); }
        }
        o.push(']');
        o
    }
}

// ------------------------------------------------------------------ classification tags of a composition graph

/// what the property's failure signatures are keyed on: for every export, explicit import, unsatisfied argument and
/// definition of the final graph, its class and whether its type mentions value types that must be *named*
fn shape_of(g: &CompositionGraph) -> String {
    catch_unwind(AssertUnwindSafe(|| shape_inner(g))).unwrap_or_else(|_| "SHAPE-PANIC".into())
}
/// `+nn`: a function (at any depth) mentions a value type that must be named; `+h`: ... a resource handle;
/// `+res`: an instance exports a resource; `+id` / `+noid`: interface / world identifier present or not; `+uses`
fn inst_flags(types: &Types, id: InterfaceId, nn: &mut bool, h: &mut bool, res: &mut bool, depth: usize) {
    if depth > 6 { return; }
    for e in types[id].exports.values() {
        match e {
            ItemKind::Func(f) => { if func_needs_named(types, *f) { *nn = true; } if func_has_handle(types, *f) { *h = true; } }
            ItemKind::Type(Type::Resource(_)) => *res = true,
            ItemKind::Instance(i) => inst_flags(types, *i, nn, h, res, depth + 1),
            _ => {}
        }
    }
}
fn kind_tag(types: &Types, k: ItemKind) -> String {
    let ff = |f: FuncTypeId| format!("{}{}", if func_needs_named(types, f) { "+nn" } else { "" }, if func_has_handle(types, f) { "+h" } else { "" });
    match k {
        ItemKind::Func(f) => format!("func{}", ff(f)),
        ItemKind::Instance(id) => {
            let i = &types[id];
            let (mut nn, mut h, mut res) = (false, false, false);
            inst_flags(types, id, &mut nn, &mut h, &mut res, 0);
            format!("instance{}{}{}{}{}", if i.id.is_some() { "+id" } else { "" }, if !i.uses.is_empty() { "+uses" } else { "" },
                if nn { "+nn" } else { "" }, if h { "+h" } else { "" }, if res { "+res" } else { "" })
        }
        ItemKind::Type(Type::Resource(_)) => "type+res".into(),
        ItemKind::Type(Type::Value(v)) => format!("type+val{}", if needs_named(types, v) { "+nn" } else { "" }),
        ItemKind::Type(Type::Func(f)) => format!("type+func{}", ff(f)),
        ItemKind::Type(Type::Interface(id)) => format!("type+iface{}{}", if types[id].id.is_some() { "+id" } else { "+noid" }, if !types[id].uses.is_empty() { "+uses" } else { "" }),
        ItemKind::Type(Type::World(id)) => format!("type+world{}{}", if types[id].id.is_some() { "+id" } else { "+noid" }, if !types[id].uses.is_empty() { "+uses" } else { "" }),
        ItemKind::Type(Type::Module(_)) => "type+module".into(),
        ItemKind::Component(_) => "component".into(),
        ItemKind::Module(_) => "module".into(),
        ItemKind::Value(_) => "value".into(),
    }
}
/// a world whose function imports / exports mention compound types that the world itself neither imports/exports as
/// a type nor obtains by `use` (they are reachable only through an imported or exported instance)
fn world_foreign_func_types(types: &Types, w: &World) -> bool {
    let mut named: Vec<ValueType> = Vec::new();
    for k in w.imports.values().chain(w.exports.values()) { if let ItemKind::Type(Type::Value(v)) = k { named.push(*v); } }
    fn ok(types: &Types, named: &[ValueType], v: ValueType) -> bool {
        if named.contains(&v) { return true; }
        match v {
            ValueType::Primitive(_) => true,
            ValueType::Borrow(_) | ValueType::Own(_) => true,
            ValueType::Defined(id) => match &types[id] {
                DefinedType::Record(_) | DefinedType::Variant(_) | DefinedType::Enum(_) | DefinedType::Flags(_) => false,
                DefinedType::Alias(a) | DefinedType::List(a) | DefinedType::Option(a) | DefinedType::FixedSizeList(a, _) => ok(types, named, *a),
                DefinedType::Tuple(ts) => ts.iter().all(|t| ok(types, named, *t)),
                DefinedType::Result { ok: o, err } => o.map(|t| ok(types, named, t)).unwrap_or(true) && err.map(|t| ok(types, named, t)).unwrap_or(true),
                DefinedType::Stream(a) | DefinedType::Future(a) => a.map(|t| ok(types, named, t)).unwrap_or(true),
            },
        }
    }
    w.imports.values().chain(w.exports.values()).any(|k| match k {
        ItemKind::Func(f) => { let f = &types[*f]; !(f.params.values().all(|t| ok(types, &named, *t)) && f.result.map(|t| ok(types, &named, t)).unwrap_or(true)) }
        _ => false })
}
fn shape_inner(g: &CompositionGraph) -> String {
    let types = g.types();
    let mut tags: Vec<String> = Vec::new();
    for id in g.node_ids() {
        let n = &g[id];
        let tag = match n.kind() { NodeKind::Definition => "D", NodeKind::Import(_) => "I", NodeKind::Instantiation(_) => "S", NodeKind::Alias => "A" };
        let kt = kind_tag(types, n.item_kind());
        if let Some(_e) = n.export_name() { tags.push(format!("X:{tag}:{kt}")); }
        match n.kind() {
            NodeKind::Import(_) => tags.push(format!("M:{kt}")),
            NodeKind::Definition => tags.push(format!("D:{kt}")),
            NodeKind::Instantiation(_) => {
                let w = &types[g[n.package().unwrap()].ty()];
                if !w.uses.is_empty() { tags.push("S:world+uses".into()); }
                if world_foreign_func_types(types, w) { tags.push("S:world+foreign-func-types".into()); }
                // does an explicit argument come from an instantiation (directly or through aliases) rather than from an import
                for (_, src) in g.get_instantiation_arguments(id) {
                    let mut cur = src; for _ in 0..64 { match g.get_alias_source(cur) { Some((s, _)) => cur = s, None => break } }
                    let from = match g[cur].kind() { NodeKind::Instantiation(_) => "inst", NodeKind::Import(_) => "import", _ => "other" };
                    tags.push(format!("G:{from}:{}", kind_tag(types, g[src].item_kind())));
                }
            }
            _ => {}
        }
    }
    // definitions whose named components are not all defined themselves (own traversal of the type structure)
    let defined: Vec<Type> = g.node_ids().filter(|id| matches!(g[*id].kind(), NodeKind::Definition)).filter_map(|id| match g[id].item_kind() { ItemKind::Type(t) => Some(t), _ => None }).collect();
    for t in &defined {
        let mut deps = Vec::new();
        match t {
            Type::Value(v) => named_components(types, *v, true, 0, &mut deps),
            Type::Func(f) => { let f = &types[*f]; for v in f.params.values().chain(f.result.iter()) { named_components(types, *v, false, 0, &mut deps); } }
            _ => {}
        }
        if deps.iter().any(|(d, _)| !defined.contains(&Type::Value(ValueType::Defined(*d)))) { tags.push("D:undef-dep".into()); }
        if deps.iter().any(|(d, deep)| *deep && defined.contains(&Type::Value(ValueType::Defined(*d)))) { tags.push("D:deep-dep".into()); }
    }
    let all: Vec<(&str, ItemKind, Option<NodeId>)> = g.imports().collect();
    for (_, k, nd) in &all { if nd.is_none() { tags.push(format!("U:{}", kind_tag(types, *k))); } }
    for (i, (n1, k1, _)) in all.iter().enumerate() { for (n2, k2, _) in all.iter().skip(i + 1) {
        // one name required at two different kinds (two packages with their own copy of a type / interface)
        if n1 == n2 && k1 != k2 { tags.push(format!("SHARED:{}", kind_tag(types, *k1))); }
        // two names on one semver track whose kinds are different interfaces
        if n1 != n2 && wac_graph::types::are_semver_compatible(n1, n2) {
            if let (ItemKind::Instance(a), ItemKind::Instance(b)) = (k1, k2) {
                if types[*a].id != types[*b].id { tags.push(format!("TRACKMIX{}", if !types[*a].uses.is_empty() || !types[*b].uses.is_empty() { "+uses" } else { "" })); }
            }
        }
    }}
    tags.sort(); tags.dedup();
    tags.join(",")
}

/// every argument edge re-checked against the import it satisfies, at encode time (real SubtypeChecker)
fn argsub_of(g: &CompositionGraph) -> String {
    catch_unwind(AssertUnwindSafe(|| {
        let mut bad = Vec::new();
        for id in g.node_ids() {
            let n = &g[id];
            if !matches!(n.kind(), NodeKind::Instantiation(_)) { continue; }
            let w = &g.types()[g[n.package().unwrap()].ty()];
            for (name, src) in g.get_instantiation_arguments(id) {
                let want = w.imports[name];
                let mut cache = Default::default();
                let mut c = SubtypeChecker::new(&mut cache);
                if c.is_subtype(g[src].item_kind(), g.types(), want, g.types()).is_err() { bad.push(format!("{id}.{}<-{src}", enc(name))); }
            }
        }
        bad.join(",")
    })).unwrap_or_else(|_| "ARGSUB-PANIC".into())
}

fn encode_once(g: &CompositionGraph, define: bool, validate: bool) -> (String, Option<Vec<u8>>) {
    let r = catch_unwind(AssertUnwindSafe(|| g.encode(EncodeOptions { define_components: define, validate, processor: None })));
    match r {
        Ok(Ok(b)) => ("ok".into(), Some(b)),
        Ok(Err(EncodeError::ValidationFailure { source })) => (format!("E:ValidationFailure({})", clean(&source.to_string())), None),
        Ok(Err(EncodeError::GraphContainsCycle { node })) => (format!("E:GraphContainsCycle({node})"), None),
        Ok(Err(EncodeError::ImplicitImportConflict { import, instantiation, name, .. })) => (format!("E:ImplicitImportConflict({import},{instantiation},{})", enc(&name)), None),
        Ok(Err(EncodeError::ImportTypeMergeConflict { import, first, second, .. })) => (format!("E:ImportTypeMergeConflict({},{first},{second})", enc(&import)), None),
        Err(e) => (format!("PANIC({})", panic_msg(e)), None),
    }
}

/// the four option combinations on one graph
fn encode_all(g: &CompositionGraph, lib: &[Vec<u8>], f: &mut Vec<String>) { encode_all_with(&|d, v| encode_once(g, d, v), lib, f) }

/// documents are encoded through `Resolution::encode` (the observation point the property names)
fn encode_resolution(r: &wac_parser::resolution::Resolution, define: bool, validate: bool) -> (String, Option<Vec<u8>>) {
    use wac_parser::resolution::Error as RE;
    match catch_unwind(AssertUnwindSafe(|| r.encode(EncodeOptions { define_components: define, validate, processor: None }))) {
        Ok(Ok(b)) => ("ok".into(), Some(b)),
        Ok(Err(RE::ValidationFailure { source })) => (format!("E:ValidationFailure({})", clean(&source.to_string())), None),
        Ok(Err(RE::ImportConflict { name, .. })) => (format!("E:ImplicitImportConflict({})", enc(&name)), None),
        Ok(Err(RE::InstantiationArgMergeFailure { name, .. })) => (format!("E:ImportTypeMergeConflict({})", enc(&name)), None),
        Ok(Err(e)) => (format!("E:Other({})", clean(&e.to_string())), None),
        Err(e) => (format!("PANIC({})", panic_msg(e)), None),
    }
}

fn encode_all_with(encode: &dyn Fn(bool, bool) -> (String, Option<Vec<u8>>), lib: &[Vec<u8>], f: &mut Vec<String>) {
    // what is known before the (possibly fatal) encoding: read by the supervisor when the process dies
    if let Ok(p) = std::env::var("C01_PRE") { let _ = std::fs::write(p, f.iter().filter(|x| x.starts_with("shape=") || x.starts_with("res=")).cloned().collect::<Vec<_>>().join("\t")); }
    for (m, define) in [("D", true), ("I", false)] {
        let (r1, b1) = encode(define, true);
        let (r0, b0) = encode(define, false);
        f.push(format!("{m}.enc1={r1}")); f.push(format!("{m}.enc0={r0}"));
        f.push(format!("{m}.same={}", match (&b1, &b0) { (Some(a), Some(b)) => (a == b) as u8, _ => 2 }));
        if let Some(b) = b0.as_ref() { f.push(format!("{m}.valid={}", validate_independently(b))); }
        if let Some(b) = b1.as_ref() { if b0.as_ref() != Some(b) { f.push(format!("{m}.valid1={}", validate_independently(b))); } }
        if let Some(b) = b0.as_ref().or(b1.as_ref()) {
            let rd = catch_unwind(AssertUnwindSafe(|| read_component(b, lib))).unwrap_or_else(|e| Reading { bad: vec![format!("reader-panic({})", panic_msg(e))], ..Default::default() });
            f.push(format!("{m}.log={}", rd.log.join(";")));
            f.push(format!("{m}.names={}", rd.names.join(";")));
            f.push(format!("{m}.bad={}", rd.bad.join(";").replace('\t', " ")));
            if std::env::var("C01_WAT").is_ok() { let mut out = String::new(); let mut cfg = wasmprinter::Config::new(); cfg.print_offsets(true);
                let _ = cfg.print(b, &mut wasmprinter::PrintFmtWrite(&mut out)); eprintln!("--- {m} --- {}\n{out}", validate_independently(b)); }
        }
    }
}

fn observe_history(u: &Universe, ops: &[Op]) -> String {
    let mut run = Run::new(u);
    let mut res = Vec::new();
    for o in ops { if run.dead { res.push("SKIPPED".to_string()); continue; } res.push(run.apply(u, o)); }
    let mut f = vec![format!("res={}", res.join(";"))];
    if run.dead { f.push("dead=1".into()); return f.join("\t"); }
    f.push(format!("dump={}", run.dump(u)));
    f.push(format!("shape={}", shape_of(&run.g)));
    f.push(format!("argsub={}", argsub_of(&run.g)));
    encode_all(&run.g, &u.bytes, &mut f);
    f.join("\t")
}

// ------------------------------------------------------------------ WAC documents

fn dec(s: &str) -> String { if s == "-" { String::new() } else { s.split(',').map(|x| char::from_u32(x.parse().unwrap()).unwrap()).collect() } }

fn observe_resolution(r: &wac_parser::resolution::Resolution, lib: &[Vec<u8>]) -> String {
    let g = r.graph();
    let mut f = vec!["res=ok".to_string(), format!("shape={}", shape_of(g)), format!("argsub={}", argsub_of(g))];
    encode_all_with(&|d, v| encode_resolution(r, d, v), lib, &mut f);
    f.join("\t")
}

fn observe_doc(u: &Universe, src: &str) -> String {
    let r = catch_unwind(AssertUnwindSafe(|| -> Result<String, String> {
        let doc = wac_parser::Document::parse(src).map_err(|e| format!("E:parse({})", clean(&e.to_string())))?;
        let mut packages: indexmap::IndexMap<BorrowedPackageKey, Vec<u8>> = Default::default();
        let vs: Vec<Option<semver::Version>> = PKGS.iter().map(|p| p.version.map(|v| semver::Version::parse(v).unwrap())).collect();
        for (i, p) in PKGS.iter().enumerate() { packages.insert(BorrowedPackageKey::from_name_and_version(p.name, vs[i].as_ref()), u.bytes[i].clone()); }
        let res = doc.resolve(packages).map_err(|e| format!("E:resolve({})", clean(&e.to_string())))?;
        Ok(observe_resolution(&res, &u.bytes))
    }));
    match r {
        Ok(Ok(s)) => s,
        Ok(Err(e)) => format!("res={e}"),
        Err(e) => format!("res=PANIC({})", panic_msg(e)),
    }
}

fn observe_fixture(u: &Universe, rel: &str) -> String {
    let repo = std::env::var("VERIF_REPO").unwrap_or_else(|_| "/repo".into());
    let path = std::path::Path::new(&repo).join(rel);
    let r = catch_unwind(AssertUnwindSafe(|| -> Result<String, String> {
        let src = std::fs::read_to_string(&path).map_err(|e| format!("E:io({e})"))?.replace("\r\n", "\n");
        let doc = wac_parser::Document::parse(&src).map_err(|e| format!("E:parse({})", clean(&e.to_string())))?;
        let root = path.parent().unwrap().join(path.file_stem().unwrap());
        let root = if root.is_dir() { root } else { path.parent().unwrap().join("deps") };
        let resolver = wac_resolver::FileSystemPackageResolver::new(root, Default::default(), true);
        let keys = wac_resolver::packages(&doc).map_err(|e| format!("E:packages({})", clean(&e.to_string())))?;
        let packages = resolver.resolve(&keys).map_err(|e| format!("E:fs({})", clean(&e.to_string())))?;
        let res = doc.resolve(packages).map_err(|e| format!("E:resolve({})", clean(&e.to_string())))?;
        Ok(observe_resolution(&res, &u.bytes))
    }));
    match r {
        Ok(Ok(s)) => s,
        Ok(Err(e)) => format!("res={e}"),
        Err(e) => format!("res=PANIC({})", panic_msg(e)),
    }
}

// ------------------------------------------------------------------ generators

/// package families: members can be wired to each other
const FAMILIES: &[&[usize]] = &[
    &[0, 1, 2, 3, 8], &[4, 5, 6, 7, 8], &[9, 10, 11], &[0, 3, 4, 5, 8], &[4, 5, 7, 9, 10, 11],
    &[12, 13, 14, 15], &[12, 13, 17, 18, 19], &[13, 15, 17, 18, 24], &[12, 14, 16, 13], &[17, 18, 19, 24, 13],
    &[20, 21, 22, 23], &[20, 21, 22, 23, 8], &[24, 13, 12], &[25, 26, 27, 8], &[27, 9, 10], &[12, 13, 20, 21, 25],
    &[13, 17, 18], &[21, 22, 23],
    &[28, 8, 1, 2], &[28, 8, 0], &[29, 30, 31, 32], &[29, 32], &[30, 31, 32, 8], &[28, 8, 29],
];
const EXPORT_NAMES: &[usize] = &[0, 1, 2, 3, 4, 6, 7, 8, 9, 11, 14, 19, 22, 34, 35];
const NODE_NAMES: &[usize] = &[23, 24, 25, 6, 3];
const PLAIN_IMPORT_NAMES: &[usize] = &[0, 1, 2, 17, 29, 36];

struct Gen<'a> { u: &'a Universe, run: Run, ops: Vec<Op>, regs: Vec<(usize, (usize, usize))>, born: HashMap<usize, usize>, clock: usize }

#[derive(Clone)]
struct LiveNode { id: usize, tag: char, kid: usize, pkg: Option<usize> }

impl<'a> Gen<'a> {
    fn new(u: &'a Universe) -> Self { Gen { u, run: Run::new(u), ops: vec![], regs: vec![], born: HashMap::new(), clock: 0 } }
    fn live(&self) -> Vec<LiveNode> {
        self.run.g.node_ids().map(|id| {
            let n = &self.run.g[id];
            let tag = match n.kind() { NodeKind::Definition => 'D', NodeKind::Import(_) => 'I', NodeKind::Instantiation(_) => 'S', NodeKind::Alias => 'A' };
            let pkg = if tag == 'S' { n.package().and_then(|p| { let pr = pid_pair(p); self.regs.iter().find(|(_, x)| *x == pr).map(|(q, _)| *q) }) } else { None };
            LiveNode { id: id.to_string().parse().unwrap(), tag, kid: self.run.kid(n.item_kind()).parse().unwrap_or(usize::MAX), pkg }
        }).collect()
    }
    /// creation time of the instantiation an alias chain starts from (0 for imports / definitions)
    fn root_time(&self, id: usize) -> usize {
        let mut cur = match self.run.node(id) { Some(n) => n, None => return 0 };
        for _ in 0..64 {
            match self.run.g.get_alias_source(cur) { Some((s, _)) => cur = s, None => break }
        }
        if matches!(self.run.g[cur].kind(), NodeKind::Instantiation(_)) { *self.born.get(&cur.to_string().parse::<usize>().unwrap()).unwrap_or(&0) } else { 0 }
    }
    /// apply on the real graph; keep the op in the history when `keep_rejected` or it was accepted
    fn try_op(&mut self, o: Op, keep_rejected: bool) -> Option<String> {
        if self.run.dead { return None; }
        let res = self.run.apply(self.u, &o);
        let ok = !res.starts_with("E:");
        if let (Op::Reg(p), true) = (&o, ok) { let pr: Vec<usize> = res[3..].split('.').map(|x| x.parse().unwrap()).collect(); self.regs.push((*p, (pr[0], pr[1]))); }
        if let (Op::Unreg(i, g), true) = (&o, ok) { self.regs.retain(|(_, x)| *x != (*i, *g)); }
        if ok && matches!(o, Op::Def(..) | Op::Imp(..) | Op::Inst(..) | Op::Alias(..)) {
            if let Ok(id) = res[1..].parse::<usize>() { self.clock += 1; self.born.entry(id).or_insert(self.clock); if !matches!(o, Op::Alias(..)) { self.born.insert(id, self.clock); } }
        }
        if ok && matches!(o, Op::Rm(..) | Op::Unreg(..)) { let live: Vec<usize> = self.run.g.node_ids().map(|i| i.to_string().parse().unwrap()).collect(); self.born.retain(|k, _| live.contains(k)); }
        if ok || keep_rejected || self.run.dead { self.ops.push(o); }
        if ok { Some(res) } else { None }
    }
}

fn gen_history(u: &Universe, r: &mut Rng, big: bool) -> Vec<Op> {
    let mut g = Gen::new(u);
    let fam: Vec<usize> = if r.chance(1, 7) { let a = *r.pick(FAMILIES); let b = *r.pick(FAMILIES); a.iter().chain(b.iter()).copied().collect() } else { r.pick(FAMILIES).to_vec() };
    let npk = 2 + r.below(fam.len().min(5) as u64 - 1) as usize;
    let mut chosen: Vec<usize> = Vec::new();
    let mut guard = 0;
    while chosen.len() < npk && guard < 50 { guard += 1; let p = *r.pick(&fam); if !chosen.contains(&p) { chosen.push(p); } }
    for p in &chosen { g.try_op(Op::Reg(*p), true); }
    let removals = r.chance(1, 3);
    let steps = if big { 16 + r.below(30) } else { 8 + r.below(18) } as usize;
    for _ in 0..steps {
        if g.run.dead { break; }
        let live = g.live();
        let insts: Vec<&LiveNode> = live.iter().filter(|n| n.tag == 'S').collect();
        let instance_like: Vec<&LiveNode> = live.iter().filter(|n| u.inst_exports.contains_key(&n.kid)).collect();
        // one node feeds several arguments of one instantiation; some are unset again, not in the order they were set
        if r.chance(1, 5) {
            let cands: Vec<(&LiveNode, &LiveNode)> = insts.iter().filter_map(|i| {
                let p = i.pkg?;
                let t_i = *g.born.get(&i.id).unwrap_or(&0);
                let srcs: Vec<&LiveNode> = live.iter().filter(|n| n.id != i.id && g.root_time(n.id) < t_i
                    && u.pkg_imports[p].iter().filter(|(_, ak)| u.sub.contains(&(n.kid, *ak))).count() >= 2).collect();
                if srcs.is_empty() { None } else { Some((*i, srcs[r.below(srcs.len() as u64) as usize])) }
            }).collect();
            if !cands.is_empty() {
                let (i, n) = cands[r.below(cands.len() as u64) as usize];
                let p = i.pkg.unwrap();
                let mut names: Vec<usize> = u.pkg_imports[p].iter().filter(|(_, ak)| u.sub.contains(&(n.kid, *ak))).map(|x| x.0).collect();
                for k in (1..names.len()).rev() { let j = r.below(k as u64 + 1) as usize; names.swap(k, j); }
                let mut set: Vec<usize> = Vec::new();
                for a in &names { if g.try_op(Op::SetArg(i.id, *a, n.id), false).is_some() { set.push(*a); } }
                if set.len() >= 2 && r.chance(4, 5) {
                    let nun = 1 + r.below(set.len() as u64 - 1) as usize;
                    let mut unset = Vec::new();
                    for _ in 0..nun { if set.is_empty() { break; } let j = r.below(set.len() as u64) as usize; let a = set.remove(j);
                        g.try_op(Op::UnsetArg(i.id, a, n.id), true); unset.push(a); }
                    if r.chance(1, 3) { if let Some(a) = unset.first() { g.try_op(Op::SetArg(i.id, *a, n.id), false); } }
                }
                continue;
            }
        }
        // a composite definition and the definitions it depends on, in a random order, optionally through a slot freed by a removal
        if r.chance(1, 9) {
            const CHAINS: &[&[usize]] = &[&[24, 6, 23], &[25, 8, 9], &[26, 23], &[27, 6, 23], &[28, 23, 8], &[29, 9, 23], &[30, 23],
                &[31, 28, 29, 23, 8, 9], &[7, 6], &[10, 6], &[11, 6], &[2, 0, 1], &[12, 6, 8], &[13, 6, 11]];
            let chain = *r.pick(CHAINS);
            let mut order: Vec<usize> = chain.to_vec();
            for k in (1..order.len()).rev() { let j = r.below(k as u64 + 1) as usize; order.swap(k, j); }
            let mut names: Vec<usize> = vec![6, 7, 22, 26, 27, 20, 34, 35, 33];
            let dummy = if r.chance(1, 2) { g.try_op(Op::Def(names.pop().unwrap(), *r.pick(&[3usize, 4, 5])), false).map(|res| res[1..].parse::<usize>().unwrap()) } else { None };
            for (k, t) in order.iter().enumerate() {
                if k == 1 { if let Some(d) = dummy { g.try_op(Op::Rm(d), true); } }
                if let Some(nm) = names.pop() { g.try_op(Op::Def(nm, *t), false); }
            }
            continue;
        }
        let c = r.below(100);
        if c < 20 || (insts.is_empty() && c < 55) {
            if g.regs.is_empty() { continue; }
            let (_, (s, gen)) = *r.pick(&g.regs); g.try_op(Op::Inst(s, gen), true);
        } else if c < 27 {
            let t = r.below(u.ndefs as u64) as usize;
            g.try_op(Op::Def(*r.pick(&[6usize, 7, 22, 26, 27, 20, 34]), t), r.chance(1, 3));
        } else if c < 38 {
            let k = r.below(u.nlocal_kinds as u64) as usize;
            let kid = u.lkind_ids[k];
            // kinds that carry an interface id: usually under their own id, sometimes a plain name or another version of the track
            let n = match u.iid.get(&kid) {
                Some(iid) => { let own = u.nidx(iid); let mut c = vec![own, own, own, own, 17, 36];
                    if iid.starts_with("a:b/c@0.2") { c.extend([10usize, 11, 28]); }
                    if iid.starts_with("x:y/z@1") { c.push(14); }
                    if iid.starts_with("v:t/shapes@0.2") { c.extend([u.nidx("v:t/shapes@0.2.0"), u.nidx("v:t/shapes@0.2.1"), 37]); }
                    if iid.starts_with("r:s/store@1") { c.push(38); }
                    *r.pick(&c) }
                None => if r.chance(1, 2) { *r.pick(PLAIN_IMPORT_NAMES) } else {
                    // the name under which some registered package imports something
                    let all: Vec<usize> = g.regs.iter().flat_map(|(p, _)| u.pkg_imports[*p].iter().filter(|x| u.sub.contains(&(kid, x.1))).map(|x| x.0)).collect();
                    if all.is_empty() { *r.pick(PLAIN_IMPORT_NAMES) } else { *r.pick(&all) } }
            };
            g.try_op(Op::Imp(n, k), r.chance(1, 3));
        } else if c < 55 && !instance_like.is_empty() {
            let s = *r.pick(&instance_like);
            let ex = &u.inst_exports[&s.kid];
            if !ex.is_empty() { let e = r.pick(ex).0; g.try_op(Op::Alias(s.id, e), false); }
        } else if c < 80 && !insts.is_empty() {
            let i = *r.pick(&insts);
            let Some(p) = i.pkg else { continue };
            let imps = &u.pkg_imports[p];
            if imps.is_empty() { continue; }
            let (an, ak) = *r.pick(imps);
            let wild = r.chance(1, 20);
            let t_i = *g.born.get(&i.id).unwrap_or(&0);
            let mut cands: Vec<&LiveNode> = live.iter().filter(|n| n.id != i.id && (wild || (u.sub.contains(&(n.kid, ak)) && g.root_time(n.id) < t_i))).collect();
            if cands.is_empty() && r.chance(1, 2) {
                // create a source: alias the wanted export from some instance that has it
                for s in instance_like.iter().filter(|s| g.root_time(s.id) < t_i) { if u.inst_exports[&s.kid].iter().any(|(en, ek)| *en == an && u.sub.contains(&(*ek, ak))) {
                    if let Some(res) = g.try_op(Op::Alias(s.id, an), false) { let id: usize = res[1..].parse().unwrap(); g.try_op(Op::SetArg(i.id, an, id), false); }
                    break; } }
                continue;
            }
            for _ in 0..4 { if cands.is_empty() { break; } let j = r.below(cands.len() as u64) as usize; let n = cands.swap_remove(j);
                if g.try_op(Op::SetArg(i.id, an, n.id), r.chance(1, 6)).is_some() { break; } }
        } else if c < 90 && !live.is_empty() {
            let n = r.pick(&live);
            // a definition under an additional name is a known finding (C02): keep it rare
            if n.tag != 'D' || r.chance(1, 10) {
                // mostly export functions and instances (what a composition exports), sometimes anything
                if matches!(u.class[n.kid.min(u.class.len() - 1)], "func" | "instance") || r.chance(1, 3) { g.try_op(Op::Export(n.id, *r.pick(EXPORT_NAMES)), r.chance(1, 4)); }
            }
        } else if c < 93 && !live.is_empty() {
            g.try_op(Op::Name(r.pick(&live).id, *r.pick(NODE_NAMES)), true);
        } else if removals && !live.is_empty() {
            match r.below(10) {
                0..=3 => { g.try_op(Op::Rm(r.pick(&live).id), true); }
                4..=5 => { g.try_op(Op::Unexport(r.pick(&live).id), true); }
                6..=7 => { // unset an existing argument
                    let mut done = false;
                    for i in &insts { if done { break; }
                        let nid = g.run.node(i.id).unwrap();
                        let args: Vec<(usize, usize)> = g.run.g.get_instantiation_arguments(nid).map(|(n, s)| (u.nidx(n), s.to_string().parse().unwrap())).collect();
                        if !args.is_empty() { let (a, s) = args[r.below(args.len() as u64) as usize]; g.try_op(Op::UnsetArg(i.id, a, s), true); done = true; } } }
                8 => { if let Some((_, (s, gen))) = g.regs.first().copied() { if g.regs.len() > 1 { g.try_op(Op::Unreg(s, gen), true); } } }
                _ => { let unreg: Vec<usize> = chosen.iter().copied().filter(|p| !g.regs.iter().any(|(q, _)| q == p) && g.run.local.pkgs[*p].is_some()).collect();
                       if let Some(p) = unreg.first() { g.try_op(Op::Reg(*p), true); } }
            }
        }
    }
    // usually wire explicit imports to the arguments of the same name (otherwise: ImplicitImportConflict)
    if r.chance(5, 6) && !g.run.dead {
        let live = g.live();
        for i in live.iter().filter(|n| n.tag == 'S') {
            let Some(p) = i.pkg else { continue };
            for (an, _) in u.pkg_imports[p].clone() {
                let name = &u.names[an];
                let imp = live.iter().find(|n| n.tag == 'I' && g.run.node(n.id).map(|x| g.run.g[x].import_name() == Some(name.as_str())).unwrap_or(false));
                if let Some(n) = imp { if !g.run.dead { g.try_op(Op::SetArg(i.id, an, n.id), false); } }
            }
        }
    }
    g.ops
}

/// WAC documents over the library: instantiate a family in order, wire by name through `...` spreads and explicit
/// named arguments, export functions / instances / everything
fn gen_doc(u: &Universe, r: &mut Rng) -> String {
    let fam = *r.pick(FAMILIES);
    let n = 1 + r.below(4) as usize;
    let mut s = String::from("package test:comp;\n");
    let mut lets: Vec<(String, usize)> = Vec::new();
    // optional explicit imports
    if r.chance(1, 3) {
        let p = *r.pick(fam);
        if let Some((an, _)) = u.pkg_imports[p].first() {
            let name = &u.names[*an];
            if name.contains('/') { let path = name.split('@').next().unwrap(); let _ = writeln!(s, "import imp0 as \"{name}\": {path};"); let _ = path; }
        }
    }
    for i in 0..n {
        let p = *r.pick(fam);
        let key = match PKGS[p].version { Some(v) => format!("{}@{v}", PKGS[p].name), None => PKGS[p].name.to_string() };
        let mut args: Vec<String> = Vec::new();
        for (an, ak) in &u.pkg_imports[p] {
            let name = &u.names[*an];
            // an earlier instance exporting something of a fitting kind under that (or a track-compatible) name
            let src = lets.iter().rev().find_map(|(v, q)| u.pkg_exports[*q].iter().find(|(en, ek)| (en == an || u.sub.contains(&(*ek, *ak))) && r.chance(3, 4)).map(|(en, _)| (v.clone(), u.names[*en].clone())));
            if let Some((v, en)) = src { if r.chance(4, 5) { args.push(format!("\"{name}\": {v}[\"{en}\"]")); } }
        }
        if r.chance(1, 5) { if let Some((v, _)) = lets.last() { args.push(format!("...{v}")); } }
        if r.chance(9, 10) { args.push("...".into()); }
        let _ = writeln!(s, "let v{i} = new {key} {{ {} }};", args.join(", "));
        lets.push((format!("v{i}"), p));
    }
    let mut used: Vec<String> = Vec::new();
    for (v, p) in &lets {
        match r.below(4) {
            0 => { let _ = writeln!(s, "export {v}...;"); break; }
            1 | 2 => { if let Some((en, _)) = u.pkg_exports[*p].first() { let en = &u.names[*en];
                let as_name = format!("out{}", used.len());
                if !used.contains(en) { let _ = if r.chance(1, 2) { used.push(en.clone()); writeln!(s, "export {v}[\"{en}\"];") } else { used.push(as_name.clone()); writeln!(s, "export {v}[\"{en}\"] as {as_name};") }; } } }
            _ => {}
        }
    }
    s
}

/// WAC documents that DECLARE a resource and functions whose result (or parameter) mentions `borrow<r>` at some nesting
/// position: ok / err arm of a result, option, list, tuple position, field of a named record, case of a named variant, type alias.
/// Each must be rejected by the resolver or encode to a valid component.
fn gen_borrow_doc(r: &mut Rng) -> String {
    let mut decls: Vec<String> = Vec::new();
    let mut n = 0usize;
    let leaf = match r.below(8) { 0 | 1 => "r", _ => "borrow<r>" };
    let mut t = leaf.to_string();
    let depth = 1 + r.below(3);
    for _ in 0..depth {
        n += 1;
        t = match r.below(14) {
            0 | 1 => format!("result<u32, {t}>"),
            2 => format!("result<{t}, string>"),
            3 => format!("result<_, {t}>"),
            4 => format!("result<{t}>"),
            5 => format!("option<{t}>"),
            6 => format!("list<{t}>"),
            7 => format!("tuple<u8, {t}>"),
            8 => format!("tuple<{t}, u8>"),
            9 => { decls.push(format!("  record rec{n} {{ a: u32, b: {t} }}")); format!("rec{n}") }
            10 => { decls.push(format!("  record rec{n} {{ b: {t}, a: u32 }}")); format!("rec{n}") }
            11 => { decls.push(format!("  variant var{n} {{ p, q({t}) }}")); format!("var{n}") }
            12 => { decls.push(format!("  variant var{n} {{ q({t}), p }}")); format!("var{n}") }
            _ => { decls.push(format!("  type al{n} = {t};")); format!("al{n}") }
        };
    }
    let mut s = String::from("package test:comp;\ninterface i {\n  resource r;\n");
    for d in &decls { s.push_str(d); s.push('\n'); }
    match r.below(4) {
        0 => { let _ = writeln!(s, "  g: func(p: {t});"); }
        1 => { let _ = writeln!(s, "  f: func(p: {t}) -> {t};"); }
        _ => { let _ = writeln!(s, "  f: func() -> {t};"); }
    }
    s.push_str("}\n");
    if r.chance(1, 3) { s.push_str("world w {\n  import i;\n}\n"); }
    s
}

const FIXTURES: &[&str] = &[
    "examples/script.wac",
    "crates/wac-parser/tests/encoding/include-resource.wac", "crates/wac-parser/tests/encoding/instantiation.wac",
    "crates/wac-parser/tests/encoding/merged-functions.wac", "crates/wac-parser/tests/encoding/resources.wac",
    "crates/wac-parser/tests/encoding/types.wac",
    "crates/wac-parser/tests/resolution/alias.wac", "crates/wac-parser/tests/resolution/import.wac",
    "crates/wac-parser/tests/resolution/let-statements.wac", "crates/wac-parser/tests/resolution/no-imports.wac",
    "crates/wac-parser/tests/resolution/package-import.wac", "crates/wac-parser/tests/resolution/package-use-item.wac",
    "crates/wac-parser/tests/resolution/package-world-include.wac", "crates/wac-parser/tests/resolution/package-world-item.wac",
    "crates/wac-parser/tests/resolution/resource.wac", "crates/wac-parser/tests/resolution/targets-empty-world.wac",
    "crates/wac-parser/tests/resolution/targets-world.wac", "crates/wac-parser/tests/resolution/types.wac",
    "crates/wac-parser/tests/resolution/duplicate-world-item.wac",
];

fn case_line(u: &Universe, tier: &str, seed: u64, idx: usize) -> Option<String> {
    let (nh, nd, nb) = if tier == "thorough" { (6000, 1500, 600) } else { (330, 60, 40) };
    if idx < FIXTURES.len() { return Some(format!("F {}", FIXTURES[idx])); }
    let i = idx - FIXTURES.len();
    let mut r = Rng::new(seed.wrapping_mul(1_000_003).wrapping_add(idx as u64));
    if i < nh { let ops = gen_history(u, &mut r, tier == "thorough" && i % 3 == 0); return Some(format!("H {}", ops.iter().map(show_op).collect::<Vec<_>>().join(";"))); }
    if i < nh + nd { return Some(format!("W g{i} {}", enc(&gen_doc(u, &mut r)))); }
    if i < nh + nd + nb { return Some(format!("W b{i} {}", enc(&gen_borrow_doc(&mut r)))); }
    None
}

fn observe_case(u: &Universe, line: &str) -> String {
    if let Some(h) = line.strip_prefix("H ") {
        let ops: Vec<Op> = h.split(';').filter(|s| !s.is_empty()).filter_map(parse_op).collect();
        observe_history(u, &ops)
    } else if let Some(w) = line.strip_prefix("W ") {
        let src = dec(w.split(' ').nth(1).unwrap_or("-"));
        observe_doc(u, &src)
    } else if let Some(f) = line.strip_prefix("F ") { observe_fixture(u, f.trim()) } else { "res=BAD-CASE".into() }
}

fn worker(args: &[String]) {
    let (tier, seed, cases, imp, replay, from) = (args[2].as_str(), args[3].parse::<u64>().unwrap(), &args[4], &args[5], args[6].as_str(), args[7].parse::<usize>().unwrap());
    let trace = std::env::var("C01_TRACE").is_ok();
    std::panic::set_hook(Box::new(move |info| {
        let at = info.location().map(|l| format!("{}:{}", l.file(), l.line())).unwrap_or_default();
        if trace { eprintln!("panic at {at}"); }
        LAST_PANIC_AT.with(|c| *c.borrow_mut() = at);
    }));
    let u = build_universe();
    let mut co = std::fs::OpenOptions::new().append(true).create(true).open(cases).unwrap();
    let mut io = std::fs::OpenOptions::new().append(true).create(true).open(imp).unwrap();
    if from == 0 { for h in &u.header { writeln!(co, "{h}").unwrap(); writeln!(io, "{h}").unwrap(); } }
    let replay_lines: Option<Vec<String>> = if replay == "-" { None } else {
        Some(std::fs::read_to_string(replay).unwrap().lines().filter(|l| l.starts_with("H ") || l.starts_with("W ") || l.starts_with("F ")).map(|s| s.to_string()).collect()) };
    let mut idx = from;
    loop {
        let line = match &replay_lines { Some(l) => l.get(idx).cloned(), None => case_line(&u, tier, seed, idx) };
        let Some(line) = line else { break };
        writeln!(co, "{line}").unwrap(); co.flush().unwrap();
        let obs = observe_case(&u, &line);
        writeln!(io, "{obs}").unwrap(); io.flush().unwrap();
        idx += 1;
    }
    println!("DONE {idx}");
}

fn main() {
    let args: Vec<String> = std::env::args().collect();
    if args[1] == "--worker" { return worker(&args); }
    if args[1] == "--bdoc" { let mut r = Rng::new(args[2].parse().unwrap()); println!("{}", gen_borrow_doc(&mut r)); return; }
    if args[1] == "--doc" { let u = build_universe(); let mut r = Rng::new(args[2].parse().unwrap()); println!("{}", gen_doc(&u, &mut r)); return; }
    let (tier, seed, cases, imp) = (&args[1], &args[2], &args[3], &args[4]);
    let replay = args.get(5).cloned().unwrap_or("-".into());
    let _ = std::fs::remove_file(cases); let _ = std::fs::remove_file(imp);
    let exe = std::env::current_exe().unwrap();
    let pre_path = format!("{imp}.pre");
    let count = |p: &str| std::fs::read_to_string(p).map(|s| s.lines().filter(|l| !l.starts_with("U ")).count()).unwrap_or(0);
    let mut from = 0usize;
    let mut restarts = 0;
    loop {
        let _ = std::fs::remove_file(&pre_path);
        let out = std::process::Command::new(&exe).env("C01_PRE", &pre_path).args(["--worker", tier, seed, cases, imp, &replay, &from.to_string()])
            .stderr(std::process::Stdio::piped()).stdout(std::process::Stdio::piped()).output().expect("spawn worker");
        let so = String::from_utf8_lossy(&out.stdout);
        if out.status.success() && so.contains("DONE") { break; }
        // the worker died: the last case written has no observation
        let (nc, ni) = (count(cases), count(imp));
        let err = String::from_utf8_lossy(&out.stderr);
        let why = clean(err.lines().filter(|l| !l.trim().is_empty()).last().unwrap_or(""));
        if nc == ni + 1 {
            let mut io = std::fs::OpenOptions::new().append(true).open(imp).unwrap();
            let pre = std::fs::read_to_string(&pre_path).unwrap_or_default();
            let pre: Vec<&str> = pre.split('\t').filter(|x| x.starts_with("shape=")).collect();
            writeln!(io, "res=ABORT\tabort={:?} {}\t{}", out.status.code().map(|c| c.to_string()).unwrap_or_else(|| format!("{}", out.status)), why, pre.join("\t")).unwrap();
            from = nc;
        } else { eprintln!("c01 supervisor: worker failed outside a case ({nc} cases, {ni} observations): {err}"); std::process::exit(3); }
        restarts += 1;
        if restarts > 200 { eprintln!("c01 supervisor: too many aborted cases"); std::process::exit(4); }
    }
}
