//! Independent section-level reader of the outermost component (same item syntax as harness/src/bin/c02.rs) and the
//! independent validation of output bytes.
use std::panic::catch_unwind;
use wacv::enc;

fn sort_of(k: wasmparser::ComponentExternalKind) -> &'static str {
    use wasmparser::ComponentExternalKind::*;
    match k { Module => "module", Func => "func", Value => "value", Type => "type", Instance => "instance", Component => "component" }
}
fn core_sort(k: wasmparser::ExternalKind) -> &'static str {
    use wasmparser::ExternalKind::*;
    match k { Func | FuncExact => "cfunc", Table => "ctable", Memory => "cmemory", Global => "cglobal", Tag => "ctag" }
}

#[derive(Default)]
pub struct Reading { pub log: Vec<String>, pub names: Vec<String>, pub bad: Vec<String> }

/// Reads the OUTERMOST component at payload level. Nested components and modules are opaque byte ranges; an embedded
/// component is identified by the index of the library package with the same bytes (1000+len when unknown).
pub fn read_component(bytes: &[u8], lib: &[Vec<u8>]) -> Reading {
    use wasmparser::{Parser, Payload};
    let mut r = Reading::default();
    let mut depth = 0usize;
    let digest = |range: std::ops::Range<usize>| -> String {
        let body = bytes.get(range.clone()).unwrap_or(&[]);
        match lib.iter().position(|b| b.as_slice() == body) { Some(i) => i.to_string(), None => format!("{}", 1000 + body.len()) }
    };
    for payload in Parser::new(0).parse_all(bytes) {
        let payload = match payload { Ok(p) => p, Err(e) => { r.bad.push(format!("parse error: {e}")); break; } };
        if depth > 0 {
            match payload {
                Payload::ModuleSection { .. } | Payload::ComponentSection { .. } => depth += 1,
                Payload::End(_) => depth -= 1,
                _ => {}
            }
            continue;
        }
        match payload {
            Payload::Version { encoding, .. } => { if encoding != wasmparser::Encoding::Component { r.bad.push("not a component".into()); } }
            Payload::ComponentImportSection(s) => for i in s {
                let i = match i { Ok(i) => i, Err(e) => { r.bad.push(e.to_string()); break; } };
                r.log.push(format!("M|{}|{}", enc(i.name.0), sort_of(i.ty.kind())));
            },
            Payload::ComponentTypeSection(s) => for t in s { if let Err(e) = t { r.bad.push(e.to_string()); break; } r.log.push("T".into()); },
            Payload::CoreTypeSection(s) => for t in s { if let Err(e) = t { r.bad.push(e.to_string()); break; } r.log.push("CT".into()); },
            Payload::ComponentSection { unchecked_range, .. } => { r.log.push(format!("C|{}", digest(unchecked_range))); depth += 1; }
            Payload::ModuleSection { .. } => { r.log.push("O|module".into()); depth += 1; }
            Payload::ComponentInstanceSection(s) => for i in s {
                match i {
                    Ok(wasmparser::ComponentInstance::Instantiate { component_index, args }) => {
                        let a: Vec<String> = args.iter().map(|a| format!("{}~{}~{}", enc(a.name), sort_of(a.kind), a.index)).collect();
                        r.log.push(format!("N|{component_index}|{}", a.join("+")));
                    }
                    Ok(wasmparser::ComponentInstance::FromExports(ex)) => {
                        let a: Vec<String> = ex.iter().map(|a| format!("{}~{}~{}", enc(a.name.0), sort_of(a.kind), a.index)).collect();
                        r.log.push(format!("B|{}", a.join("+")));
                    }
                    Err(e) => { r.bad.push(e.to_string()); break; }
                }
            },
            Payload::InstanceSection(s) => for i in s { if let Err(e) = i { r.bad.push(e.to_string()); break; } r.log.push("O|cinstance".into()); },
            Payload::ComponentAliasSection(s) => for a in s {
                match a {
                    Ok(wasmparser::ComponentAlias::InstanceExport { kind, instance_index, name }) =>
                        r.log.push(format!("A|{instance_index}|{}|{}", sort_of(kind), enc(name))),
                    Ok(wasmparser::ComponentAlias::CoreInstanceExport { kind, .. }) => r.log.push(format!("O|{}", core_sort(kind))),
                    Ok(wasmparser::ComponentAlias::Outer { kind, .. }) => {
                        use wasmparser::ComponentOuterAliasKind::*;
                        let s = match kind { CoreModule => "module", CoreType => "ctype", Type => "type", Component => "component" };
                        r.log.push(format!("O|{s}"));
                    }
                    Err(e) => { r.bad.push(e.to_string()); break; }
                }
            },
            Payload::ComponentCanonicalSection(s) => for c in s {
                match c {
                    Ok(wasmparser::CanonicalFunction::Lift { .. }) => r.log.push("O|func".into()),
                    Ok(_) => r.log.push("O|cfunc".into()),
                    Err(e) => { r.bad.push(e.to_string()); break; }
                }
            },
            Payload::ComponentStartSection { .. } => r.bad.push("start section (not interpreted)".into()),
            Payload::ComponentExportSection(s) => for e in s {
                match e {
                    Ok(e) => r.log.push(format!("X|{}|{}|{}", enc(e.name.0), sort_of(e.kind), e.index)),
                    Err(e) => { r.bad.push(e.to_string()); break; }
                }
            },
            Payload::CustomSection(c) => {
                if c.name() == "component-name" {
                    let rd = wasmparser::ComponentNameSectionReader::new(wasmparser::BinaryReader::new(c.data(), c.data_offset()));
                    for sub in rd {
                        use wasmparser::ComponentName::*;
                        let (sort, map) = match sub {
                            Ok(Types(m)) => ("type", m), Ok(Instances(m)) => ("instance", m), Ok(Components(m)) => ("component", m),
                            Ok(Funcs(m)) => ("func", m), Ok(Values(m)) => ("value", m), Ok(CoreModules(m)) => ("module", m),
                            Ok(Component { name, .. }) => { r.names.push(format!("self|0|{}", enc(name))); continue; }
                            Ok(_) => { r.bad.push("unexpected name subsection".into()); continue; }
                            Err(e) => { r.bad.push(e.to_string()); break; }
                        };
                        for n in map { match n { Ok(n) => r.names.push(format!("{sort}|{}|{}", n.index, enc(n.name))), Err(e) => { r.bad.push(e.to_string()); break; } } }
                    }
                }
            }
            Payload::End(_) => {}
            other => r.bad.push(format!("unexpected top-level payload {:?}", std::mem::discriminant(&other))),
        }
    }
    r
}

pub fn clean(s: &str) -> String { s.replace(['\t', '\n', ';', '|'], " ") }

pub fn validate_independently(bytes: &[u8]) -> String {
    match catch_unwind(|| wasmparser::Validator::new_with_features(wasmparser::WasmFeatures::all()).validate_all(bytes).map(|_| ())) {
        Ok(Ok(())) => "ok".into(),
        Ok(Err(e)) => format!("invalid({})", clean(&e.to_string())),
        Err(e) => format!("validator-panic({})", crate::panic_msg(e)),
    }
}
