//! Per-process universe of the C01 search: type arena with local types, the packages, and a numbering of every
//! item kind reachable from them. Kinds are numbered by a deterministic walk (local kinds, local definitions, then
//! per package: instance type, world imports, world exports; instance exports recursively), identified by arena
//! identity; the walk is repeated for every fresh graph, so the numbering does not depend on arena allocation order.
use crate::lib_pkgs::*;
use std::collections::{HashMap, HashSet};
use wac_graph::{types::*, CompositionGraph};
use wacv::enc;

pub struct Local { pub defs: Vec<Type>, pub kinds: Vec<ItemKind>, pub pkgs: Vec<Option<Package>> }

pub fn mk_graph(bytes: &[Vec<u8>]) -> (CompositionGraph, Local) {
    let mut g = CompositionGraph::new();
    let t = g.types_mut();
    let prim = |p| ValueType::Primitive(p);
    let t0 = t.add_defined_type(DefinedType::Alias(prim(PrimitiveType::U32)));
    let t1 = t.add_defined_type(DefinedType::List(ValueType::Defined(t0)));
    let t2 = t.add_defined_type(DefinedType::Tuple(vec![ValueType::Defined(t0), ValueType::Defined(t1)]));
    let t3 = t.add_defined_type(DefinedType::Option(ValueType::Defined(t0)));
    let t4 = t.add_defined_type(DefinedType::Alias(ValueType::Defined(t0)));
    let f0 = t.add_func_type(FuncType { params: Default::default(), result: None, is_async: false });
    let mut p = indexmap::IndexMap::new();
    p.insert("a".to_string(), prim(PrimitiveType::U32));
    let f1 = t.add_func_type(FuncType { params: p, result: None, is_async: false });
    let mut e0 = indexmap::IndexMap::new();
    e0.insert("x".to_string(), ItemKind::Func(f0));
    let if0 = t.add_interface(Interface { id: None, uses: Default::default(), exports: e0.clone() });
    e0.insert("y".to_string(), ItemKind::Func(f0));
    let if1 = t.add_interface(Interface { id: None, uses: Default::default(), exports: e0 });
    let mut e2 = indexmap::IndexMap::new();
    e2.insert("p".to_string(), ItemKind::Func(f0));
    e2.insert("q".to_string(), ItemKind::Func(f0));
    let if2 = t.add_interface(Interface { id: None, uses: Default::default(), exports: e2 });
    // C01 additions: compound local types
    let mut rf = indexmap::IndexMap::new();
    rf.insert("a".to_string(), prim(PrimitiveType::U32));
    rf.insert("b".to_string(), prim(PrimitiveType::String));
    let rec = t.add_defined_type(DefinedType::Record(Record { fields: rf }));
    let mut vc = indexmap::IndexMap::new();
    vc.insert("none".to_string(), None);
    vc.insert("some".to_string(), Some(ValueType::Defined(rec)));
    let var = t.add_defined_type(DefinedType::Variant(Variant { cases: vc }));
    let en = t.add_defined_type(DefinedType::Enum(Enum(["one".to_string(), "two".to_string()].into_iter().collect())));
    let fl = t.add_defined_type(DefinedType::Flags(Flags(["fa".to_string(), "fb".to_string()].into_iter().collect())));
    let res = t.add_defined_type(DefinedType::Result { ok: Some(ValueType::Defined(rec)), err: Some(prim(PrimitiveType::String)) });
    let lrec = t.add_defined_type(DefinedType::List(ValueType::Defined(rec)));
    let mut p2 = indexmap::IndexMap::new();
    p2.insert("v".to_string(), ValueType::Defined(rec));
    let f2 = t.add_func_type(FuncType { params: p2, result: Some(ValueType::Defined(en)), is_async: false });
    let f3 = t.add_func_type(FuncType { params: Default::default(), result: Some(ValueType::Defined(lrec)), is_async: false });
    let f4 = t.add_func_type(FuncType { params: Default::default(), result: Some(ValueType::Defined(t1)), is_async: false });
    let mut e3 = indexmap::IndexMap::new();
    e3.insert("rec".to_string(), ItemKind::Type(Type::Value(ValueType::Defined(rec))));
    e3.insert("en".to_string(), ItemKind::Type(Type::Value(ValueType::Defined(en))));
    e3.insert("mk".to_string(), ItemKind::Func(f2));
    let if3 = t.add_interface(Interface { id: None, uses: Default::default(), exports: e3 });
    let d = |id| Type::Value(ValueType::Defined(id));
    let mut defs = vec![d(t0), d(t1), d(t2), d(t3), d(t4), Type::Func(f0)];
    let mut kinds = vec![ItemKind::Func(f0), ItemKind::Func(f1), ItemKind::Instance(if0), ItemKind::Instance(if1),
                         ItemKind::Instance(if2), ItemKind::Type(d(t0))];
    let mut pkgs = Vec::new();
    for (i, pd) in PKGS.iter().enumerate() {
        let v = pd.version.map(|v| semver::Version::parse(v).unwrap());
        pkgs.push(Some(Package::from_bytes(pd.name, v.as_ref(), bytes[i].clone(), g.types_mut()).unwrap_or_else(|e| panic!("package {}: {e:?}", pd.name))));
    }
    for (p, n) in PKG_KINDS_BASE {
        let w = pkgs[*p].as_ref().unwrap().ty();
        kinds.push(*g.types()[w].imports.get(*n).expect("pkg kind"));
    }
    // kinds 11..: local compound kinds, then world items of the C01 packages
    kinds.extend([ItemKind::Func(f2), ItemKind::Func(f3), ItemKind::Func(f4), ItemKind::Type(d(rec)), ItemKind::Type(d(en)),
                  ItemKind::Instance(if3), ItemKind::Value(prim(PrimitiveType::U32)), ItemKind::Type(Type::Func(f0))]);
    kinds.push(ItemKind::Component(pkgs[1].as_ref().unwrap().ty()));
    kinds.push(ItemKind::Component(pkgs[12].as_ref().unwrap().ty()));
    for (p, side, n) in PKG_KINDS_MORE {
        let w = &g.types()[pkgs[*p].as_ref().unwrap().ty()];
        let k = if *side == 'i' { w.imports.get(*n) } else { w.exports.get(*n) };
        kinds.push(*k.unwrap_or_else(|| panic!("pkg kind {p} {side} {n}")));
    }
    // definitions 6..: compound local types, function types over them, interface and world definitions
    defs.extend([d(rec), d(var), d(en), d(fl), d(res), d(lrec), Type::Func(f2), Type::Func(f3)]);
    let world_item = |g: &CompositionGraph, p: usize, side: char, n: &str| {
        let w = &g.types()[pkgs[p].as_ref().unwrap().ty()];
        *(if side == 'i' { w.imports.get(n) } else { w.exports.get(n) }).unwrap()
    };
    for (p, side, n) in [(12usize, 'i', "v:t/shapes@0.2.0"), (17, 'i', "v:t/canvas@0.2.0"), (20, 'i', "r:s/store@1.0.0"), (9, 'i', "u:s/api@1.0.0")] {
        if let ItemKind::Instance(id) = world_item(&g, p, side, n) { defs.push(Type::Interface(id)); }
    }
    defs.push(Type::World(pkgs[1].as_ref().unwrap().ty()));
    defs.push(Type::World(pkgs[17].as_ref().unwrap().ty()));
    defs.push(Type::Interface(if1));
    if let ItemKind::Type(ty) = world_item(&g, 25, 'i', "tok") { defs.push(ty); }     // a resource: define_type must refuse it
    if let ItemKind::Type(ty) = world_item(&g, 25, 'i', "cfg") { defs.push(ty); }
    // definitions 23..: composite types whose components are other DEFINABLE types in every position (ok and err arm, first
    // and last field / case / element), so that the order of definitions matters for every position
    {
        let t = g.types_mut();
        let mut ef = indexmap::IndexMap::new();
        ef.insert("code".to_string(), prim(PrimitiveType::U32));
        let erec = t.add_defined_type(DefinedType::Record(Record { fields: ef }));
        let r2 = t.add_defined_type(DefinedType::Result { ok: Some(ValueType::Defined(rec)), err: Some(ValueType::Defined(erec)) });
        let r3 = t.add_defined_type(DefinedType::Result { ok: Some(ValueType::Defined(en)), err: Some(ValueType::Defined(fl)) });
        let r4 = t.add_defined_type(DefinedType::Result { ok: None, err: Some(ValueType::Defined(erec)) });
        let tup = t.add_defined_type(DefinedType::Tuple(vec![ValueType::Defined(rec), prim(PrimitiveType::U8), ValueType::Defined(erec)]));
        let mut f2 = indexmap::IndexMap::new();
        f2.insert("first".to_string(), ValueType::Defined(erec));
        f2.insert("mid".to_string(), prim(PrimitiveType::Bool));
        f2.insert("last".to_string(), ValueType::Defined(en));
        let rec2 = t.add_defined_type(DefinedType::Record(Record { fields: f2 }));
        let mut c2 = indexmap::IndexMap::new();
        c2.insert("a".to_string(), Some(ValueType::Defined(fl)));
        c2.insert("b".to_string(), None);
        c2.insert("c".to_string(), Some(ValueType::Defined(erec)));
        let var2 = t.add_defined_type(DefinedType::Variant(Variant { cases: c2 }));
        let opt2 = t.add_defined_type(DefinedType::Option(ValueType::Defined(erec)));
        let r5 = t.add_defined_type(DefinedType::Result { ok: Some(ValueType::Defined(rec2)), err: Some(ValueType::Defined(var2)) });
        defs.extend([d(erec), d(r2), d(r3), d(r4), d(tup), d(rec2), d(var2), d(opt2), d(r5)]);
    }
    (g, Local { defs, kinds, pkgs })
}

/// the deterministic numbering walk
pub fn walk(g: &CompositionGraph, local: &Local) -> (Vec<ItemKind>, HashMap<ItemKind, usize>) { walk_upto(g, local, usize::MAX) }

/// packages 0..LEGACY_PKGS were the library when the first witnesses were recorded: their names keep their pool indexes
pub const LEGACY_PKGS: usize = 28;

pub fn walk_upto(g: &CompositionGraph, local: &Local, npk: usize) -> (Vec<ItemKind>, HashMap<ItemKind, usize>) {
    fn intern(types: &Types, k: ItemKind, reps: &mut Vec<ItemKind>, ids: &mut HashMap<ItemKind, usize>) -> usize {
        if let Some(i) = ids.get(&k) { return *i; }
        let i = reps.len(); reps.push(k); ids.insert(k, i);
        if let ItemKind::Instance(id) = k { for (_, e) in types[id].exports.clone() { intern(types, e, reps, ids); } }
        i
    }
    let (mut reps, mut ids) = (Vec::new(), HashMap::new());
    for k in &local.kinds { intern(g.types(), *k, &mut reps, &mut ids); }
    for d in &local.defs { intern(g.types(), ItemKind::Type(*d), &mut reps, &mut ids); }
    for p in local.pkgs.iter().take(npk).flatten() {
        let w = g.types()[p.ty()].clone();
        intern(g.types(), ItemKind::Instance(p.instance_type()), &mut reps, &mut ids);
        for (_, k) in &w.imports { intern(g.types(), *k, &mut reps, &mut ids); }
        for (_, k) in &w.exports { intern(g.types(), *k, &mut reps, &mut ids); }
    }
    (reps, ids)
}

pub fn class_of(k: &ItemKind) -> &'static str {
    match k { ItemKind::Type(_) => "type", ItemKind::Func(_) => "func", ItemKind::Instance(_) => "instance",
        ItemKind::Component(_) => "component", ItemKind::Module(_) => "module", ItemKind::Value(_) => "value" }
}

/// does a value type mention a type that the component model requires to be *named* (record, variant, enum, flags,
/// resource handle) — the shapes for which exporting / importing an item needs the type to be imported or exported too
pub fn needs_named(types: &Types, v: ValueType) -> bool {
    match v {
        ValueType::Primitive(_) => false,
        ValueType::Borrow(_) | ValueType::Own(_) => true,
        ValueType::Defined(id) => match &types[id] {
            DefinedType::Record(_) | DefinedType::Variant(_) | DefinedType::Enum(_) | DefinedType::Flags(_) => true,
            DefinedType::Alias(a) | DefinedType::List(a) | DefinedType::Option(a) | DefinedType::FixedSizeList(a, _) => needs_named(types, *a),
            DefinedType::Tuple(ts) => ts.iter().any(|t| needs_named(types, *t)),
            DefinedType::Result { ok, err } => ok.map(|t| needs_named(types, t)).unwrap_or(false) || err.map(|t| needs_named(types, t)).unwrap_or(false),
            DefinedType::Stream(a) | DefinedType::Future(a) => a.map(|t| needs_named(types, t)).unwrap_or(false),
        },
    }
}
/// the record / variant / enum / flags types a value type mentions, looking through list, option, tuple, result and alias
/// but not into another compound type (own traversal: independent of wac-types' visitor). The flag says whether the
/// component was reached through at least one anonymous constructor below the starting point ("deep": define_type's
/// dependency scan looks only at the direct components).
pub fn named_components(types: &Types, v: ValueType, top: bool, anon: usize, out: &mut Vec<(DefinedTypeId, bool)>) {
    if let ValueType::Defined(id) = v {
        let below = if top { 0 } else { anon + 1 };
        match &types[id] {
            DefinedType::Record(r) => { if top { for t in r.fields.values() { named_components(types, *t, false, 0, out); } } else { out.push((id, anon > 0)); } }
            DefinedType::Variant(x) => { if top { for t in x.cases.values().flatten() { named_components(types, *t, false, 0, out); } } else { out.push((id, anon > 0)); } }
            DefinedType::Enum(_) | DefinedType::Flags(_) => { if !top { out.push((id, anon > 0)); } }
            DefinedType::Alias(a) | DefinedType::List(a) | DefinedType::Option(a) | DefinedType::FixedSizeList(a, _) => named_components(types, *a, false, below, out),
            DefinedType::Tuple(ts) => for t in ts { named_components(types, *t, false, below, out); },
            DefinedType::Result { ok, err } => { for t in ok.iter().chain(err.iter()) { named_components(types, *t, false, below, out); } }
            DefinedType::Stream(a) | DefinedType::Future(a) => { for t in a.iter() { named_components(types, *t, false, below, out); } }
        }
    }
}

pub fn has_handle(types: &Types, v: ValueType) -> bool {
    match v {
        ValueType::Primitive(_) => false,
        ValueType::Borrow(_) | ValueType::Own(_) => true,
        ValueType::Defined(id) => match &types[id] {
            DefinedType::Record(r) => r.fields.values().any(|t| has_handle(types, *t)),
            DefinedType::Variant(v) => v.cases.values().any(|t| t.map(|t| has_handle(types, t)).unwrap_or(false)),
            DefinedType::Enum(_) | DefinedType::Flags(_) => false,
            DefinedType::Alias(a) | DefinedType::List(a) | DefinedType::Option(a) | DefinedType::FixedSizeList(a, _) => has_handle(types, *a),
            DefinedType::Tuple(ts) => ts.iter().any(|t| has_handle(types, *t)),
            DefinedType::Result { ok, err } => ok.map(|t| has_handle(types, t)).unwrap_or(false) || err.map(|t| has_handle(types, t)).unwrap_or(false),
            DefinedType::Stream(a) | DefinedType::Future(a) => a.map(|t| has_handle(types, t)).unwrap_or(false),
        },
    }
}
pub fn func_has_handle(types: &Types, f: FuncTypeId) -> bool {
    let f = &types[f];
    f.params.values().any(|t| has_handle(types, *t)) || f.result.map(|t| has_handle(types, t)).unwrap_or(false)
}
pub fn func_needs_named(types: &Types, f: FuncTypeId) -> bool {
    let f = &types[f];
    f.params.values().any(|t| needs_named(types, *t)) || f.result.map(|t| needs_named(types, t)).unwrap_or(false)
}

pub struct Universe {
    pub names: Vec<String>, pub header: Vec<String>, pub bytes: Vec<Vec<u8>>, pub nkinds: usize, pub class: Vec<&'static str>,
    /// per package: (import name index, kind id) / export side
    pub pkg_imports: Vec<Vec<(usize, usize)>>, pub pkg_exports: Vec<Vec<(usize, usize)>>,
    pub inst_exports: HashMap<usize, Vec<(usize, usize)>>, pub sub: HashSet<(usize, usize)>,
    pub nlocal_kinds: usize, pub ndefs: usize, pub lkind_ids: Vec<usize>, pub iid: HashMap<usize, String>,
}

impl Universe {
    pub fn nidx(&self, n: &str) -> usize { self.names.iter().position(|x| x == n).unwrap_or_else(|| panic!("name {n} not in pool")) }
}

pub fn build_universe() -> Universe {
    let bytes = all_pkg_bytes();
    for (i, b) in bytes.iter().enumerate() {
        // the library itself must be valid: a failure of an output is then the composition's
        if let Err(e) = wasmparser::Validator::new_with_features(wasmparser::WasmFeatures::all()).validate_all(b) { panic!("library package {} ({}) is not a valid component: {e}", i, PKGS[i].name); }
    }
    let (g, local) = mk_graph(&bytes);
    let (reps, ids) = walk(&g, &local);
    let types = g.types();
    // the name pool: fixed prefix, then every name occurring in a world or an instance type
    let mut names: Vec<String> = BASE_NAMES.iter().map(|s| s.to_string()).collect();
    let mut add = |n: &str| { if !names.iter().any(|x| x == n) { names.push(n.to_string()); } };
    let nlegacy = walk_upto(&g, &local, LEGACY_PKGS).0.len();
    for k in &reps[..nlegacy] { if let ItemKind::Instance(id) = k { for n in types[*id].exports.keys() { add(n); } } }
    for p in local.pkgs.iter().take(LEGACY_PKGS).flatten() { let w = &types[p.ty()]; for n in w.imports.keys().chain(w.exports.keys()) { add(n); } }
    for k in &reps[nlegacy..] { if let ItemKind::Instance(id) = k { for n in types[*id].exports.keys() { add(n); } } }
    for p in local.pkgs.iter().skip(LEGACY_PKGS).flatten() { let w = &types[p.ty()]; for n in w.imports.keys().chain(w.exports.keys()) { add(n); } }
    let nidx = |n: &str| names.iter().position(|x| x == n).unwrap();
    let mut header = Vec::new();
    let mut inst_exports = HashMap::new();
    let mut class = Vec::new();
    let mut iid = HashMap::new();
    for (i, k) in reps.iter().enumerate() {
        let c = class_of(k);
        class.push(c);
        let ex = if let ItemKind::Instance(id) = k {
            let v: Vec<(usize, usize)> = types[*id].exports.iter().map(|(n, e)| (nidx(n), ids[e])).collect();
            let s = v.iter().map(|(a, b)| format!("{a}={b}")).collect::<Vec<_>>().join(",");
            inst_exports.insert(i, v);
            if let Some(x) = &types[*id].id { header.push(format!("U iid {i} {}", enc(x))); iid.insert(i, x.clone()); }
            s
        } else { String::new() };
        header.push(format!("U kind {i} {c} {ex}"));
    }
    let (mut pkg_imports, mut pkg_exports) = (Vec::new(), Vec::new());
    for (i, p) in local.pkgs.iter().enumerate() {
        let p = p.as_ref().unwrap();
        let w = &types[p.ty()];
        let inst = ids[&ItemKind::Instance(p.instance_type())];
        let imps: Vec<(usize, usize)> = w.imports.iter().map(|(n, k)| (nidx(n), ids[k])).collect();
        let exps: Vec<(usize, usize)> = w.exports.iter().map(|(n, k)| (nidx(n), ids[k])).collect();
        header.push(format!("U pkg {i} inst={inst} imports={}", imps.iter().map(|(a, b)| format!("{a}={b}")).collect::<Vec<_>>().join(",")));
        header.push(format!("U pkgname {i} {} {}", enc(PKGS[i].name), PKGS[i].version.map(enc).unwrap_or("-".into())));
        pkg_imports.push(imps); pkg_exports.push(exps);
    }
    for (i, d) in local.defs.iter().enumerate() {
        let mut deps = Vec::new();
        let _ = d.visit_defined_types::<()>(types, &mut |_, id| {
            let t = Type::Value(ValueType::Defined(id));
            deps.push(local.defs.iter().position(|x| *x == t).map(|j| j.to_string()).unwrap_or("9999".into()));
            Ok(())
        });
        header.push(format!("U ty {i} res={} kind={} deps={}", matches!(d, Type::Resource(_)) as u8, ids[&ItemKind::Type(*d)], deps.join(",")));
    }
    let lkind_ids: Vec<usize> = local.kinds.iter().map(|k| ids[k]).collect();
    for (i, k) in lkind_ids.iter().enumerate() { header.push(format!("U lk {i} {k}")); }
    let mut sub = HashSet::new();
    let mut subs = Vec::new();
    for (a, ka) in reps.iter().enumerate() { for (b, kb) in reps.iter().enumerate() {
        if class_of(ka) != class_of(kb) { continue; }
        let mut cache = Default::default();
        let mut c = SubtypeChecker::new(&mut cache);
        if c.is_subtype(*ka, types, *kb, types).is_ok() { subs.push(format!("{a}<{b}")); sub.insert((a, b)); }
    }}
    header.push(format!("U sub {}", subs.join(",")));
    let mut nv = Vec::new();
    for (i, n) in names.iter().enumerate() {
        let (mut g2, l2) = (CompositionGraph::new(), ());
        let _ = l2;
        let f = g2.types_mut().add_func_type(FuncType { params: Default::default(), result: None, is_async: false });
        let imp_ok = !matches!(g2.import(n.as_str(), ItemKind::Func(f)), Err(wac_graph::ImportError::InvalidImportName { .. }));
        let mut g3 = CompositionGraph::new();
        let f = g3.types_mut().add_func_type(FuncType { params: Default::default(), result: None, is_async: false });
        let nd = g3.import("zz", ItemKind::Func(f)).unwrap();
        let exp_ok = g3.export(nd, n.as_str()).is_ok();
        nv.push(format!("{i}:{}{}", imp_ok as u8, exp_ok as u8));
        header.push(format!("U name {i} {}", enc(n)));
    }
    header.push(format!("U names {}", nv.join(",")));
    for (i, k) in reps.iter().enumerate() { header.push(format!("U kindtext {i} {}", k.desc(types).replace(' ', "_"))); }
    Universe { names, header, bytes, nkinds: reps.len(), class, pkg_imports, pkg_exports, inst_exports, sub,
               nlocal_kinds: local.kinds.len(), ndefs: local.defs.len(), lkind_ids, iid }
}
