//! C12 harness: EBNF-driven document generator (written from LANGUAGE.md), randomised layout, every `.wac`
//! file of the repository, single-token mutations, forbidden code point injection, unterminated strings and
//! comments. Runs the real lexer/parser and writes one case per line (`cases.txt`) and one canonical
//! observation per line (`impl.txt`).
//!
//! usage: c12 <tier> <seed> <cases_out> <impl_out> [replay_cases_file]
use std::fmt::Write as _;
use std::io::Write as _;
use wac_parser::lexer::{Error as LexError, Lexer, Token};
use wac_parser::{Document, Error};
use wacv::{enc, Rng};

// ------------------------------------------------------------------------------------------------ observation

fn esc(s: &str, out: &mut String) {
    for c in s.chars() {
        match c {
            '\\' => out.push_str("\\\\"),
            '"' => out.push_str("\\\""),
            '\n' => out.push_str("\\n"),
            '\r' => out.push_str("\\r"),
            '\t' => out.push_str("\\t"),
            c => out.push(c),
        }
    }
}

/// Canonical form shared with the Coq printer: keys sorted, spans as `@offset+length`.
fn canon(v: &serde_json::Value, out: &mut String) {
    use serde_json::Value::*;
    match v {
        Null => out.push_str("null"),
        Bool(b) => out.push_str(if *b { "true" } else { "false" }),
        Number(n) => write!(out, "{}", n).unwrap(),
        String(s) => {
            out.push('"');
            esc(s, out);
            out.push('"');
        }
        Array(a) => {
            out.push('[');
            for (i, x) in a.iter().enumerate() {
                if i > 0 {
                    out.push(',');
                }
                canon(x, out);
            }
            out.push(']');
        }
        Object(m) => {
            if m.len() == 2 && m.contains_key("offset") && m.contains_key("length") {
                write!(out, "@{}+{}", m["offset"], m["length"]).unwrap();
                return;
            }
            let mut keys: Vec<&std::string::String> = m.keys().collect();
            keys.sort();
            out.push('{');
            for (i, k) in keys.iter().enumerate() {
                if i > 0 {
                    out.push(',');
                }
                out.push('"');
                esc(k, out);
                out.push_str("\":");
                canon(&m[*k], out);
            }
            out.push('}');
        }
    }
}

fn lexerr_name(e: &LexError) -> String {
    match e {
        LexError::UnexpectedToken => "UnexpectedToken".into(),
        LexError::UnterminatedString => "UnterminatedString".into(),
        LexError::UnterminatedComment => "UnterminatedComment".into(),
        LexError::DisallowedBidirectionalOverride(c) => format!("DisallowedBidirectionalOverride:{}", *c as u32),
        LexError::DiscouragedUnicodeCodepoint(c) => format!("DiscouragedUnicodeCodepoint:{}", *c as u32),
        LexError::DisallowedControlCode(c) => format!("DisallowedControlCode:{}", *c as u32),
    }
}

fn found_name(f: &Option<Token>) -> String {
    match f {
        Some(t) => format!("{:?}", t),
        None => "none".into(),
    }
}

fn observe_parse(src: &str) -> String {
    let r = std::panic::catch_unwind(|| match Document::parse(src) {
        Ok(doc) => {
            let v = serde_json::to_value(&doc).expect("serialize");
            let mut s = String::from("OK ");
            canon(&v, &mut s);
            s
        }
        Err(e) => {
            let (variant, span, detail) = match &e {
                Error::Lexer { error, span } => (format!("Lexer:{}", lexerr_name(error)), *span, "-".to_string()),
                Error::Expected { expected, found, span } => (
                    "Expected".to_string(),
                    *span,
                    format!("expected={:?};count=1;found={}", expected, found_name(found)),
                ),
                Error::ExpectedEither { first, second, found, span } => (
                    "ExpectedEither".to_string(),
                    *span,
                    format!("expected={:?},{:?};count=2;found={}", first, second, found_name(found)),
                ),
                Error::ExpectedMultiple { expected, count, found, span } => (
                    "ExpectedMultiple".to_string(),
                    *span,
                    format!(
                        "expected={};count={};found={}",
                        expected.iter().flatten().map(|t| format!("{:?}", t)).collect::<Vec<_>>().join(","),
                        count,
                        found_name(found)
                    ),
                ),
                Error::EmptyType { ty, span, .. } => ("EmptyType".to_string(), *span, ty.to_string()),
                Error::InvalidVersion { version, span } => {
                    let mut d = String::new();
                    esc(version, &mut d);
                    ("InvalidVersion".to_string(), *span, d)
                }
            };
            format!("ERR {} {} {} {}", variant, span.offset(), span.len(), detail)
        }
    });
    match r {
        Ok(s) => s,
        Err(p) => {
            let msg = p.downcast_ref::<String>().cloned().or_else(|| p.downcast_ref::<&str>().map(|s| s.to_string()));
            format!("PANIC {}", msg.unwrap_or_default().replace(['\n', '\t'], " "))
        }
    }
}

/// Token stream of the real lexer, cut after the first error.
fn observe_lex(src: &str) -> String {
    let r = std::panic::catch_unwind(|| {
        let mut out = String::new();
        match Lexer::new(src) {
            Err((e, span)) => write!(out, "!{}@{} ", lexerr_name(&e), span.offset()).unwrap(),
            Ok(lexer) => {
                for (r, span) in lexer {
                    match r {
                        Ok(t) => write!(out, "{:?}@{}+{} ", t, span.offset(), span.len()).unwrap(),
                        Err(e) => {
                            write!(out, "!{}@{} ", lexerr_name(&e), span.offset()).unwrap();
                            break;
                        }
                    }
                }
            }
        }
        out
    });
    r.unwrap_or_else(|p| {
        let msg = p.downcast_ref::<String>().cloned().or_else(|| p.downcast_ref::<&str>().map(|s| s.to_string()));
        format!("PANIC {}", msg.unwrap_or_default().replace(['\n', '\t'], " "))
    })
}

/// (kind, text) of every token when the source lexes without error.
/// Where the text currently handed to the implementation outside a recorded case is noted (see `real_tokens`).
static PENDING: std::sync::OnceLock<std::sync::Mutex<std::fs::File>> = std::sync::OnceLock::new();

fn real_tokens(src: &str) -> Option<Vec<(Token, (usize, usize))>> {
    // candidate renderings are tokenised with the real lexer too: note the text first, so that a process death here
    // still leaves the failing input on disk
    if let Some(p) = PENDING.get() {
        use std::io::{Seek, SeekFrom};
        if let Ok(mut f) = p.lock() {
            // one open handle, overwritten in place (newline-terminated; the reader takes the first line)
            let _ = f.seek(SeekFrom::Start(0));
            let _ = f.write_all(enc(src).as_bytes());
            let _ = f.write_all(b"\n");
        }
    }
    // the implementation may panic inside a token callback: that is an observation, never the harness' death
    std::panic::catch_unwind(|| {
        let lexer = Lexer::new(src).ok()?;
        let mut v = Vec::new();
        for (r, span) in lexer {
            v.push((r.ok()?, (span.offset(), span.len())));
        }
        Some(v)
    })
    .unwrap_or(None)
}

// ------------------------------------------------------------------------------------------------ generator

const KEYWORDS: &[&str] = &[
    "import", "with", "type", "tuple", "list", "option", "result", "borrow", "resource", "variant", "record", "flags",
    "enum", "func", "static", "constructor", "u8", "s8", "u16", "s16", "u32", "s32", "u64", "s64", "f32", "f64",
    "char", "bool", "string", "interface", "world", "export", "new", "let", "use", "include", "as", "package",
    "targets",
];
const SYMBOLS: &[&str] =
    &[";", "{", "}", ":", "=", "(", ")", "->", "<", ">", "_", "[", "]", ".", "...", ",", "/", "@"];
const PRIMS: &[&str] = &["u8", "s8", "u16", "s16", "u32", "s32", "u64", "s64", "f32", "f64", "char", "bool", "string"];
const WORDS: &[&str] = &["a", "b", "c", "x", "y", "foo", "bar", "baz", "q2", "in0", "stream", "run", "t1"];
/// Lexemes that are not tokens of the language, or split in surprising ways.
const GARBAGE: &[&str] = &[
    "#", "-", "%", "..", "foo-", "foo--bar", "Foo", "fooBar", "a:", "a:b@", "a:b@1.", "a:b/", "a:b@1.2.3/c", "1abc",
    "a:b:", "%a:%b", "a:b/c/", "a:b/c@", "$", "\\", "'x'", "a-B", "A-b", "A1-B2", "%A", "a:B/c", "a:b/C@1.0.0",
    "a:b@1.0.0-", "a:b@1..0", "é", "a\u{e9}", "x:y@1.2.3+b.c-d", "->>", "-->", "./.", "....", "@1.2.3", "a/b",
];

/// Block comments (terminated and not) whose openers / closers are adjacent to `/` and `*`.
const COMMENT_EDGES: &[&str] = &[
    "/* outer /*/ inner */ still outer */", "/* outer /*/ inner */", "/*/ */", "/*/", "/**/", "/***/", "/****/", "/*/*/",
    "/*/**/*/", "/*/*/*/ x */*/*/", "/* */*", "/* a */*/", "/* /* */ */", "/* /* */", "/* **/", "/* //*/", "/* //*/ */ */",
    "/* *//* */", "/** /*/ x */ d */", "/** d **/", "/*** d ***/", "/*/*/ */ */", "/* * / */", "/* /", "/* *", "/*/* */ *", "*/",
    "/* a /* b /* c */ d */ e */", "/* a /* b /* c */ d */ e", "/*\n/*/\n*/\n*/", "// /*\n", "// */\n", "/* // */", "/* \" */", "\"/* not a comment\"",
];

struct Gen<'a> {
    r: &'a mut Rng,
    out: Vec<String>,
}

impl Gen<'_> {
    fn t(&mut self, s: &str) {
        self.out.push(s.to_string());
    }
    fn word(&mut self) -> String {
        let mut w = self.r.pick(WORDS).to_string();
        if self.r.chance(1, 6) {
            w.push_str(&self.r.below(100).to_string());
        }
        w
    }
    fn id_text(&mut self) -> String {
        let mut s = String::new();
        if self.r.chance(1, 10) {
            // a keyword used as an identifier through the % escape
            return format!("%{}", self.r.pick(KEYWORDS));
        }
        if self.r.chance(1, 12) {
            s.push('%');
        }
        let n = 1 + if self.r.chance(1, 4) { 1 + self.r.below(2) } else { 0 };
        for i in 0..n {
            if i > 0 {
                s.push('-');
            }
            let mut w = self.word();
            if self.r.chance(1, 90) {
                w = w.to_uppercase(); // deviation: upper-case words
            }
            s.push_str(&w);
        }
        if KEYWORDS.contains(&s.as_str()) {
            s.insert(0, '%');
        }
        s
    }
    fn id(&mut self) {
        let s = self.id_text();
        self.out.push(s);
    }
    fn version_text(&mut self) -> String {
        let mut v = format!("{}.{}.{}", self.r.below(3), self.r.below(12), self.r.below(3));
        if self.r.chance(1, 4) {
            v.push_str(*self.r.pick(&["-alpha", "-rc.1", "-0a.b-c", "-1", "-x.7.z"][..]));
        }
        if self.r.chance(1, 5) {
            v.push_str(*self.r.pick(&["+build", "+001", "+b.1-c"][..]));
        }
        if self.r.chance(1, 25) {
            // not a semantic version although the token rule takes it
            v = (*self.r.pick(&["1", "1.0", "01.2.3", "1.2.3-", "1.2.3+", "1.2.3-01", "1.2.3.4", "1.2.x", "18446744073709551616.0.0"][..]))
                .to_string();
        }
        v
    }
    fn pkgname_text(&mut self) -> String {
        let n = 2 + if self.r.chance(1, 6) { 1 } else { 0 };
        let mut s = String::new();
        for i in 0..n {
            if i > 0 {
                s.push(':');
            }
            s.push_str(&self.id_text());
        }
        s
    }
    fn pkgname(&mut self) {
        let mut s = self.pkgname_text();
        if self.r.chance(1, 3) {
            s.push('@');
            s.push_str(&self.version_text());
        }
        self.out.push(s);
    }
    fn pkgpath(&mut self) {
        let mut s = self.pkgname_text();
        let n = 1 + if self.r.chance(1, 5) { 1 } else { 0 };
        for _ in 0..n {
            s.push('/');
            s.push_str(&self.id_text());
        }
        if self.r.chance(1, 3) {
            s.push('@');
            s.push_str(&self.version_text());
        }
        self.out.push(s);
    }
    fn string(&mut self) {
        // multi-byte characters at the start, inside and at the end of the literal (the string callback works on
        // bytes; spans after such a literal depend on it)
        let body = match self.r.below(16) {
            0 => String::new(),
            1 => "foo bar".to_string(),
            2 => "wasi:io/streams@0.2.0".to_string(),
            3 => "caf\u{e9} \u{65e5}\u{672c} \u{1f600}".to_string(),
            4 => "// not a comment /* nor this".to_string(),
            5 => "line\nbreak\ttab".to_string(),
            6 => "caf\u{e9}".to_string(),
            7 => "\u{20ac}-price".to_string(),
            8 => "na\u{ef}ve".to_string(),
            9 => "\u{e9}".to_string(),
            10 => "\u{1f600}x".to_string(),
            11 => "x\u{65e5}\u{672c}\u{8a9e}".to_string(),
            12 => format!("\u{e9}{}\u{fc}", self.word()),
            _ => self.word(),
        };
        self.out.push(format!("\"{}\"", body));
    }
    fn list1(&mut self, d: u32, item: fn(&mut Self, u32)) {
        let n = 1 + self.r.below(3);
        for i in 0..n {
            if i > 0 {
                self.t(",");
            }
            item(self, d);
        }
        if self.r.chance(1, 3) {
            self.t(",");
        }
    }
    fn ty(&mut self, d: u32) {
        let c = if d == 0 { self.r.below(2) } else { self.r.below(9) };
        match c {
            0 => {
                let p = *self.r.pick(PRIMS);
                self.t(p)
            }
            1 => self.id(),
            2 => {
                self.t("tuple");
                self.t("<");
                self.list1(d - 1, Self::ty);
                self.t(">");
            }
            3 => {
                self.t("list");
                self.t("<");
                self.ty(d - 1);
                self.t(">");
            }
            4 => {
                self.t("option");
                self.t("<");
                self.ty(d - 1);
                self.t(">");
            }
            5 | 6 => {
                self.t("result");
                match self.r.below(30) {
                    0..=6 => {}
                    7..=13 => {
                        self.t("<");
                        self.ty(d - 1);
                        self.t(">");
                    }
                    14..=19 => {
                        self.t("<");
                        self.t("_");
                        self.t(",");
                        self.ty(d - 1);
                        self.t(">");
                    }
                    20..=26 => {
                        self.t("<");
                        self.ty(d - 1);
                        self.t(",");
                        self.ty(d - 1);
                        self.t(">");
                    }
                    // deviations: underscore forms the EBNF does not list
                    27 => {
                        self.t("<");
                        self.t("_");
                        self.t(">");
                    }
                    28 => {
                        self.t("<");
                        self.t("_");
                        self.t(",");
                        self.t("_");
                        self.t(">");
                    }
                    _ => {
                        self.t("<");
                        self.ty(d - 1);
                        self.t(",");
                        self.t("_");
                        self.t(">");
                    }
                }
            }
            _ => {
                self.t("borrow");
                self.t("<");
                if self.r.chance(1, 12) {
                    self.ty(d - 1); // documented, not implemented unless it happens to be an id
                } else {
                    self.id();
                }
                self.t(">");
            }
        }
    }
    fn named_type(&mut self, d: u32) {
        self.id();
        self.t(":");
        self.ty(d);
    }
    fn func_type(&mut self, d: u32) {
        self.t("func");
        self.t("(");
        if self.r.chance(2, 3) {
            self.list1(d, Self::named_type);
        }
        self.t(")");
        match self.r.below(24) {
            0..=9 => {}
            10..=20 => {
                self.t("->");
                self.ty(d);
            }
            21 | 22 => {
                // documented, not implemented
                self.t("->");
                self.t("(");
                self.list1(d, Self::named_type);
                self.t(")");
            }
            _ => self.t("->"), // deviation: nothing after the arrow
        }
    }
    fn use_type(&mut self, _d: u32) {
        self.t("use");
        if self.r.chance(1, 2) {
            self.pkgpath()
        } else {
            self.id()
        }
        self.t(".");
        self.t("{");
        if !self.r.chance(1, 25) {
            self.list1(0, |g, _| {
                g.id();
                if g.r.chance(1, 3) {
                    g.t("as");
                    g.id();
                }
            });
        }
        self.t("}");
        self.t(";");
    }
    fn type_decl(&mut self, d: u32) {
        match self.r.below(5) {
            0 => {
                self.t("variant");
                self.id();
                self.t("{");
                self.list1(d, |g, d| {
                    g.id();
                    if g.r.chance(1, 2) {
                        g.t("(");
                        g.ty(d);
                        g.t(")");
                    }
                });
                self.t("}");
            }
            1 => {
                self.t("record");
                self.id();
                self.t("{");
                self.list1(d, Self::named_type);
                self.t("}");
            }
            2 | 3 => {
                let k = if self.r.chance(1, 2) { "flags" } else { "enum" };
                self.t(k);
                self.id();
                self.t("{");
                self.list1(d, |g, _| g.id());
                self.t("}");
            }
            _ => {
                self.t("type");
                self.id();
                self.t("=");
                if self.r.chance(1, 3) {
                    self.func_type(d)
                } else {
                    self.ty(d)
                }
                self.t(";");
            }
        }
    }
    fn item_type_decl(&mut self, d: u32) {
        if self.r.chance(1, 4) {
            self.t("resource");
            self.id();
            if self.r.chance(1, 3) {
                self.t(";");
            } else {
                self.t("{");
                for _ in 0..self.r.below(3) {
                    if self.r.chance(1, 3) {
                        self.t("constructor");
                        self.t("(");
                        if self.r.chance(1, 2) {
                            self.list1(d, Self::named_type);
                        }
                        self.t(")");
                        self.t(";");
                    } else {
                        self.id();
                        self.t(":");
                        if self.r.chance(1, 3) {
                            self.t("static");
                        }
                        self.func_type(d);
                        self.t(";");
                    }
                }
                self.t("}");
            }
        } else {
            self.type_decl(d);
        }
    }
    fn interface_items(&mut self, d: u32) {
        self.t("{");
        for _ in 0..self.r.below(4) {
            match self.r.below(3) {
                0 => self.use_type(d),
                1 => self.item_type_decl(d),
                _ => {
                    self.id();
                    self.t(":");
                    if self.r.chance(3, 4) {
                        self.func_type(d)
                    } else {
                        self.id()
                    }
                    self.t(";");
                }
            }
        }
        self.t("}");
    }
    fn extern_type(&mut self, d: u32) {
        match self.r.below(3) {
            0 => self.func_type(d),
            1 if d > 0 => {
                self.t("interface");
                self.interface_items(d - 1);
            }
            _ => self.id(),
        }
    }
    fn world_item_path(&mut self, d: u32) {
        match self.r.below(3) {
            0 => {
                self.id();
                self.t(":");
                self.extern_type(d);
            }
            1 => self.pkgpath(),
            _ => self.id(),
        }
    }
    fn world_items(&mut self, d: u32) {
        self.t("{");
        for _ in 0..self.r.below(5) {
            match self.r.below(5) {
                0 => self.use_type(d),
                1 => self.item_type_decl(d),
                2 | 3 => {
                    let k = if self.r.chance(1, 2) { "import" } else { "export" };
                    self.t(k);
                    self.world_item_path(d);
                    self.t(";");
                }
                _ => {
                    self.t("include");
                    if self.r.chance(1, 2) {
                        self.pkgpath()
                    } else {
                        self.id()
                    }
                    if self.r.chance(1, 2) {
                        self.t("with");
                        self.t("{");
                        if !self.r.chance(1, 20) {
                            self.list1(0, |g, _| {
                                g.id();
                                g.t("as");
                                g.id();
                            });
                        }
                        self.t("}");
                    }
                    self.t(";");
                }
            }
        }
        self.t("}");
    }
    fn arg(&mut self, d: u32) {
        match self.r.below(4) {
            0 => self.id(),
            1 => {
                self.t("...");
                self.id();
            }
            _ => {
                if self.r.chance(1, 2) {
                    self.id()
                } else {
                    self.string()
                }
                self.t(":");
                self.expr(d);
            }
        }
    }
    fn expr(&mut self, d: u32) {
        let c = if d == 0 { 2 } else { self.r.below(4) };
        match c {
            0 | 1 => {
                self.t("new");
                self.pkgname();
                self.t("{");
                match self.r.below(24) {
                    // instantiation-args ::= arg (',' arg)* (',' '...'?)?
                    0..=15 => {
                        let n = 1 + self.r.below(3);
                        for i in 0..n {
                            if i > 0 {
                                self.t(",");
                            }
                            self.arg(d - 1);
                        }
                        match self.r.below(3) {
                            0 => {}
                            1 => self.t(","),
                            _ => {
                                self.t(",");
                                self.t("...");
                            }
                        }
                    }
                    16..=19 => self.t("..."), // the idiom of the prose; not derivable from the EBNF
                    20 => {}                    // deviation: empty
                    21 => {
                        // deviation: fill first
                        self.t("...");
                        self.t(",");
                        self.arg(d - 1);
                    }
                    22 => {
                        // deviation: fill followed by a comma
                        self.arg(d - 1);
                        self.t(",");
                        self.t("...");
                        self.t(",");
                    }
                    _ => {
                        // deviation: fill in the middle
                        self.arg(d - 1);
                        self.t(",");
                        self.t("...");
                        self.t(",");
                        self.arg(d - 1);
                    }
                }
                self.t("}");
            }
            2 => self.id(),
            _ => {
                self.t("(");
                self.expr(d - 1);
                self.t(")");
            }
        }
        for _ in 0..(if self.r.chance(1, 2) { self.r.below(3) } else { 0 }) {
            if self.r.chance(1, 2) {
                self.t(".");
                self.id();
            } else {
                self.t("[");
                self.string();
                self.t("]");
            }
        }
    }
    fn statement(&mut self, d: u32) {
        match self.r.below(7) {
            0 | 1 => {
                self.t("import");
                self.id();
                if self.r.chance(1, 3) {
                    self.t("as");
                    if self.r.chance(1, 2) {
                        self.id()
                    } else {
                        self.string()
                    }
                }
                self.t(":");
                match self.r.below(4) {
                    0 => self.pkgpath(),
                    1 => self.func_type(d),
                    2 => {
                        self.t("interface");
                        self.interface_items(d - 1);
                    }
                    _ => self.id(),
                }
                self.t(";");
            }
            2 => {
                self.t("interface");
                self.id();
                self.interface_items(d - 1);
            }
            3 => {
                self.t("world");
                self.id();
                self.world_items(d - 1);
            }
            4 => self.type_decl(d - 1),
            5 => {
                self.t("let");
                self.id();
                self.t("=");
                self.expr(d - 1);
                self.t(";");
            }
            _ => {
                self.t("export");
                self.expr(d - 1);
                match self.r.below(3) {
                    0 => {}
                    1 => self.t("..."),
                    _ => {
                        self.t("as");
                        if self.r.chance(1, 2) {
                            self.id()
                        } else {
                            self.string()
                        }
                    }
                }
                self.t(";");
            }
        }
    }
    fn document(&mut self, max_statements: u64, depth: u32) {
        self.t("package");
        self.pkgname();
        if self.r.chance(1, 4) {
            self.t("targets");
            self.pkgpath();
        }
        self.t(";");
        for _ in 0..self.r.below(max_statements + 1) {
            let d = 2 + self.r.below(depth as u64 - 1) as u32;
            self.statement(d);
        }
    }
}

// ------------------------------------------------------------------------------------------------ layout

fn comment_text(r: &mut Rng) -> String {
    (*r.pick(&["note", "a b c", "caf\u{e9}", "\u{65e5}\u{672c}\u{8a9e}", "x \"y\" z", "* star", "/ slash", "", "tab\there", "\u{1f600}"])).to_string()
}

/// Balanced comment pieces whose openers / closers touch `/` and `*` characters.
const TRICKY_NESTED: &[&str] = &[
    "/*/ n */", "/**/", "/***/", "/*/**/*/", "/*/*/ x */*/", "/* **/", "/*/ */", "/****/", "/* /*/ i */ o */",
    "/*//*/ y */ */", "/* * / */", "/*/*/*/ z */*/*/",
];

/// Append a piece without forming an accidental `/*` or `*/` at the seam.
fn push_piece(s: &mut String, piece: &str) {
    if (s.ends_with('*') && piece.starts_with('/')) || (s.ends_with('/') && piece.starts_with('*')) {
        s.push(' ');
    }
    s.push_str(piece);
}

fn block_comment(r: &mut Rng, depth: u32, doc: bool) -> String {
    let mut s = String::from(if doc { "/** " } else { "/*" });
    if !doc && r.chance(1, 6) {
        return (*r.pick(&["/**/", "/***/", "/*/ */", "/* **/", "/*/**/*/"][..])).to_string();
    }
    if !doc && r.chance(1, 8) {
        s.push('/'); // `/*/`: the slash after the opener does not close anything
        s.push(' ');
    }
    for _ in 0..r.below(3) {
        match r.below(7) {
            0 if depth > 0 => {
                let inner = block_comment(r, depth - 1, false);
                push_piece(&mut s, &inner)
            }
            1 => s.push('\n'),
            2 => s.push_str(" // "),
            3 => push_piece(&mut s, *r.pick(TRICKY_NESTED)),
            4 => push_piece(&mut s, *r.pick(&["**", " * ", "/ ", " /", "*"][..])),
            _ => {
                s.push(' ');
                s.push_str(&comment_text(r));
            }
        }
    }
    // never let generated text form an accidental `/*` or `*/` with what follows
    if s.ends_with('/') || s.ends_with('*') && r.chance(1, 2) {
        s.push(' ');
    }
    if r.chance(1, 2) && !s.ends_with('/') {
        s.push(' ');
    }
    s.push_str("*/");
    s
}

/// A non-empty piece of skippable material.
fn gap(r: &mut Rng) -> String {
    let mut s = String::new();
    let n = 1 + if r.chance(1, 5) { r.below(3) } else { 0 };
    for _ in 0..n {
        match r.below(40) {
            0..=21 => s.push(' '),
            22..=27 => s.push('\n'),
            28 | 29 => s.push('\t'),
            30 | 31 => s.push_str("\r\n"),
            32 => s.push('\r'),
            33 => s.push_str("  "),
            34 => {
                s.push_str("//");
                s.push_str(&comment_text(r));
                s.push_str(if r.chance(1, 4) { "\r\n" } else { "\n" });
            }
            35 | 36 => {
                s.push_str("///");
                if r.chance(3, 4) {
                    s.push(' ');
                }
                s.push_str(&comment_text(r));
                s.push_str(if r.chance(1, 4) { "\r\n" } else { "\n" });
            }
            37 => s.push_str(&block_comment(r, 2, false)),
            38 => {
                s.push_str(&block_comment(r, 1, true));
                if r.chance(1, 2) {
                    s.push('\n');
                }
            }
            _ => s.push_str("\n\n"),
        }
    }
    s
}

#[derive(Clone)]
struct Doc {
    toks: Vec<String>,
    gaps: Vec<String>, // gaps[i] precedes toks[i]; gaps[n] ends the text
}

impl Doc {
    fn render(&self) -> String {
        let mut s = String::new();
        for (i, t) in self.toks.iter().enumerate() {
            s.push_str(&self.gaps[i]);
            s.push_str(t);
        }
        s.push_str(&self.gaps[self.toks.len()]);
        s
    }
    /// Render; if the real lexer does not give back exactly the intended token texts, separate every pair of
    /// tokens by at least one space.
    fn render_checked(&self) -> String {
        let s = self.render();
        if let Some(ts) = real_tokens(&s) {
            if ts.len() == self.toks.len()
                && ts.iter().zip(&self.toks).all(|((_, (o, l)), t)| &s[*o..*o + *l] == t.as_str())
            {
                return s;
            }
        }
        let mut d = self.clone();
        for i in 1..d.toks.len() {
            if d.gaps[i].is_empty() {
                d.gaps[i].push(' ');
            }
        }
        d.render()
    }
}

fn tight(a: &str, b: &str) -> bool {
    const SOLID: &[&str] = &[";", "{", "}", "(", ")", "<", ">", ",", "[", "]", "=", ".", ":"];
    SOLID.contains(&a) || SOLID.contains(&b)
}

fn layout(r: &mut Rng, toks: Vec<String>) -> Doc {
    let n = toks.len();
    let mut gaps = Vec::with_capacity(n + 1);
    for i in 0..=n {
        let g = if i == 0 {
            if r.chance(1, 3) { gap(r) } else { String::new() }
        } else if i == n {
            if r.chance(1, 2) { gap(r) } else { String::new() }
        } else if tight(&toks[i - 1], &toks[i]) && r.chance(1, 2) {
            String::new()
        } else {
            gap(r)
        };
        gaps.push(g);
    }
    Doc { toks, gaps }
}

fn sample_kind(r: &mut Rng, k: usize) -> String {
    // 0 Ident, 1 String, 2 PackageName, 3 PackagePath, 4.. keywords, then symbols, last: garbage
    let mut g = Gen { r, out: Vec::new() };
    match k {
        0 => g.id(),
        1 => g.string(),
        2 => g.pkgname(),
        3 => g.pkgpath(),
        k if k < 4 + KEYWORDS.len() => return KEYWORDS[k - 4].to_string(),
        k if k < 4 + KEYWORDS.len() + SYMBOLS.len() => return SYMBOLS[k - 4 - KEYWORDS.len()].to_string(),
        _ => return (*g.r.pick(GARBAGE)).to_string(),
    }
    g.out.pop().unwrap()
}
const NKINDS: usize = 4 + 39 + 18 + 1;

// ------------------------------------------------------------------------------------------------ cases

struct Sink {
    cases: std::io::BufWriter<std::fs::File>,
    obs: std::io::BufWriter<std::fs::File>,
    n: usize,
    seen: std::collections::HashSet<String>,
}

impl Sink {
    fn doc(&mut self, origin: &str, src: &str) {
        if !self.seen.insert(src.to_string()) {
            return;
        }
        // the case is on disk before the implementation runs: if the process is killed (abort, stack overflow) the
        // orchestration reports the last case as the failing input
        writeln!(self.cases, "doc\t{}\t{}\t{}", self.n, origin, enc(src)).unwrap();
        self.cases.flush().unwrap();
        writeln!(self.obs, "{}", observe_parse(src)).unwrap();
        self.obs.flush().unwrap();
        self.n += 1;
    }
    fn lex(&mut self, origin: &str, src: &str) {
        writeln!(self.cases, "lex\t{}\t{}\t{}", self.n, origin, enc(src)).unwrap();
        self.cases.flush().unwrap();
        writeln!(self.obs, "{}", observe_lex(src)).unwrap();
        self.obs.flush().unwrap();
        self.n += 1;
    }
}

fn forbidden_points() -> Vec<u32> {
    let mut v: Vec<u32> = vec![0x202a, 0x202b, 0x202c, 0x202d, 0x202e, 0x2066, 0x2067, 0x2068, 0x2069, 0x149, 0x673, 0xf77,
        0xf79, 0x17a3, 0x17a4, 0x17b4, 0x17b5];
    for c in 0..0x20u32 {
        if c != 9 && c != 10 && c != 13 {
            v.push(c);
        }
    }
    for c in 0x7f..=0x9fu32 {
        v.push(c);
    }
    v
}

struct Budget {
    del: usize,
    dup: usize,
    sub_pos: usize,
    sub_kinds: usize,
    swap: usize,
}

fn mutate(sink: &mut Sink, r: &mut Rng, origin: &str, d: &Doc, b: &Budget, inject_ix: &mut usize) {
    let n = d.toks.len();
    let pick_positions = |r: &mut Rng, want: usize, n: usize| -> Vec<usize> {
        if want >= n {
            (0..n).collect()
        } else {
            (0..want).map(|_| r.below(n as u64) as usize).collect()
        }
    };
    for i in pick_positions(r, b.del, n) {
        let mut m = d.clone();
        m.toks.remove(i);
        let g = m.gaps.remove(i);
        if m.gaps[i].is_empty() {
            m.gaps[i] = g;
        }
        sink.doc(&format!("{}:del:{}", origin, i), &m.render_checked());
    }
    for i in pick_positions(r, b.dup, n) {
        let mut m = d.clone();
        m.toks.insert(i, d.toks[i].clone());
        m.gaps.insert(i + 1, if r.chance(1, 2) { " ".into() } else { String::new() });
        sink.doc(&format!("{}:dup:{}", origin, i), &m.render_checked());
    }
    for i in pick_positions(r, b.sub_pos, n) {
        let kinds: Vec<usize> =
            if b.sub_kinds >= NKINDS { (0..NKINDS).collect() } else { (0..b.sub_kinds).map(|_| r.below(NKINDS as u64) as usize).collect() };
        for k in kinds {
            let mut m = d.clone();
            m.toks[i] = sample_kind(r, k);
            if k == NKINDS - 1 {
                // garbage lexemes are rendered as they are
                let mut g = m.clone();
                for j in 1..g.toks.len() {
                    if g.gaps[j].is_empty() && !tight(&g.toks[j - 1], &g.toks[j]) {
                        g.gaps[j].push(' ');
                    }
                }
                sink.doc(&format!("{}:sub:{}:garbage", origin, i), &g.render());
            } else {
                sink.doc(&format!("{}:sub:{}:{}", origin, i, k), &m.render_checked());
            }
        }
    }
    if n >= 2 {
        for i in pick_positions(r, b.swap, n - 1) {
            let mut m = d.clone();
            m.toks.swap(i, i + 1);
            sink.doc(&format!("{}:swap:{}", origin, i), &m.render_checked());
        }
    }
    // forbidden code point at a random character position (cycling through all of them)
    let base = d.render_checked();
    let fp = forbidden_points();
    let cp = fp[*inject_ix % fp.len()];
    *inject_ix += 1;
    let cpc = char::from_u32(cp).unwrap();
    let strings: Vec<usize> = (0..n).filter(|i| d.toks[*i].starts_with('"') && d.toks[*i].len() >= 2).collect();
    match ((*inject_ix - 1) / fp.len() + (*inject_ix - 1)) % 4 {
        // inside a comment or a string the code point is harmless to the token rules: only the screening rejects it
        0 | 1 => {
            let i = r.below(n as u64 + 1) as usize;
            let mut m = d.clone();
            let c = if r.chance(1, 2) { format!(" /* x{}y */ ", cpc) } else { format!(" // x{}y\n", cpc) };
            m.gaps[i].push_str(&c);
            sink.doc(&format!("{}:inject:{}:comment:{}", origin, cp, i), &m.render_checked());
        }
        2 if !strings.is_empty() => {
            let i = *r.pick(&strings);
            let mut m = d.clone();
            m.toks[i].insert(1, cpc);
            sink.doc(&format!("{}:inject:{}:string:{}", origin, cp, i), &m.render_checked());
        }
        _ => {
            let chars: Vec<char> = base.chars().collect();
            let pos = r.below(chars.len() as u64 + 1) as usize;
            let mut s: String = chars[..pos].iter().collect();
            s.push(cpc);
            s.extend(chars[pos..].iter());
            sink.doc(&format!("{}:inject:{}:{}", origin, cp, pos), &s);
        }
    }
    // unterminated string / comment
    match r.below(4) {
        0 => {
            if let Some(i) = (0..n).filter(|i| d.toks[*i].starts_with('"')).next() {
                let mut m = d.clone();
                m.toks[i].pop();
                // no later quote may close it
                let tail: String = m.toks[i + 1..].join(" ").replace('"', "'");
                let head = Doc { toks: m.toks[..=i].to_vec(), gaps: { let mut g = m.gaps[..=i].to_vec(); g.push(" ".into()); g } };
                sink.doc(&format!("{}:unterminated-string:{}", origin, i), &format!("{}{}", head.render(), tail));
            } else {
                sink.doc(&format!("{}:unterminated-string:end", origin), &format!("{} \"abc", base));
            }
        }
        1 => {
            let i = r.below(n as u64 + 1) as usize;
            let mut m = d.clone();
            m.gaps[i].push_str(*r.pick(&["/* open", "/* /* inner */ still open", "/*", "/** doc never closed *", "/*/"]));
            sink.doc(&format!("{}:unterminated-comment:{}", origin, i), &m.render().replace("*/", "* /").replacen("* /", "*/", 1));
        }
        2 => {
            let i = r.below(n as u64 + 1) as usize;
            let mut m = d.clone();
            m.gaps[i].push_str(" /* a /* b */ c */ ");
            sink.doc(&format!("{}:nested-comment:{}", origin, i), &m.render_checked());
        }
        _ => {}
    }
}

fn wac_files(dir: &std::path::Path, out: &mut Vec<std::path::PathBuf>) {
    if let Ok(rd) = std::fs::read_dir(dir) {
        let mut es: Vec<_> = rd.flatten().map(|e| e.path()).collect();
        es.sort();
        for p in es {
            let name = p.file_name().and_then(|s| s.to_str()).unwrap_or("");
            if p.is_dir() {
                if name != "target" && name != ".git" {
                    wac_files(&p, out);
                }
            } else if name.ends_with(".wac") {
                out.push(p);
            }
        }
    }
}

fn main() {
    let a: Vec<String> = std::env::args().collect();
    if a.len() < 5 {
        eprintln!("usage: c12 <tier> <seed> <cases_out> <impl_out> [replay]");
        std::process::exit(2);
    }
    std::panic::set_hook(Box::new(|_| {}));
    if let Ok(f) = std::fs::File::create(format!("{}.pending", a[3])) {
        let _ = PENDING.set(std::sync::Mutex::new(f));
    }
    let thorough = a[1] == "thorough";
    let seed: u64 = a[2].parse().unwrap_or(1);
    let mut sink = Sink {
        cases: std::io::BufWriter::new(std::fs::File::create(&a[3]).unwrap()),
        obs: std::io::BufWriter::new(std::fs::File::create(&a[4]).unwrap()),
        n: 0,
        seen: Default::default(),
    };
    if a.len() > 5 {
        // replay: lines `doc|lex \t id \t origin \t codepoints`
        for line in std::fs::read_to_string(&a[5]).unwrap().lines() {
            let f: Vec<&str> = line.split('\t').collect();
            if f.len() < 4 {
                continue;
            }
            let src: String = if f[3] == "-" { String::new() } else {
                f[3].split(',').map(|x| char::from_u32(x.parse().unwrap()).unwrap()).collect()
            };
            if f[0] == "lex" { sink.lex(f[2], &src) } else { sink.doc(f[2], &src) }
        }
        return;
    }
    let mut r = Rng::new(seed ^ 0xC12);
    let mut inject_ix = (seed as usize).wrapping_mul(7);
    let repo = std::env::var("VERIF_REPO").unwrap_or_else(|_| "/repo".into());
    // fixed lexical probes first
    for (i, g) in GARBAGE.iter().enumerate() {
        sink.lex(&format!("probe:{}", i), g);
        sink.doc(&format!("probe:{}", i), &format!("package a:b; let x = {};", g));
    }
    for (i, s) in ["", " ", "package", "package a:b", "package a:b;", "package a:b; // \u{e9}", "package a:b; let",
        "package a:b;\r\n/** d */\r\n/// e\r\nlet x = y;", "package a:b; /** a */ /**/ /***/ /// b \r\n let x = y;",
        "/// top\n/** two */package a:b;", "package a:b; let x = y; \u{e9}"].iter().enumerate()
    {
        sink.lex(&format!("edge:{}", i), s);
        sink.doc(&format!("edge:{}", i), s);
    }
    for (i, c) in COMMENT_EDGES.iter().enumerate() {
        for (j, s) in [format!("{} package a:b;", c), format!("package a:b; {} let x = y;", c), format!("package a:b; let x = y; {}", c)]
            .iter()
            .enumerate()
        {
            sink.lex(&format!("comment-edge:{}:{}", i, j), s);
            sink.doc(&format!("comment-edge:{}:{}", i, j), s);
        }
    }
    // every .wac file of the repository
    let mut files = Vec::new();
    wac_files(std::path::Path::new(&repo), &mut files);
    let corpus_budget = if thorough {
        Budget { del: usize::MAX, dup: usize::MAX, sub_pos: 12, sub_kinds: NKINDS, swap: usize::MAX }
    } else {
        Budget { del: 3, dup: 2, sub_pos: 3, sub_kinds: 1, swap: 2 }
    };
    for p in &files {
        let Ok(src) = std::fs::read_to_string(p) else { continue };
        let rel = p.strip_prefix(&repo).unwrap_or(p).display().to_string();
        sink.lex(&format!("file:{}", rel), &src);
        sink.doc(&format!("file:{}", rel), &src);
        if let Some(ts) = real_tokens(&src) {
            if ts.is_empty() {
                continue;
            }
            let mut toks = Vec::new();
            let mut gaps = Vec::new();
            let mut at = 0;
            for (_, (o, l)) in &ts {
                gaps.push(src[at..*o].to_string());
                toks.push(src[*o..*o + *l].to_string());
                at = o + l;
            }
            gaps.push(src[at..].to_string());
            let d = Doc { toks, gaps };
            mutate(&mut sink, &mut r, &format!("file:{}", rel), &d, &corpus_budget, &mut inject_ix);
        }
    }
    // generated documents
    let (ndocs, max_statements, budget) = if thorough {
        (1400usize, 10u64, Budget { del: usize::MAX, dup: usize::MAX, sub_pos: 6, sub_kinds: NKINDS, swap: usize::MAX })
    } else {
        (300usize, 5u64, Budget { del: 6, dup: 4, sub_pos: 8, sub_kinds: 1, swap: 4 })
    };
    for i in 0..ndocs {
        let mut g = Gen { r: &mut r, out: Vec::new() };
        g.document(max_statements, 6);
        let toks = g.out;
        let d = layout(&mut r, toks);
        let origin = format!("gen:{}", i);
        let src = d.render_checked();
        sink.lex(&origin, &src);
        sink.doc(&origin, &src);
        mutate(&mut sink, &mut r, &origin, &d, &budget, &mut inject_ix);
    }
    sink.cases.flush().unwrap();
    sink.obs.flush().unwrap();
}
