fn main() { println!("{:?}", wac_types::verif_alternate_lookup_key("a:b/c@1.2.3")); }
