//! C16 reproducibility search: every case is executed twice in one process, on a clone of the graph, and in
//! N fresh worker processes (fresh per-process hash randomisation); all observations must coincide.
//!
//! usage:
//!   c16 run <quick|thorough> <seed> <procs> <cases_out> <impl_out> [replay_cases_in]
//!   c16 --worker <cases_in> <obs_out>
//!
//! cases file: one case per line
//!   `H op;op;...`                         graph-API history (ops as in c06, over this file's universe)
//!   `D <deps-dir>|<path of .wac file>`    document: parse -> print, AST json; resolve -> dot, encode x2; errors -> rendered diagnostics
//!   `W <deps-dir>|<name>|<hex of source>` inline document, same pipeline
//! impl file: one line per case: `SAME <observation>` or `DIFF p0=<obs> ;; p1=<obs> ...` (only the differing fields are listed
//!   after a `fields=` list), preceded by `SELF` markers when a single process already disagreed with itself.
use std::collections::BTreeMap;
use std::fmt::Write as _;
use std::io::Write;
use std::panic::{catch_unwind, AssertUnwindSafe};
use std::path::{Path, PathBuf};
use wac_graph::{types::*, CompositionGraph, EncodeOptions, NodeId, PackageId};
use wacv::Rng;

// ------------------------------------------------------------------------------------------------ SHA-256
fn sha256(data: &[u8]) -> String {
    const K: [u32; 64] = [
        0x428a2f98, 0x71374491, 0xb5c0fbcf, 0xe9b5dba5, 0x3956c25b, 0x59f111f1, 0x923f82a4, 0xab1c5ed5, 0xd807aa98, 0x12835b01,
        0x243185be, 0x550c7dc3, 0x72be5d74, 0x80deb1fe, 0x9bdc06a7, 0xc19bf174, 0xe49b69c1, 0xefbe4786, 0x0fc19dc6, 0x240ca1cc,
        0x2de92c6f, 0x4a7484aa, 0x5cb0a9dc, 0x76f988da, 0x983e5152, 0xa831c66d, 0xb00327c8, 0xbf597fc7, 0xc6e00bf3, 0xd5a79147,
        0x06ca6351, 0x14292967, 0x27b70a85, 0x2e1b2138, 0x4d2c6dfc, 0x53380d13, 0x650a7354, 0x766a0abb, 0x81c2c92e, 0x92722c85,
        0xa2bfe8a1, 0xa81a664b, 0xc24b8b70, 0xc76c51a3, 0xd192e819, 0xd6990624, 0xf40e3585, 0x106aa070, 0x19a4c116, 0x1e376c08,
        0x2748774c, 0x34b0bcb5, 0x391c0cb3, 0x4ed8aa4a, 0x5b9cca4f, 0x682e6ff3, 0x748f82ee, 0x78a5636f, 0x84c87814, 0x8cc70208,
        0x90befffa, 0xa4506ceb, 0xbef9a3f7, 0xc67178f2,
    ];
    let mut h: [u32; 8] = [0x6a09e667, 0xbb67ae85, 0x3c6ef372, 0xa54ff53a, 0x510e527f, 0x9b05688c, 0x1f83d9ab, 0x5be0cd19];
    let mut msg = data.to_vec();
    let bitlen = (data.len() as u64).wrapping_mul(8);
    msg.push(0x80);
    while msg.len() % 64 != 56 { msg.push(0); }
    msg.extend_from_slice(&bitlen.to_be_bytes());
    for chunk in msg.chunks(64) {
        let mut w = [0u32; 64];
        for i in 0..16 { w[i] = u32::from_be_bytes([chunk[4 * i], chunk[4 * i + 1], chunk[4 * i + 2], chunk[4 * i + 3]]); }
        for i in 16..64 {
            let s0 = w[i - 15].rotate_right(7) ^ w[i - 15].rotate_right(18) ^ (w[i - 15] >> 3);
            let s1 = w[i - 2].rotate_right(17) ^ w[i - 2].rotate_right(19) ^ (w[i - 2] >> 10);
            w[i] = w[i - 16].wrapping_add(s0).wrapping_add(w[i - 7]).wrapping_add(s1);
        }
        let (mut a, mut b, mut c, mut d, mut e, mut f, mut g, mut hh) = (h[0], h[1], h[2], h[3], h[4], h[5], h[6], h[7]);
        for i in 0..64 {
            let s1 = e.rotate_right(6) ^ e.rotate_right(11) ^ e.rotate_right(25);
            let ch = (e & f) ^ (!e & g);
            let t1 = hh.wrapping_add(s1).wrapping_add(ch).wrapping_add(K[i]).wrapping_add(w[i]);
            let s0 = a.rotate_right(2) ^ a.rotate_right(13) ^ a.rotate_right(22);
            let maj = (a & b) ^ (a & c) ^ (b & c);
            let t2 = s0.wrapping_add(maj);
            hh = g; g = f; f = e; e = d.wrapping_add(t1); d = c; c = b; b = a; a = t1.wrapping_add(t2);
        }
        for (x, y) in h.iter_mut().zip([a, b, c, d, e, f, g, hh]) { *x = x.wrapping_add(y); }
    }
    h.iter().map(|x| format!("{x:08x}")).collect()
}
fn sha(data: &[u8]) -> String { sha256(data)[..20].to_string() }

fn clean(s: &str) -> String { s.replace(['\n', '\r', '\t', ';', '|'], " ").chars().take(160).collect() }

// ------------------------------------------------------------------------------------------------ universe
pub const NAMES: &[&str] = &[
    "f", "g", "i", "x", "h", "k", "foo", "bar", "y", "e", "out", "t-a", "t-b", "t-c", "t-d", "t-e", "t-f", "t-g", "t-h", "t-i", "t-j",
    "imp-a", "imp-b", "imp-c", "imp-d", "imp-e", "imp-f", "imp-g", "imp-h", "foo:bar/baz@0.1.0", "foo:bar/baz@0.1.2", "inst",
    "foo:bar/types@1.0.0", "foo:bar/types@1.2.0", "h2", "t", "u",
    // 37..43: one semver track of import names (explicit-import merge conflicts)
    "x:y/z@0.2.0", "x:y/z@0.2.1", "x:y/z@0.2.2", "x:y/z@0.2.3", "x:y/z@0.2.4", "x:y/z@0.2.5", "x:y/z@0.2.6",
];

struct PkgDesc { name: &'static str, version: Option<&'static str>, wat: &'static str }
const PKGS: &[PkgDesc] = &[
    PkgDesc { name: "test:a", version: None, wat: r#"(component
        (import "f" (func))
        (import "i" (instance (export "x" (func))))
        (alias export 0 "x" (func))
        (instance (export "h" (func 0)) (export "x" (func 1)))
        (export "g" (func 0))
        (export "inst" (instance 1)))"# },
    PkgDesc { name: "test:b", version: Some("1.0.0"), wat: r#"(component
        (import "f" (func)) (import "k" (func)) (export "g" (func 0)))"# },
    PkgDesc { name: "test:b", version: Some("2.0.0"), wat: r#"(component
        (import "g" (func (param "a" u32))) (import "f" (func)) (export "f" (func 1)))"# },
    PkgDesc { name: "test:c", version: None, wat: r#"(component
        (import "i" (instance (export "x" (func)) (export "y" (func)))) (export "i" (instance 0)))"# },
    PkgDesc { name: "test:d", version: None, wat: r#"(component
        (import "foo:bar/baz@0.1.0" (instance (export "x" (func)))) (export "out" (instance 0)))"# },
    PkgDesc { name: "test:e", version: None, wat: r#"(component
        (import "foo:bar/baz@0.1.1" (instance (export "x" (func)) (export "y" (func)))) (import "h" (func)) (export "h2" (func 0)))"# },
    PkgDesc { name: "test:f", version: None, wat: r#"(component
        (import "h" (func)) (import "f" (func)) (import "i" (instance (export "x" (func)))) (export "e" (func 1)))"# },
    PkgDesc { name: "test:g", version: None, wat: r#"(component
        (import "foo:bar/types@1.0.0" (instance (export "t" (type (sub resource))))) (import "k" (func)) (export "k" (func 0)))"# },
    PkgDesc { name: "test:h", version: None, wat: r#"(component
        (import "foo:bar/types@1.2.0" (instance (export "t" (type (sub resource))) (export "u" (type (sub resource)))))
        (import "f" (func)) (export "f" (func 0)))"# },
    // plugging: a socket with eight imports; one plug that fills all of them; two plugs that fill them between them
    PkgDesc { name: "test:socket", version: None, wat: r#"(component
        (import "sa" (func)) (import "sb" (func)) (import "sc" (func)) (import "sd" (func)) (import "se" (func)) (import "sf" (func))
        (import "si" (instance (export "x" (func)))) (import "sj" (instance (export "x" (func)) (export "y" (func))))
        (export "out" (func 0)) (export "out-i" (instance 1)))"# },
    PkgDesc { name: "test:plug-all", version: None, wat: r#"(component
        (import "z" (func)) (import "zi" (instance (export "x" (func)) (export "y" (func))))
        (export "sa" (func 0)) (export "sb" (func 0)) (export "sc" (func 0)) (export "sd" (func 0)) (export "se" (func 0)) (export "sf" (func 0))
        (export "si" (instance 0)) (export "sj" (instance 0)))"# },
    PkgDesc { name: "test:plug-half", version: None, wat: r#"(component
        (import "z" (func)) (export "sa" (func 0)) (export "sb" (func 0)) (export "sc" (func 0)))"# },
    PkgDesc { name: "test:plug-rest", version: None, wat: r#"(component
        (import "k" (func)) (import "zi" (instance (export "x" (func)) (export "y" (func))))
        (export "sd" (func 0)) (export "se" (func 0)) (export "sf" (func 0)) (export "si" (instance 0)) (export "sj" (instance 0)))"# },
    // 13, 14: instantiations that implicitly import names of the x:y/z@0.2 track
    PkgDesc { name: "test:z1", version: None, wat: r#"(component
        (import "x:y/z@0.2.1" (instance (export "x" (func)))) (export "o1" (instance 0)))"# },
    PkgDesc { name: "test:z3", version: None, wat: r#"(component
        (import "x:y/z@0.2.3" (instance (export "x" (func)) (export "y" (func)))) (import "k" (func)) (export "o3" (instance 0)))"# },
];

struct Local { defs: Vec<Type>, kinds: Vec<ItemKind> }

/// deterministic construction of the type universe: a base type, eight types that depend on it (directly or
/// through each other), two independent ones, a func type; importable kinds.
fn mk_graph() -> (CompositionGraph, Local) {
    let mut g = CompositionGraph::new();
    let t = g.types_mut();
    let d = |id| ValueType::Defined(id);
    let t0 = t.add_defined_type(DefinedType::Alias(ValueType::Primitive(PrimitiveType::U32)));
    let t1 = t.add_defined_type(DefinedType::List(d(t0)));
    let t2 = t.add_defined_type(DefinedType::Tuple(vec![d(t0), d(t1)]));
    let t3 = t.add_defined_type(DefinedType::Option(d(t0)));
    let t4 = t.add_defined_type(DefinedType::Result { ok: Some(d(t0)), err: None });
    let t5 = t.add_defined_type(DefinedType::List(d(t1)));
    let t6 = t.add_defined_type(DefinedType::Tuple(vec![d(t3), d(t0)]));
    let t7 = t.add_defined_type(DefinedType::Option(d(t2)));
    let t8 = t.add_defined_type(DefinedType::List(d(t0)));           // structurally equal to t1, distinct id
    let t9 = t.add_defined_type(DefinedType::Alias(ValueType::Primitive(PrimitiveType::String)));
    let t10 = t.add_defined_type(DefinedType::List(d(t9)));
    let f0 = t.add_func_type(FuncType { params: Default::default(), result: None, is_async: false });
    let mut p = indexmap::IndexMap::new();
    p.insert("a".to_string(), ValueType::Primitive(PrimitiveType::U32));
    let f1 = t.add_func_type(FuncType { params: p, result: None, is_async: false });
    let mut e0 = indexmap::IndexMap::new();
    e0.insert("x".to_string(), ItemKind::Func(f0));
    let if0 = t.add_interface(Interface { id: None, uses: Default::default(), exports: e0.clone() });
    e0.insert("y".to_string(), ItemKind::Func(f0));
    let if1 = t.add_interface(Interface { id: None, uses: Default::default(), exports: e0.clone() });
    let mut ebad = indexmap::IndexMap::new();
    ebad.insert("x".to_string(), ItemKind::Func(f1));
    let ifbad = t.add_interface(Interface { id: None, uses: Default::default(), exports: ebad });
    let if2 = t.add_interface(Interface { id: Some("foo:bar/baz@0.1.2".into()), uses: Default::default(), exports: e0 });
    // three interfaces on one semver track; the 1.0.0 one uses a type of the 1.1.0 one
    let tk = ItemKind::Type(Type::Value(ValueType::Defined(t0)));
    let mut eb = indexmap::IndexMap::new();
    eb.insert("t".to_string(), tk); eb.insert("fb".to_string(), ItemKind::Func(f0));
    let ifb = t.add_interface(Interface { id: Some("a:b/c@1.1.0".into()), uses: Default::default(), exports: eb });
    let mut ea = indexmap::IndexMap::new();
    ea.insert("t".to_string(), tk); ea.insert("fa".to_string(), ItemKind::Func(f0));
    let mut ua = indexmap::IndexMap::new();
    ua.insert("t".to_string(), UsedType { interface: ifb, name: None });
    let ifa = t.add_interface(Interface { id: Some("a:b/c@1.0.0".into()), uses: ua, exports: ea });
    let mut ec = indexmap::IndexMap::new();
    ec.insert("fc".to_string(), ItemKind::Func(f0));
    let ifc = t.add_interface(Interface { id: Some("a:b/c@1.2.0".into()), uses: Default::default(), exports: ec });
    let ty = |id| Type::Value(ValueType::Defined(id));
    let defs = vec![ty(t0), ty(t1), ty(t2), ty(t3), ty(t4), ty(t5), ty(t6), ty(t7), ty(t8), ty(t9), ty(t10), Type::Func(f0)];
    let kinds = vec![ItemKind::Func(f0), ItemKind::Func(f1), ItemKind::Instance(if0), ItemKind::Instance(if1),
                     ItemKind::Type(ty(t0)), ItemKind::Type(ty(t1)), ItemKind::Instance(if2),
                     ItemKind::Instance(ifa), ItemKind::Instance(ifc), ItemKind::Instance(ifb),
                     ItemKind::Instance(ifbad)];
    (g, Local { defs, kinds })
}
const NDEFS: usize = 12;
const NKINDS: usize = 11;

fn mk_pkg(g: &mut CompositionGraph, i: usize) -> Package {
    let v = PKGS[i].version.map(|v| semver::Version::parse(v).unwrap());
    Package::from_bytes(PKGS[i].name, v.as_ref(), wat::parse_str(PKGS[i].wat).expect("wat"), g.types_mut()).expect("package")
}

// ------------------------------------------------------------------------------------------------ ops
#[derive(Clone, Debug)]
enum Op { Reg(usize), Unreg(usize, usize), Def(usize, usize), Imp(usize, usize), Inst(usize, usize), Alias(usize, usize),
    SetArg(usize, usize, usize), UnsetArg(usize, usize, usize), Export(usize, usize), Unexport(usize), Name(usize, usize), Rm(usize),
    Plug(usize, usize), PlugList(usize, Vec<usize>) }

fn show_op(o: &Op) -> String {
    match o {
        Op::Reg(p) => format!("reg {p}"), Op::Unreg(i, g) => format!("unreg {i} {g}"), Op::Def(n, t) => format!("def {n} {t}"),
        Op::Imp(n, k) => format!("imp {n} {k}"), Op::Inst(i, g) => format!("inst {i} {g}"), Op::Alias(n, e) => format!("alias {n} {e}"),
        Op::SetArg(i, a, n) => format!("setarg {i} {a} {n}"), Op::UnsetArg(i, a, n) => format!("unsetarg {i} {a} {n}"),
        Op::Export(n, e) => format!("export {n} {e}"), Op::Unexport(n) => format!("unexport {n}"), Op::Name(n, s) => format!("name {n} {s}"),
        Op::Rm(n) => format!("rm {n}"), Op::Plug(a, b) => format!("plug {a} {b}"),
        Op::PlugList(s, ps) => format!("plugl {s}{}", ps.iter().map(|p| format!(" {p}")).collect::<String>()),
    }
}
fn parse_op(s: &str) -> Option<Op> {
    let f: Vec<&str> = s.split(' ').collect();
    let n = |i: usize| -> Option<usize> { f.get(i)?.parse::<usize>().ok() };
    Some(match *f.first()? {
        "reg" => Op::Reg(n(1)?), "unreg" => Op::Unreg(n(1)?, n(2)?), "def" => Op::Def(n(1)?, n(2)?), "imp" => Op::Imp(n(1)?, n(2)?),
        "inst" => Op::Inst(n(1)?, n(2)?), "alias" => Op::Alias(n(1)?, n(2)?), "setarg" => Op::SetArg(n(1)?, n(2)?, n(3)?),
        "unsetarg" => Op::UnsetArg(n(1)?, n(2)?, n(3)?), "export" => Op::Export(n(1)?, n(2)?), "unexport" => Op::Unexport(n(1)?),
        "name" => Op::Name(n(1)?, n(2)?), "rm" => Op::Rm(n(1)?), "plug" => Op::Plug(n(1)?, n(2)?),
        "plugl" => { let ps: Option<Vec<usize>> = (2..f.len()).map(n).collect(); Op::PlugList(n(1)?, ps?) }
        _ => return None,
    })
}

struct Run { g: CompositionGraph, local: Local, pkgs: BTreeMap<(usize, usize), PackageId>, stale: std::collections::BTreeSet<(usize, usize)>, dead: bool }

fn pid_pair(p: PackageId) -> (usize, usize) {
    let s = format!("{p:?}");
    let nums: Vec<usize> = s.split(|c: char| !c.is_ascii_digit()).filter(|x| !x.is_empty()).map(|x| x.parse().unwrap()).collect();
    (nums[0], nums[1])
}

impl Run {
    fn new() -> Self { let (g, local) = mk_graph(); Run { g, local, pkgs: BTreeMap::new(), stale: Default::default(), dead: false } }
    fn node(&self, n: usize) -> Option<NodeId> { self.g.node_ids().find(|i| i.to_string() == n.to_string()) }
    fn live_nodes(&self) -> Vec<usize> { self.g.node_ids().map(|i| i.to_string().parse().unwrap()).collect() }

    fn apply(&mut self, op: &Op) -> String {
        if self.dead { return "SKIPPED".into(); }
        match catch_unwind(AssertUnwindSafe(|| self.apply_inner(op))) {
            Ok(s) => s,
            Err(e) => { self.dead = true;
                let msg = e.downcast_ref::<String>().cloned().or_else(|| e.downcast_ref::<&str>().map(|s| s.to_string())).unwrap_or_default();
                format!("PANIC({})", clean(&msg)) }
        }
    }
    fn apply_inner(&mut self, op: &Op) -> String {
        use wac_graph::*;
        macro_rules! nid { ($n:expr) => { match self.node($n) { Some(x) => x, None => return "DEAD-NODE".into() } } }
        macro_rules! pk { ($i:expr, $g:expr) => { match self.pkgs.get(&($i, $g)) { Some(x) if !self.stale.contains(&($i, $g)) => *x, _ => return "DEAD-PKG".into() } } }
        macro_rules! nm { ($n:expr) => { match NAMES.get($n) { Some(x) => *x, None => return "BAD-NAME".into() } } }
        match op {
            Op::Reg(p) => { if *p >= PKGS.len() { return "BAD-PKG".into(); } let pkg = mk_pkg(&mut self.g, *p); match self.g.register_package(pkg) {
                Ok(id) => { let pr = pid_pair(id); self.pkgs.insert(pr, id); self.stale.remove(&pr); format!("pkg{}.{}", pr.0, pr.1) }
                Err(e) => format!("E:{}", clean(&e.to_string())) } }
            Op::Unreg(i, gen) => { let id = pk!(*i, *gen); self.g.unregister_package(id); self.stale.insert((*i, *gen)); "ok".into() }
            Op::Def(n, t) => { if *t >= NDEFS { return "BAD-TY".into(); } match self.g.define_type(nm!(*n), self.local.defs[*t]) {
                Ok(id) => format!("n{id}"), Err(e) => format!("E:{}", clean(&e.to_string())) } }
            Op::Imp(n, k) => { if *k >= NKINDS { return "BAD-KIND".into(); } match self.g.import(nm!(*n), self.local.kinds[*k]) {
                Ok(id) => format!("n{id}"), Err(e) => format!("E:{}", clean(&e.to_string())) } }
            Op::Inst(i, gen) => { let id = pk!(*i, *gen); format!("n{}", self.g.instantiate(id)) }
            Op::Alias(n, e) => match self.g.alias_instance_export(nid!(*n), nm!(*e)) { Ok(id) => format!("n{id}"), Err(e) => format!("E:{}", clean(&e.to_string())) },
            Op::SetArg(i, a, n) => match self.g.set_instantiation_argument(nid!(*i), nm!(*a), nid!(*n)) { Ok(()) => "ok".into(), Err(e) => format!("E:{}", clean(&e.to_string())) },
            Op::UnsetArg(i, a, n) => match self.g.unset_instantiation_argument(nid!(*i), nm!(*a), nid!(*n)) { Ok(()) => "ok".into(), Err(e) => format!("E:{}", clean(&e.to_string())) },
            Op::Export(n, e) => match self.g.export(nid!(*n), nm!(*e)) { Ok(()) => "ok".into(), Err(e) => format!("E:{}", clean(&e.to_string())) },
            Op::Unexport(n) => match self.g.unexport(nid!(*n)) { Ok(()) => "ok".into(), Err(e) => format!("E:{}", clean(&e.to_string())) },
            Op::Name(n, s) => { let id = nid!(*n); self.g.set_node_name(id, nm!(*s)); "ok".into() }
            Op::Rm(n) => { let id = nid!(*n); self.g.remove_node(id); "ok".into() }
            Op::Plug(a, b) => {
                // library plug: every registered, live package whose slot index is in [a, a+b) is plugged into the socket in slot order
                let live: Vec<((usize, usize), PackageId)> = self.pkgs.iter().filter(|(k, _)| !self.stale.contains(k)).map(|(k, v)| (*k, *v)).collect();
                if live.len() < 2 { return "NO-PLUGS".into(); }
                let socket = live[*a % live.len()].1;
                let plugs: Vec<PackageId> = live.iter().filter(|(_, p)| *p != socket).take(1 + *b % 4).map(|(_, p)| *p).collect();
                match wac_graph::plug(&mut self.g, plugs, socket) { Ok(()) => "ok".into(), Err(e) => format!("E:{}", clean(&e.to_string())) }
            }
            Op::PlugList(sk, ps) => {
                // library plug with the socket and the plugs named by package slot (generation 0), plugs in the given order
                let socket = pk!(*sk, 0);
                let mut plugs = Vec::new();
                for p in ps { plugs.push(pk!(*p, 0)); }
                match wac_graph::plug(&mut self.g, plugs, socket) {
                    Ok(()) => "ok".into(),
                    Err(e) => { let mut m = e.to_string(); let mut src = std::error::Error::source(&e);
                        while let Some(x) = src { m.push_str(" / "); m.push_str(&x.to_string()); src = x.source(); }
                        format!("E:{}", clean(&m)) }
                }
            }
        }
    }
}

// ------------------------------------------------------------------------------------------------ observations
/// order of the top-level imports / instantiations / exports / definitions of an encoded component
fn extract_order(bytes: &[u8]) -> String {
    use wasmparser::{Parser, Payload};
    let mut o = String::new();
    let mut depth = 0usize;
    for p in Parser::new(0).parse_all(bytes) {
        let Ok(p) = p else { o.push_str("<parse-error>"); break };
        match p {
            Payload::ComponentSection { .. } | Payload::ModuleSection { .. } => depth += 1,
            Payload::End(_) => { depth = depth.saturating_sub(1); }
            Payload::ComponentImportSection(s) if depth == 0 => for i in s.into_iter().flatten() { let _ = write!(o, "I:{} ", i.name.0); },
            Payload::ComponentExportSection(s) if depth == 0 => for e in s.into_iter().flatten() { let _ = write!(o, "X:{}={:?}{} ", e.name.0, e.kind, e.index); },
            Payload::ComponentInstanceSection(s) if depth == 0 => for i in s.into_iter().flatten() {
                match i {
                    wasmparser::ComponentInstance::Instantiate { component_index, args } => {
                        let _ = write!(o, "S:c{component_index}(");
                        for a in args.iter() { let _ = write!(o, "{}={:?}{},", a.name, a.kind, a.index); }
                        o.push_str(") ");
                    }
                    wasmparser::ComponentInstance::FromExports(e) => { let _ = write!(o, "S:exports{} ", e.len()); }
                }
            },
            Payload::ComponentAliasSection(s) if depth == 0 => for a in s.into_iter().flatten() {
                if let wasmparser::ComponentAlias::InstanceExport { instance_index, name, .. } = a { let _ = write!(o, "A:{instance_index}.{name} "); }
            },
            Payload::ComponentTypeSection(s) if depth == 0 => { let _ = write!(o, "T{} ", s.count()); }
            _ => {}
        }
    }
    o
}

fn enc_obs(g: &CompositionGraph, define: bool) -> (String, String) {
    let r = catch_unwind(AssertUnwindSafe(|| g.encode(EncodeOptions { define_components: define, validate: true, processor: None })));
    match r {
        Ok(Ok(b)) => (format!("ok:{}:{}", sha(&b), b.len()), extract_order(&b)),
        Ok(Err(e)) => {
            // the fields that the Display text leaves out (node ids, names) are part of the observation
            let mut msg = match &e {
                wac_graph::EncodeError::ImportTypeMergeConflict { import, first, second, .. } =>
                    format!("ImportTypeMergeConflict{{import={import} first={first} second={second}}} "),
                wac_graph::EncodeError::ImplicitImportConflict { import, instantiation, package, name } =>
                    format!("ImplicitImportConflict{{import={import} instantiation={instantiation} package={package} name={name}}} "),
                wac_graph::EncodeError::GraphContainsCycle { node } => format!("GraphContainsCycle{{node={node}}} "),
                _ => String::new(),
            };
            msg.push_str(&e.to_string());
            let mut src: Option<&dyn std::error::Error> = std::error::Error::source(&e);
            while let Some(s) = src { msg.push_str(" / "); msg.push_str(&s.to_string()); src = s.source(); }
            (format!("E:{}:{}", sha(msg.as_bytes()), clean(&msg)), String::new())
        }
        Err(_) => ("PANIC".into(), String::new()),
    }
}

fn graph_obs(g: &CompositionGraph) -> Vec<(String, String)> {
    let mut v = Vec::new();
    let imports = catch_unwind(AssertUnwindSafe(|| g.imports().map(|(n, _, nd)| format!("{n}@{}", nd.map(|x| x.to_string()).unwrap_or("-".into()))).collect::<Vec<_>>().join(",")))
        .unwrap_or_else(|_| "PANIC".into());
    v.push(("imports".into(), format!("{}:{}", sha(imports.as_bytes()), clean(&imports))));
    let dot = catch_unwind(AssertUnwindSafe(|| format!("{g:?}"))).unwrap_or_else(|_| "PANIC".into());
    v.push(("dot".into(), sha(dot.as_bytes())));
    let (a, oa) = enc_obs(g, true);
    let (b, ob) = enc_obs(g, false);
    v.push(("encA".into(), a)); v.push(("encB".into(), b));
    v.push(("orderA".into(), oa)); v.push(("orderB".into(), ob));
    v
}

fn fields_to_string(v: &[(String, String)]) -> String { v.iter().map(|(k, x)| format!("{k}={x}")).collect::<Vec<_>>().join("|") }

fn history_once(ops: &[Op]) -> (Vec<(String, String)>, Run) {
    let mut run = Run::new();
    let mut trace = String::new();
    for o in ops { let r = run.apply(o); trace.push_str(&r); trace.push(','); }
    let mut v = vec![("trace".to_string(), format!("{}:{}", sha(trace.as_bytes()), clean(&trace)))];
    if run.dead { v.push(("state".into(), "DEAD".into())); } else { v.extend(graph_obs(&run.g)); }
    (v, run)
}

/// full observation of a history: first execution, second encode of the same graph, clone, complete re-execution
fn history_obs(ops: &[Op]) -> String {
    let (v1, run) = history_once(ops);
    let s1 = fields_to_string(&v1);
    let mut out = s1.clone();
    if !run.dead {
        let again = fields_to_string(&graph_obs(&run.g));
        let cl = run.g.clone();
        let clone = fields_to_string(&graph_obs(&cl));
        let base = fields_to_string(&v1[1..]);
        let _ = write!(out, "|again={}", if again == base { "same".to_string() } else { format!("SELFDIFF[{again}]") });
        let _ = write!(out, "|clone={}", if clone == base { "same".to_string() } else { format!("SELFDIFF[{clone}]") });
    }
    let (v2, _) = history_once(ops);
    let s2 = fields_to_string(&v2);
    let _ = write!(out, "|rerun={}", if s2 == s1 { "same".to_string() } else { format!("SELFDIFF[{s2}]") });
    out
}

fn fmt_err(e: impl Into<miette::Report>, path: &str, source: &str) -> String {
    use miette::{GraphicalReportHandler, GraphicalTheme, NamedSource};
    let mut s = String::new();
    let e = e.into();
    GraphicalReportHandler::new().with_cause_chain().with_theme(GraphicalTheme::unicode_nocolor())
        .render_report(&mut s, e.with_source_code(NamedSource::new(path, source.to_string())).as_ref()).expect("render");
    s
}

fn document_once(deps: &str, name: &str, source: &str) -> Vec<(String, String)> {
    use wac_parser::Document;
    use wac_resolver::{packages, FileSystemPackageResolver};
    let mut v: Vec<(String, String)> = Vec::new();
    let diag = |v: &mut Vec<(String, String)>, stage: &str, d: String| {
        let head = d.lines().map(|l| l.trim()).filter(|l| !l.is_empty()).take(2).collect::<Vec<_>>().join(" ");
        v.push((format!("diag.{stage}"), format!("{}:{}", sha(d.as_bytes()), clean(&head))));
    };
    let doc = match catch_unwind(AssertUnwindSafe(|| Document::parse(source))) {
        Err(_) => { v.push(("parse".into(), "PANIC".into())); return v; }
        Ok(Err(e)) => { diag(&mut v, "parse", fmt_err(e, name, source)); return v; }
        Ok(Ok(d)) => d,
    };
    // printed text and the AST as `wac parse` prints it
    let mut printed = String::new();
    let pr = catch_unwind(AssertUnwindSafe(|| wac_parser::DocumentPrinter::new(&mut printed, source, None).document(&doc).is_ok()));
    v.push(("print".into(), match pr { Ok(true) => sha(printed.as_bytes()), Ok(false) => "fmt-error".into(), Err(_) => "PANIC".into() }));
    v.push(("ast".into(), sha(serde_json::to_string_pretty(&doc).unwrap_or_default().as_bytes())));
    let r = catch_unwind(AssertUnwindSafe(|| -> Result<wac_parser::resolution::Resolution, (String, String)> {
        let keys = packages(&doc).map_err(|e| ("discover".to_string(), fmt_err(e, name, source)))?;
        let resolver = FileSystemPackageResolver::new(deps, Default::default(), true);
        let pk = resolver.resolve(&keys).map_err(|e| ("fs".to_string(), fmt_err(e, name, source)))?;
        doc.resolve(pk).map_err(|e| ("resolve".to_string(), fmt_err(e, name, source)))
    }));
    let resolution = match r {
        Err(_) => { v.push(("resolve".into(), "PANIC".into())); return v; }
        Ok(Err((st, d))) => { diag(&mut v, &st, d); return v; }
        Ok(Ok(r)) => r,
    };
    v.push(("dot".into(), sha(format!("{:?}", resolution.graph()).as_bytes())));
    for (tag, define) in [("encA", true), ("encB", false)] {
        let r = catch_unwind(AssertUnwindSafe(|| resolution.encode(EncodeOptions { define_components: define, validate: true, processor: None })));
        match r {
            Err(_) => v.push((tag.into(), "PANIC".into())),
            Ok(Err(e)) => diag(&mut v, tag, fmt_err(e, name, source)),
            Ok(Ok(b)) => { v.push((tag.into(), format!("ok:{}:{}", sha(&b), b.len()))); v.push((format!("order{}", &tag[3..]), extract_order(&b))); }
        }
    }
    // encode through the graph API on a clone of the resolved graph
    let cl = resolution.graph().clone();
    let (a, _) = enc_obs(&cl, true);
    v.push(("cloneA".into(), a));
    v
}

fn document_obs(deps: &str, name: &str, source: &str) -> String {
    let s1 = fields_to_string(&document_once(deps, name, source));
    let s2 = fields_to_string(&document_once(deps, name, source));
    format!("{s1}|rerun={}", if s1 == s2 { "same".to_string() } else { format!("SELFDIFF[{s2}]") })
}

fn hex(s: &str) -> String { s.bytes().map(|b| format!("{b:02x}")).collect() }
fn unhex(s: &str) -> Option<String> {
    if s.len() % 2 != 0 { return None; }
    let b: Option<Vec<u8>> = (0..s.len() / 2).map(|i| u8::from_str_radix(&s[2 * i..2 * i + 2], 16).ok()).collect();
    String::from_utf8(b?).ok()
}

fn observe(case: &str) -> String {
    let r = catch_unwind(AssertUnwindSafe(|| {
        if let Some(h) = case.strip_prefix("H ") {
            let ops: Option<Vec<Op>> = h.split(';').filter(|s| !s.is_empty()).map(parse_op).collect();
            match ops { Some(ops) => history_obs(&ops), None => "BAD-CASE".into() }
        } else if let Some(d) = case.strip_prefix("D ") {
            let Some((deps, path)) = d.split_once('|') else { return "BAD-CASE".to_string() };
            match std::fs::read_to_string(path) { Ok(src) => document_obs(deps, path, &src.replace("\r\n", "\n")), Err(e) => format!("READ-ERROR {e}") }
        } else if let Some(d) = case.strip_prefix("W ") {
            let f: Vec<&str> = d.splitn(3, '|').collect();
            if f.len() != 3 { return "BAD-CASE".to_string(); }
            match unhex(f[2]) { Some(src) => document_obs(f[0], f[1], &src), None => "BAD-CASE".into() }
        } else { "BAD-CASE".into() }
    }));
    r.unwrap_or_else(|_| "HARNESS-PANIC".into())
}

// ------------------------------------------------------------------------------------------------ generators
fn pick_name(r: &mut Rng, lo: usize, hi: usize) -> usize { lo + r.below((hi - lo) as u64) as usize }

/// base types after their dependants (the defect fixed by 561c8ba was exactly here)
fn gen_base_after_dependants(r: &mut Rng) -> Vec<Op> {
    let mut deps: Vec<usize> = vec![1, 2, 3, 4, 5, 6, 7, 8];
    // shuffle
    for i in (1..deps.len()).rev() { let j = r.below(i as u64 + 1) as usize; deps.swap(i, j); }
    let k = 3 + r.below(6) as usize;
    let mut ops = Vec::new();
    let mut name = 11;
    for t in deps.iter().take(k) { ops.push(Op::Def(name, *t)); name += 1; }
    if r.chance(1, 3) { ops.push(Op::Def(name, 9)); name += 1; }
    ops.push(Op::Def(name, 0)); name += 1;           // the base type, last
    if r.chance(1, 2) { for t in deps.iter().skip(k).take(2) { ops.push(Op::Def(name.min(20), *t)); name += 1; } }
    if r.chance(1, 3) {
        // remove the base (and with it all dependants), then define again: node-id reuse follows the removal order
        ops.push(Op::Rm(k + if ops.iter().any(|o| matches!(o, Op::Def(_, 9))) { 1 } else { 0 }));
        ops.push(Op::Def(11, 0)); ops.push(Op::Def(12, 1)); ops.push(Op::Def(13, 2)); ops.push(Op::Imp(21, 0));
    }
    if r.chance(1, 2) { ops.push(Op::Imp(22, 4)); ops.push(Op::Export(0, 6)); }
    ops
}

/// many independent nodes of the same rank
fn gen_same_rank(r: &mut Rng) -> Vec<Op> {
    let mut ops = Vec::new();
    let n = 6 + r.below(10) as usize;
    let mut names: Vec<usize> = (21..29).chain(0..11).collect();
    for i in (1..names.len()).rev() { let j = r.below(i as u64 + 1) as usize; names.swap(i, j); }
    for i in 0..n.min(names.len()) { ops.push(Op::Imp(names[i], r.below(7) as usize)); }
    let np = 2 + r.below(4) as usize;
    for p in 0..np { ops.push(Op::Reg((p * 2 + r.below(2) as usize) % PKGS.len())); }
    for s in 0..np { if r.chance(2, 3) { ops.push(Op::Inst(s, 0)); } }
    for t in [9usize, 10, 0, 3] { if r.chance(1, 2) { ops.push(Op::Def(11 + t % 9, t)); } }
    for _ in 0..r.below(5) { ops.push(Op::Export(r.below(n as u64) as usize, pick_name(r, 0, 11))); }
    for _ in 0..r.below(3) { ops.push(Op::Name(r.below(n as u64) as usize, pick_name(r, 0, 11))); }
    ops
}

/// several instantiations with overlapping implicit imports, some arguments wired, several explicit imports
fn gen_overlapping(r: &mut Rng) -> Vec<Op> {
    let mut ops = Vec::new();
    let mut pk: Vec<usize> = (0..PKGS.len()).collect();
    for i in (1..pk.len()).rev() { let j = r.below(i as u64 + 1) as usize; pk.swap(i, j); }
    let np = 3 + r.below(5) as usize;
    for p in pk.iter().take(np) { ops.push(Op::Reg(*p)); }
    let mut node = 0usize;
    let mut insts = Vec::new();
    for s in 0..np { for _ in 0..(1 + r.below(2)) { ops.push(Op::Inst(s, 0)); insts.push(node); node += 1; } }
    // explicit imports that do not clash with implicit names
    for k in 0..r.below(5) as usize { ops.push(Op::Imp(21 + k, r.below(4) as usize)); node += 1; }
    // wire a few arguments: explicit import -> argument, alias of an export -> argument
    for _ in 0..r.below(6) {
        let i = *r.pick(&insts);
        let a = *r.pick(&[0usize, 1, 2, 4, 5]);
        if r.chance(1, 2) && node > insts.len() { ops.push(Op::SetArg(i, a, insts.len() + r.below((node - insts.len()) as u64) as usize)); }
        else { let src = *r.pick(&insts); ops.push(Op::Alias(src, *r.pick(&[1usize, 0, 2, 9, 31, 10, 34]))); ops.push(Op::SetArg(i, a, node)); node += 1; }
    }
    for _ in 0..r.below(4) { ops.push(Op::Export(r.below(node.max(1) as u64) as usize, pick_name(r, 0, 11))); }
    if r.chance(1, 4) { ops.push(Op::Imp(*r.pick(&[29usize, 30, 0, 2, 4]), *r.pick(&[6usize, 2, 0]))); }
    if r.chance(1, 5) { ops.push(Op::Unreg(r.below(np as u64) as usize, 0)); }
    ops
}

/// `wac_graph::plug`: one plug (or several) satisfying many imports of one socket; alias nodes and the socket's
/// arguments must come out in the same order in every execution
fn gen_plug(r: &mut Rng) -> Vec<Op> {
    const SOCKET: usize = 9; const ALL: usize = 10; const HALF: usize = 11; const REST: usize = 12;
    let mut ops = Vec::new();
    // a few unrelated nodes first, so that node indexes differ from case to case
    for k in 0..r.below(4) as usize { ops.push(Op::Imp(21 + k, r.below(4) as usize)); }
    let mut regs: Vec<usize> = match r.below(4) { 0 => vec![SOCKET, ALL], 1 => vec![SOCKET, HALF, REST], 2 => vec![SOCKET, REST, HALF, ALL], _ => vec![SOCKET, ALL, HALF] };
    if r.chance(1, 3) { regs.push(r.below(9) as usize); }
    for i in (1..regs.len()).rev() { let j = r.below(i as u64 + 1) as usize; regs.swap(i, j); }
    for p in &regs { ops.push(Op::Reg(*p)); }
    let socket = regs.iter().position(|p| *p == SOCKET).unwrap();
    let mut plugs: Vec<usize> = (0..regs.len()).filter(|i| *i != socket).collect();
    for i in (1..plugs.len()).rev() { let j = r.below(i as u64 + 1) as usize; plugs.swap(i, j); }
    if r.chance(1, 4) && plugs.len() > 1 { plugs.pop(); }
    ops.push(Op::PlugList(socket, plugs));
    for _ in 0..r.below(3) { ops.push(Op::Name(r.below(6) as usize, pick_name(r, 0, 11))); }
    ops
}

/// an explicit import that cannot be merged with the earlier imports of its semver track: the error names the
/// `first` node among 2..6 candidates (explicit imports and instantiation-implied imports) and the `second`
fn gen_merge_conflict(r: &mut Rng) -> Vec<Op> {
    let mut ops = Vec::new();
    let mut node = 0usize;
    for k in 0..r.below(3) as usize { ops.push(Op::Imp(21 + k, r.below(2) as usize)); node += 1; }
    // instantiation-implied candidates (names @0.2.1 / @0.2.3)
    let with_inst = r.below(3);
    let mut used: Vec<usize> = Vec::new();           // name indexes taken by implicit imports
    if with_inst >= 1 { ops.push(Op::Reg(13)); if with_inst == 2 || r.chance(1, 2) { ops.push(Op::Reg(14)); } }
    let nreg = ops.iter().filter(|o| matches!(o, Op::Reg(_))).count();
    for s in 0..nreg { for _ in 0..(1 + r.below(2)) { ops.push(Op::Inst(s, 0)); node += 1; } }
    if nreg >= 1 { used.push(38); } if nreg >= 2 { used.push(40); }
    // explicit candidates: compatible kinds 2 ({x}) / 3 ({x, y}); the conflict (kind 10: x has another type, or 0: a
    // function) at a random position
    let mut names: Vec<usize> = (37..44).filter(|n| !used.contains(n)).collect();
    for i in (1..names.len()).rev() { let j = r.below(i as u64 + 1) as usize; names.swap(i, j); }
    let n_ok = (2 + r.below(5) as usize).min(names.len() - 1);
    let at = r.below(n_ok as u64 + 1) as usize;
    let at = if nreg == 0 && at < 2 { 2.min(n_ok) } else { at };      // at least two earlier candidates
    for (i, nm) in names.iter().take(n_ok + 1).enumerate() {
        let kind = if i == at { *r.pick(&[10usize, 10, 0]) } else { *r.pick(&[2usize, 2, 3]) };
        ops.push(Op::Imp(*nm, kind)); node += 1;
        if r.chance(1, 6) { ops.push(Op::Imp(24 + (i % 5), 0)); node += 1; }
    }
    if r.chance(1, 3) { ops.push(Op::Export(r.below(node.max(1) as u64) as usize, 6)); }
    ops
}

fn random_op(run: &Run, r: &mut Rng) -> Op {
    let nodes = run.live_nodes();
    let pk: Vec<(usize, usize)> = run.pkgs.keys().filter(|k| !run.stale.contains(k)).cloned().collect();
    loop {
        let c = r.below(100);
        if c < 10 { return Op::Reg(r.below(PKGS.len() as u64) as usize); }
        if c < 13 && !pk.is_empty() { let k = *r.pick(&pk); return Op::Unreg(k.0, k.1); }
        if c < 27 && !pk.is_empty() { let k = *r.pick(&pk); return Op::Inst(k.0, k.1); }
        if c < 42 { return Op::Def(pick_name(r, 11, 21), r.below(NDEFS as u64) as usize); }
        if c < 52 { return Op::Imp(pick_name(r, 0, NAMES.len()), r.below(7) as usize); }
        if c < 54 && pk.len() >= 2 { return Op::Plug(r.below(8) as usize, r.below(4) as usize); }
        if nodes.is_empty() { continue; }
        let n = *r.pick(&nodes);
        if c < 64 { return Op::Alias(n, *r.pick(&[0usize, 1, 2, 3, 4, 9, 10, 31, 34, 35])); }
        if c < 78 { return Op::SetArg(*r.pick(&nodes), *r.pick(&[0usize, 1, 2, 4, 5, 29, 32]), n); }
        if c < 81 { return Op::UnsetArg(*r.pick(&nodes), *r.pick(&[0usize, 1, 2, 4, 5]), n); }
        if c < 89 { return Op::Export(n, pick_name(r, 0, 11)); }
        if c < 91 { return Op::Unexport(n); }
        if c < 93 { return Op::Name(n, pick_name(r, 0, 11)); }
        return Op::Rm(n);
    }
}

fn gen_random(r: &mut Rng, maxlen: u64) -> Vec<Op> {
    let len = 4 + r.below(maxlen) as usize;
    let mut run = Run::new();
    let mut ops = Vec::new();
    for _ in 0..len { if run.dead { break; } let o = random_op(&run, r); run.apply(&o); ops.push(o); }
    ops
}

fn collect_docs(repo: &str, out: &mut Vec<String>) {
    let root = Path::new(repo).join("crates/wac-parser/tests");
    for sub in ["parser", "parser/fail", "resolution", "resolution/fail", "encoding", "encoding/fail"] {
        let d = root.join(sub);
        let Ok(rd) = std::fs::read_dir(&d) else { continue };
        let mut files: Vec<PathBuf> = rd.filter_map(|e| e.ok().map(|e| e.path())).filter(|p| p.extension().map(|x| x == "wac").unwrap_or(false)).collect();
        files.sort();
        for f in files {
            let deps = f.parent().unwrap().join(f.file_stem().unwrap());
            out.push(format!("D {}|{}", deps.display(), f.display()));
        }
    }
    let ex = Path::new(repo).join("examples/script.wac");
    if ex.exists() { out.push(format!("D {}|{}", Path::new(repo).join("examples/deps").display(), ex.display())); }
}

/// inline documents aimed at the hash-ordered containers of the resolver
fn inline_docs(repo: &str) -> Vec<String> {
    let deps = Path::new(repo).join("crates/wac-parser/tests/resolution/package-world-include");
    let none = Path::new(repo).join("crates/wac-parser/tests/resolution/no-imports");
    let mut v = Vec::new();
    let mut add = |deps: &Path, name: &str, src: &str| v.push(format!("W {}|{}|{}", deps.display(), name, hex(src)));
    // several `with` names that the included world does not have: which one is reported?
    add(&none, "include-missing-many.wac", "package test:comp;\n\nworld a {\n    import x: func();\n}\n\nworld b {\n    include a with { aa as a1, bb as b1, cc as c1, dd as d1, ee as e1, ff as f1, gg as g1, hh as h1 };\n}\n");
    add(&none, "include-missing-one.wac", "package test:comp;\n\nworld a {\n    import x: func();\n}\n\nworld b {\n    include a with { x as y, zz as z1 };\n}\n");
    add(&none, "include-ok.wac", "package test:comp;\n\nworld a {\n    import x: func();\n    import y: func();\n    export z: func();\n}\n\nworld b {\n    include a with { x as x1, y as y1, z as z1 };\n}\n");
    add(&none, "resource-methods.wac", "package test:comp;\n\ninterface i {\n    resource r {\n        constructor(a: u32);\n        m1: func();\n        m2: func() -> u32;\n        s1: static func();\n        m1: func();\n    }\n}\n");
    add(&none, "many-types.wac", "package test:comp;\n\ntype a = u32;\ntype b = list<a>;\ntype c = tuple<a, b>;\ntype d = option<a>;\ntype e = result<a>;\nrecord f { x: a, y: b }\nvariant g { p(a), q(c) }\ntype h = list<f>;\nexport h;\n");
    add(&none, "base-after.wac", "package test:comp;\n\ninterface i {\n    type b = list<a>;\n    type c = tuple<a, b>;\n    type d = option<a>;\n    type a = u32;\n}\n");
    add(&deps, "include-pkg.wac", "package test:comp;\n\nworld w {\n    include foo:bar/baz;\n}\n");
    // a spread argument that supplies several imports at once (argument edges / aliases are created per import)
    let root = std::env::var("VERIF_ROOT").unwrap_or_else(|_| "/verif".into());
    let multi = Path::new(&root).join("corpus/C16/deps");
    add(&multi, "spread-many.wac", "package test:comp;\n\nlet p = new multi:provider { ... };\nlet c = new multi:consumer { ...p };\nexport c...;\n");
    add(&multi, "spread-many-2.wac", "package test:comp;\n\nlet p = new multi:provider { ... };\nlet q = new multi:provider { ... };\nlet c = new multi:consumer { a: q.a, ...p };\nlet d = new multi:consumer { ...q, ... };\nexport c.out;\nexport d.out as out2;\n");
    v
}

// ------------------------------------------------------------------------------------------------ main
fn worker(cases_in: &str, out: &str, start: usize) {
    std::panic::set_hook(Box::new(|_| {}));
    let cases = std::fs::read_to_string(cases_in).expect("cases");
    let mut o = std::fs::OpenOptions::new().create(true).append(true).open(out).expect("out");
    // one line per case, written at once, so that an abort (stack overflow) loses nothing but the current case
    for line in cases.lines().skip(start) { let mut l = observe(line); l.push('\n'); o.write_all(l.as_bytes()).unwrap(); o.flush().unwrap(); }
}

/// run one worker process over all cases; a worker that dies (abort) is restarted after the case it died on,
/// which gets the observation `ABORT`
fn collect_worker(exe: &Path, cases_out: &str, out: &str, first: std::process::Child, ncases: usize) -> Vec<String> {
    let mut ch = first;
    loop {
        let st = ch.wait().expect("wait");
        let mut lines: Vec<String> = std::fs::read_to_string(out).unwrap_or_default().lines().map(|l| l.to_string()).collect();
        if lines.len() >= ncases { let _ = std::fs::remove_file(out); lines.truncate(ncases); return lines; }
        if st.success() { eprintln!("worker stopped early without failing: {} of {ncases}", lines.len()); std::process::exit(3); }
        let mut f = std::fs::OpenOptions::new().append(true).open(out).expect("out");
        writeln!(f, "ABORT").unwrap();
        drop(f);
        ch = std::process::Command::new(exe).arg("--worker").arg(cases_out).arg(out).arg((lines.len() + 1).to_string())
            .stderr(std::process::Stdio::null()).spawn().expect("respawn worker");
    }
}

fn split_fields(s: &str) -> Vec<(String, String)> {
    // top-level `|` only (SELFDIFF[...] payloads contain `|`)
    let mut v = Vec::new(); let mut depth = 0; let mut cur = String::new();
    for c in s.chars() {
        match c { '[' => { depth += 1; cur.push(c) } ']' => { depth -= 1; cur.push(c) }
            '|' if depth == 0 => { let (k, x) = cur.split_once('=').map(|(a, b)| (a.to_string(), b.to_string())).unwrap_or((cur.clone(), String::new())); v.push((k, x)); cur.clear(); }
            _ => cur.push(c) }
    }
    if !cur.is_empty() { let (k, x) = cur.split_once('=').map(|(a, b)| (a.to_string(), b.to_string())).unwrap_or((cur.clone(), String::new())); v.push((k, x)); }
    v
}

fn main() {
    let args: Vec<String> = std::env::args().collect();
    if args.get(1).map(|s| s.as_str()) == Some("--worker") {
        worker(&args[2], &args[3], args.get(4).and_then(|x| x.parse().ok()).unwrap_or(0)); return;
    }
    assert_eq!(args[1], "run");
    let tier = args[2].as_str();
    let seed: u64 = args[3].parse().unwrap();
    let procs: usize = args[4].parse().unwrap();
    let (cases_out, impl_out) = (&args[5], &args[6]);
    let repo = std::env::var("VERIF_REPO").unwrap_or_else(|_| "/repo".into());
    std::panic::set_hook(Box::new(|_| {}));
    let mut cases: Vec<String> = Vec::new();
    if let Some(replay) = args.get(7) {
        cases = std::fs::read_to_string(replay).unwrap().lines().filter(|l| !l.trim().is_empty()).map(|l| l.to_string()).collect();
    } else {
        let mut r = Rng::new(seed);
        let show = |ops: &[Op]| format!("H {}", ops.iter().map(show_op).collect::<Vec<_>>().join(";"));
        // fixed shapes named in the property
        cases.push("H def 11 1;def 12 2;def 13 3;def 14 4;def 15 5;def 16 6;def 17 7;def 18 8;def 19 0".into());
        cases.push("H def 11 1;def 12 2;def 13 3;def 14 4;def 15 5;def 16 6;def 19 0;rm 6;def 11 0;def 12 1;imp 21 0;imp 22 1".into());
        cases.push("H imp 21 0;imp 22 1;imp 23 2;imp 24 3;imp 25 0;imp 26 1;imp 27 2;imp 28 3;export 3 6;export 0 7".into());
        cases.push("H reg 0;reg 1;reg 2;reg 6;inst 0 0;inst 1 0;inst 2 0;inst 3 0;inst 0 0;inst 3 0".into());
        cases.push("H reg 4;reg 5;inst 0 0;inst 1 0;reg 7;reg 8;inst 2 0;inst 3 0".into());
        cases.push("H reg 5;reg 4;inst 0 0;inst 1 0;imp 30 6".into());
        // three interfaces on one semver track, the first using a type of the second (aggregator `interfaces` scan)
        // emission-order witnesses of props/C16.v section 9 (checked against the model's prediction by c16.py)
        cases.push("H def 11 1;def 12 9;def 13 0".into());
        cases.push("H imp 21 0;imp 22 1;def 11 0;def 12 1;reg 0;inst 0 0".into());
        // library plug(): one plug fills eight imports of the socket; two plugs fill them between them (both orders);
        // a plug whose exports are already taken; socket registered last
        cases.push("H reg 9;reg 10;plugl 0 1".into());
        cases.push("H reg 9;reg 11;reg 12;plugl 0 1 2".into());
        cases.push("H reg 9;reg 11;reg 12;plugl 0 2 1".into());
        cases.push("H reg 9;reg 10;reg 11;plugl 0 2 1".into());
        cases.push("H imp 21 0;reg 10;reg 12;reg 9;plugl 2 0 1;name 1 6".into());
        // explicit-import merge conflict with several earlier candidates on the track: the error's first/second nodes
        cases.push("H imp 37 2;imp 38 3;imp 39 2;imp 40 2;imp 41 2;imp 42 10".into());
        cases.push("H reg 13;reg 14;inst 0 0;inst 1 0;inst 0 0;imp 37 2;imp 39 2;imp 41 10;imp 42 2".into());
        cases.push("H imp 37 2;imp 38 2;imp 39 10;imp 40 2;imp 41 2".into());
        cases.push("H imp 21 0;imp 43 2;imp 40 3;imp 38 2;imp 37 2;imp 41 0".into());
        cases.push("H reg 14;inst 0 0;inst 0 0;imp 37 3;imp 38 2;imp 42 10".into());
        cases.push("H imp 21 7;imp 22 8".into());
        cases.push("H imp 21 7".into());
        cases.push("H imp 23 9;imp 22 8".into());
        let (n_shape, n_rand, maxlen) = if tier == "thorough" { (1500, 2500, 60) } else { (40, 80, 30) };
        for _ in 0..n_shape { cases.push(show(&gen_base_after_dependants(&mut r))); }
        for _ in 0..n_shape { cases.push(show(&gen_same_rank(&mut r))); }
        for _ in 0..n_shape { cases.push(show(&gen_overlapping(&mut r))); }
        for _ in 0..(n_shape / 2).max(12) { cases.push(show(&gen_plug(&mut r))); }
        for _ in 0..(n_shape / 2).max(12) { cases.push(show(&gen_merge_conflict(&mut r))); }
        for _ in 0..n_rand { cases.push(show(&gen_random(&mut r, maxlen))); }
        cases.extend(inline_docs(&repo));
        collect_docs(&repo, &mut cases);
    }
    let mut co = std::io::BufWriter::new(std::fs::File::create(cases_out).unwrap());
    for c in &cases { writeln!(co, "{c}").unwrap(); }
    co.flush().unwrap(); drop(co);
    // fresh worker processes, all on the same case list
    let exe = std::env::current_exe().expect("current_exe");
    let mut children = Vec::new();
    for p in 0..procs {
        let out = format!("{impl_out}.w{p}");
        let _ = std::fs::remove_file(&out);
        let ch = std::process::Command::new(&exe).arg("--worker").arg(cases_out).arg(&out).arg("0")
            .stderr(std::process::Stdio::null()).spawn().expect("spawn worker");
        children.push((ch, out));
    }
    let mut obs: Vec<Vec<String>> = Vec::new();
    for (ch, out) in children { obs.push(collect_worker(&exe, cases_out, &out, ch, cases.len())); }
    let mut io = std::io::BufWriter::new(std::fs::File::create(impl_out).unwrap());
    for i in 0..cases.len() {
        let all: Vec<&String> = obs.iter().map(|o| &o[i]).collect();
        let selfdiff = all.iter().any(|s| s.contains("SELFDIFF["));
        if all.iter().all(|s| *s == all[0]) && !selfdiff {
            writeln!(io, "SAME {}", all[0]).unwrap();
        } else {
            // name the differing fields
            let fs: Vec<Vec<(String, String)>> = all.iter().map(|s| split_fields(s)).collect();
            let mut differing: Vec<String> = Vec::new();
            for (k, x) in &fs[0] {
                if fs.iter().any(|f| f.iter().find(|(k2, _)| k2 == k).map(|(_, y)| y != x).unwrap_or(true)) || x.starts_with("SELFDIFF[") { differing.push(k.clone()); }
            }
            for f in &fs { for (k, x) in f { if x.starts_with("SELFDIFF[") && !differing.contains(k) { differing.push(k.clone()); } } }
            let mut line = format!("DIFF fields={}", differing.join(","));
            for (p, f) in fs.iter().enumerate() {
                let part: Vec<String> = f.iter().filter(|(k, _)| differing.contains(k)).map(|(k, x)| format!("{k}={x}")).collect();
                let _ = write!(line, " ;; p{p}: {}", part.join("|"));
            }
            writeln!(io, "{line}").unwrap();
        }
    }
    io.flush().unwrap();
}
