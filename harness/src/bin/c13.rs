//! C13 harness: parse -> print -> re-parse -> print on the real `wac-parser`.
//!
//! Documents: fixed probes (one per construct named by the property), every `.wac` file of the repository, and
//! documents generated from the grammar with randomised layout and comments (generator copied from c12.rs and
//! restricted to forms the parser accepts). For every document the parser accepts:
//!   text1 = DocumentPrinter(doc1, source); doc2 = parse(text1); text2 = DocumentPrinter(doc2, text1)
//! and the observation line is
//!   OK \t features \t tree1 \t enc(text1) \t reparse-verdict \t tree2|= \t enc(text2)|=
//! where tree = canonical JSON of the serde tree with every span replaced by @0+0 and every `docs` list replaced
//! by its non-empty trimmed lines (the specification's `strip (norm_docs _)`), and `features` lists which of the
//! three known printer defects the document can trigger. Rejected documents give `REJECT`.
//!
//! usage: c13 <tier> <seed> <cases_out> <impl_out> [replay_cases_file]
#![allow(dead_code)]
use std::fmt::Write as _;
use std::io::Write as _;
use wac_parser::lexer::{Lexer, Token};
use wac_parser::{Document, DocumentPrinter};
use wacv::{enc, Rng};

// ------------------------------------------------------------------------------------------------ observation

fn esc(s: &str, out: &mut String) {
    for c in s.chars() {
        match c {
            '\\' => out.push_str("\\\\"),
            '"' => out.push_str("\\\""),
            '\n' => out.push_str("\\n"),
            '\r' => out.push_str("\\r"),
            '\t' => out.push_str("\\t"),
            c => out.push(c),
        }
    }
}

/// Canonical form shared with the Coq printer (AstJson.v): keys sorted, spans as `@offset+length`.
fn canon(v: &serde_json::Value, out: &mut String) {
    use serde_json::Value::*;
    match v {
        Null => out.push_str("null"),
        Bool(b) => out.push_str(if *b { "true" } else { "false" }),
        Number(n) => write!(out, "{}", n).unwrap(),
        String(s) => {
            out.push('"');
            esc(s, out);
            out.push('"');
        }
        Array(a) => {
            out.push('[');
            for (i, x) in a.iter().enumerate() {
                if i > 0 {
                    out.push(',');
                }
                canon(x, out);
            }
            out.push(']');
        }
        Object(m) => {
            if m.len() == 2 && m.contains_key("offset") && m.contains_key("length") {
                write!(out, "@{}+{}", m["offset"], m["length"]).unwrap();
                return;
            }
            let mut keys: Vec<&std::string::String> = m.keys().collect();
            keys.sort();
            out.push('{');
            for (i, k) in keys.iter().enumerate() {
                if i > 0 {
                    out.push(',');
                }
                out.push('"');
                esc(k, out);
                out.push_str("\":");
                canon(&m[*k], out);
            }
            out.push('}');
        }
    }
}

fn is_span(m: &serde_json::Map<String, serde_json::Value>) -> bool {
    m.len() == 2 && m.contains_key("offset") && m.contains_key("length")
}

fn span0() -> serde_json::Value {
    serde_json::json!({"offset": 0, "length": 0})
}

/// The specification's `strip (norm_docs _)`: every source span becomes (0,0); every list of doc comments becomes
/// the list of its non-empty trimmed lines (lines are separated by line feeds; trimming is Unicode White_Space).
fn strip_norm(v: &serde_json::Value) -> serde_json::Value {
    use serde_json::Value::*;
    match v {
        Array(a) => Array(a.iter().map(strip_norm).collect()),
        Object(m) => {
            if is_span(m) {
                return span0();
            }
            let mut out = serde_json::Map::new();
            for (k, x) in m {
                if k == "docs" {
                    let mut lines = Vec::new();
                    if let Array(ds) = x {
                        for d in ds {
                            if let Some(c) = d.get("comment").and_then(|c| c.as_str()) {
                                for l in c.split('\n') {
                                    let l = l.trim();
                                    if !l.is_empty() {
                                        lines.push(serde_json::json!({"comment": l, "span": span0()}));
                                    }
                                }
                            }
                        }
                    }
                    out.insert(k.clone(), Array(lines));
                } else {
                    out.insert(k.clone(), strip_norm(x));
                }
            }
            Object(out)
        }
        other => other.clone(),
    }
}

/// Which of the known printer defects the tree can trigger.
fn features(v: &serde_json::Value, acc: &mut [bool; 3]) {
    use serde_json::Value::*;
    match v {
        Array(a) => a.iter().for_each(|x| features(x, acc)),
        Object(m) => {
            for (k, x) in m {
                if k == "targets" && !x.is_null() {
                    acc[0] = true;
                }
                if k == "arguments" {
                    if let Array(args) = x {
                        for (i, a) in args.iter().enumerate() {
                            if a.get("fill").is_some() && i + 1 < args.len() {
                                acc[1] = true;
                            }
                        }
                    }
                }
                if k == "docs" {
                    if let Array(ds) = x {
                        for d in ds {
                            if let Some(c) = d.get("comment").and_then(|c| c.as_str()) {
                                if c.lines().any(|l| l.trim().is_empty()) {
                                    acc[2] = true;
                                }
                            }
                        }
                    }
                }
                features(x, acc);
            }
        }
        _ => {}
    }
}

const FEATURE_NAMES: [&str; 3] = ["targets", "fill-nonlast", "doc-blank-line"];

fn print_doc(doc: &Document, source: &str) -> Result<String, String> {
    let r = std::panic::catch_unwind(std::panic::AssertUnwindSafe(|| {
        let mut s = String::new();
        DocumentPrinter::new(&mut s, source, None).document(doc).map(|_| s)
    }));
    match r {
        Ok(Ok(s)) => Ok(s),
        Ok(Err(_)) => Err("FMT-ERROR".into()),
        Err(p) => {
            let msg = p.downcast_ref::<String>().cloned().or_else(|| p.downcast_ref::<&str>().map(|s| s.to_string()));
            Err(format!("PANIC {}", msg.unwrap_or_default().replace(['\n', '\t'], " ")))
        }
    }
}

fn err_line(e: &wac_parser::Error) -> String {
    use wac_parser::Error;
    let (name, span) = match e {
        Error::Lexer { span, .. } => ("lexer-error", *span),
        Error::Expected { span, .. } | Error::ExpectedEither { span, .. } | Error::ExpectedMultiple { span, .. } => {
            ("expected", *span)
        }
        Error::EmptyType { span, .. } => ("empty-type", *span),
        Error::InvalidVersion { span, .. } => ("invalid-version", *span),
    };
    format!("{}@{} {}", name, span.offset(), e.to_string().replace(['\n', '\t'], " "))
}

fn tree_of(doc: &Document) -> (String, serde_json::Value) {
    let raw = serde_json::to_value(doc).expect("serialize");
    let mut s = String::new();
    canon(&strip_norm(&raw), &mut s);
    (s, raw)
}

fn observe(src: &str) -> String {
    let r = std::panic::catch_unwind(|| {
        let doc1 = match Document::parse(src) {
            Ok(d) => d,
            Err(_) => return "REJECT".to_string(),
        };
        let (tree1, raw1) = tree_of(&doc1);
        let mut f = [false; 3];
        features(&raw1, &mut f);
        let feats: Vec<&str> = (0..3).filter(|i| f[*i]).map(|i| FEATURE_NAMES[i]).collect();
        let feats = if feats.is_empty() { "-".to_string() } else { feats.join(",") };
        let text1 = match print_doc(&doc1, src) {
            Ok(t) => t,
            Err(e) => return format!("OK\t{}\t{}\t-\tPRINT-{}\t-\t-", feats, tree1, e),
        };
        match Document::parse(&text1) {
            Err(e) => format!("OK\t{}\t{}\t{}\tERR {}\t-\t-", feats, tree1, enc(&text1), err_line(&e)),
            Ok(doc2) => {
                let (tree2, _) = tree_of(&doc2);
                let text2 = match print_doc(&doc2, &text1) {
                    Ok(t) => if t == text1 { "=".to_string() } else { enc(&t) },
                    Err(e) => format!("PRINT-{}", e),
                };
                format!(
                    "OK\t{}\t{}\t{}\tOK\t{}\t{}",
                    feats,
                    tree1,
                    enc(&text1),
                    if tree2 == tree1 { "=".to_string() } else { tree2 },
                    text2
                )
            }
        }
    });
    match r {
        Ok(s) => s,
        Err(p) => {
            let msg = p.downcast_ref::<String>().cloned().or_else(|| p.downcast_ref::<&str>().map(|s| s.to_string()));
            format!("PANIC {}", msg.unwrap_or_default().replace(['\n', '\t'], " "))
        }
    }
}

/// (kind, span) of every token when the source lexes without error.
fn real_tokens(src: &str) -> Option<Vec<(Token, (usize, usize))>> {
    let lexer = Lexer::new(src).ok()?;
    let mut v = Vec::new();
    for (r, span) in lexer {
        v.push((r.ok()?, (span.offset(), span.len())));
    }
    Some(v)
}

/// A block doc comment of several lines, with blank interior lines, indentation, CR LF, decoration.
fn doc_block(r: &mut Rng) -> String {
    let mut s = String::from("/**");
    let n = 1 + r.below(4);
    for i in 0..n {
        match r.below(6) {
            0 => {}                       // blank line
            1 => s.push_str("   "),       // line of blanks
            2 => {
                s.push_str(" * ");
                s.push_str(&comment_text(r));
            }
            _ => {
                s.push(' ');
                s.push_str(&comment_text(r));
                if r.chance(1, 4) {
                    s.push_str("  \t");
                }
            }
        }
        if i + 1 < n {
            s.push_str(if r.chance(1, 5) { "\r\n" } else { "\n" });
        }
    }
    s.push_str(" */");
    s
}

// ------------------------------------------------------------------------------------------------ generator (from c12.rs)

// ------------------------------------------------------------------------------------------------ generator

const KEYWORDS: &[&str] = &[
    "import", "with", "type", "tuple", "list", "option", "result", "borrow", "resource", "variant", "record", "flags",
    "enum", "func", "static", "constructor", "u8", "s8", "u16", "s16", "u32", "s32", "u64", "s64", "f32", "f64",
    "char", "bool", "string", "interface", "world", "export", "new", "let", "use", "include", "as", "package",
    "targets",
];
const SYMBOLS: &[&str] =
    &[";", "{", "}", ":", "=", "(", ")", "->", "<", ">", "_", "[", "]", ".", "...", ",", "/", "@"];
const PRIMS: &[&str] = &["u8", "s8", "u16", "s16", "u32", "s32", "u64", "s64", "f32", "f64", "char", "bool", "string"];
const WORDS: &[&str] = &["a", "b", "c", "x", "y", "foo", "bar", "baz", "q2", "in0", "stream", "run", "t1"];
/// Lexemes that are not tokens of the language, or split in surprising ways.
const GARBAGE: &[&str] = &[
    "#", "-", "%", "..", "foo-", "foo--bar", "Foo", "fooBar", "a:", "a:b@", "a:b@1.", "a:b/", "a:b@1.2.3/c", "1abc",
    "a:b:", "%a:%b", "a:b/c/", "a:b/c@", "$", "\\", "'x'", "a-B", "A-b", "A1-B2", "%A", "a:B/c", "a:b/C@1.0.0",
    "a:b@1.0.0-", "a:b@1..0", "é", "a\u{e9}", "x:y@1.2.3+b.c-d", "->>", "-->", "./.", "....", "@1.2.3", "a/b",
];

struct Gen<'a> {
    r: &'a mut Rng,
    out: Vec<String>,
}

impl Gen<'_> {
    fn t(&mut self, s: &str) {
        self.out.push(s.to_string());
    }
    fn word(&mut self) -> String {
        let mut w = self.r.pick(WORDS).to_string();
        if self.r.chance(1, 6) {
            w.push_str(&self.r.below(100).to_string());
        }
        w
    }
    fn id_text(&mut self) -> String {
        let mut s = String::new();
        if self.r.chance(1, 10) {
            // a keyword used as an identifier through the % escape
            return format!("%{}", self.r.pick(KEYWORDS));
        }
        if self.r.chance(1, 12) {
            s.push('%');
        }
        let n = 1 + if self.r.chance(1, 4) { 1 + self.r.below(2) } else { 0 };
        for i in 0..n {
            if i > 0 {
                s.push('-');
            }
            let mut w = self.word();
            if self.r.chance(1, 90) {
                w = w.to_uppercase(); // deviation: upper-case words
            }
            s.push_str(&w);
        }
        if KEYWORDS.contains(&s.as_str()) {
            s.insert(0, '%');
        }
        s
    }
    fn id(&mut self) {
        let s = self.id_text();
        self.out.push(s);
    }
    fn version_text(&mut self) -> String {
        let mut v = format!("{}.{}.{}", self.r.below(3), self.r.below(12), self.r.below(3));
        if self.r.chance(1, 4) {
            v.push_str(*self.r.pick(&["-alpha", "-rc.1", "-0a.b-c", "-1", "-x.7.z"][..]));
        }
        if self.r.chance(1, 5) {
            v.push_str(*self.r.pick(&["+build", "+001", "+b.1-c"][..]));
        }
        if self.r.chance(1, 400) {
            // not a semantic version although the token rule takes it
            v = (*self.r.pick(&["1", "1.0", "01.2.3", "1.2.3-", "1.2.3+", "1.2.3-01", "1.2.3.4", "1.2.x", "18446744073709551616.0.0"][..]))
                .to_string();
        }
        v
    }
    fn pkgname_text(&mut self) -> String {
        let n = 2 + if self.r.chance(1, 6) { 1 } else { 0 };
        let mut s = String::new();
        for i in 0..n {
            if i > 0 {
                s.push(':');
            }
            s.push_str(&self.id_text());
        }
        s
    }
    fn pkgname(&mut self) {
        let mut s = self.pkgname_text();
        if self.r.chance(1, 3) {
            s.push('@');
            s.push_str(&self.version_text());
        }
        self.out.push(s);
    }
    fn pkgpath(&mut self) {
        let mut s = self.pkgname_text();
        let n = 1 + if self.r.chance(1, 5) { 1 } else { 0 };
        for _ in 0..n {
            s.push('/');
            s.push_str(&self.id_text());
        }
        if self.r.chance(1, 3) {
            s.push('@');
            s.push_str(&self.version_text());
        }
        self.out.push(s);
    }
    fn string(&mut self) {
        let body = match self.r.below(8) {
            0 => String::new(),
            1 => "foo bar".to_string(),
            2 => "wasi:io/streams@0.2.0".to_string(),
            3 => "caf\u{e9} \u{65e5}\u{672c} \u{1f600}".to_string(),
            4 => "// not a comment /* nor this".to_string(),
            5 => "line\nbreak\ttab".to_string(),
            _ => self.word(),
        };
        self.out.push(format!("\"{}\"", body));
    }
    fn list1(&mut self, d: u32, item: fn(&mut Self, u32)) {
        let n = 1 + self.r.below(3);
        for i in 0..n {
            if i > 0 {
                self.t(",");
            }
            item(self, d);
        }
        if self.r.chance(1, 3) {
            self.t(",");
        }
    }
    fn ty(&mut self, d: u32) {
        let c = if d == 0 { self.r.below(2) } else { self.r.below(9) };
        match c {
            0 => {
                let p = *self.r.pick(PRIMS);
                self.t(p)
            }
            1 => self.id(),
            2 => {
                self.t("tuple");
                self.t("<");
                self.list1(d - 1, Self::ty);
                self.t(">");
            }
            3 => {
                self.t("list");
                self.t("<");
                self.ty(d - 1);
                self.t(">");
            }
            4 => {
                self.t("option");
                self.t("<");
                self.ty(d - 1);
                self.t(">");
            }
            5 | 6 => {
                self.t("result");
                match self.r.below(30) {
                    0..=6 => {}
                    7..=13 => {
                        self.t("<");
                        self.ty(d - 1);
                        self.t(">");
                    }
                    14..=19 => {
                        self.t("<");
                        self.t("_");
                        self.t(",");
                        self.ty(d - 1);
                        self.t(">");
                    }
                    20..=26 => {
                        self.t("<");
                        self.ty(d - 1);
                        self.t(",");
                        self.ty(d - 1);
                        self.t(">");
                    }
                    // deviations: underscore forms the EBNF does not list
                    27 => {
                        self.t("<");
                        self.t("_");
                        self.t(">");
                    }
                    28 => {
                        self.t("<");
                        self.t("_");
                        self.t(",");
                        self.t("_");
                        self.t(">");
                    }
                    _ => {
                        self.t("<");
                        self.ty(d - 1);
                        self.t(",");
                        self.t("_");
                        self.t(">");
                    }
                }
            }
            _ => {
                self.t("borrow");
                self.t("<");
                self.id();
                self.t(">");
            }
        }
    }
    fn named_type(&mut self, d: u32) {
        self.id();
        self.t(":");
        self.ty(d);
    }
    fn func_type(&mut self, d: u32) {
        self.t("func");
        self.t("(");
        if self.r.chance(2, 3) {
            self.list1(d, Self::named_type);
        }
        self.t(")");
        match self.r.below(24) {
            0..=9 => {}
            10..=20 => {
                self.t("->");
                self.ty(d);
            }
            21 | 22 => {
                self.t("->");
                self.ty(d);
            }
            _ => self.t("->"), // deviation: nothing after the arrow
        }
    }
    fn use_type(&mut self, _d: u32) {
        self.t("use");
        if self.r.chance(1, 2) {
            self.pkgpath()
        } else {
            self.id()
        }
        self.t(".");
        self.t("{");
        if !self.r.chance(1, 25) {
            self.list1(0, |g, _| {
                g.id();
                if g.r.chance(1, 3) {
                    g.t("as");
                    g.id();
                }
            });
        }
        self.t("}");
        self.t(";");
    }
    fn type_decl(&mut self, d: u32) {
        match self.r.below(5) {
            0 => {
                self.t("variant");
                self.id();
                self.t("{");
                self.list1(d, |g, d| {
                    g.id();
                    if g.r.chance(1, 2) {
                        g.t("(");
                        g.ty(d);
                        g.t(")");
                    }
                });
                self.t("}");
            }
            1 => {
                self.t("record");
                self.id();
                self.t("{");
                self.list1(d, Self::named_type);
                self.t("}");
            }
            2 | 3 => {
                let k = if self.r.chance(1, 2) { "flags" } else { "enum" };
                self.t(k);
                self.id();
                self.t("{");
                self.list1(d, |g, _| g.id());
                self.t("}");
            }
            _ => {
                self.t("type");
                self.id();
                self.t("=");
                if self.r.chance(1, 3) {
                    self.func_type(d)
                } else {
                    self.ty(d)
                }
                self.t(";");
            }
        }
    }
    fn item_type_decl(&mut self, d: u32) {
        if self.r.chance(1, 4) {
            self.t("resource");
            self.id();
            if self.r.chance(1, 3) {
                self.t(";");
            } else {
                self.t("{");
                for _ in 0..self.r.below(3) {
                    if self.r.chance(1, 3) {
                        self.t("constructor");
                        self.t("(");
                        if self.r.chance(1, 2) {
                            self.list1(d, Self::named_type);
                        }
                        self.t(")");
                        self.t(";");
                    } else {
                        self.id();
                        self.t(":");
                        if self.r.chance(1, 3) {
                            self.t("static");
                        }
                        self.func_type(d);
                        self.t(";");
                    }
                }
                self.t("}");
            }
        } else {
            self.type_decl(d);
        }
    }
    fn interface_items(&mut self, d: u32) {
        self.t("{");
        for _ in 0..self.r.below(4) {
            match self.r.below(3) {
                0 => self.use_type(d),
                1 => self.item_type_decl(d),
                _ => {
                    self.id();
                    self.t(":");
                    if self.r.chance(3, 4) {
                        self.func_type(d)
                    } else {
                        self.id()
                    }
                    self.t(";");
                }
            }
        }
        self.t("}");
    }
    fn extern_type(&mut self, d: u32) {
        match self.r.below(3) {
            0 => self.func_type(d),
            1 if d > 0 => {
                self.t("interface");
                self.interface_items(d - 1);
            }
            _ => self.id(),
        }
    }
    fn world_item_path(&mut self, d: u32) {
        match self.r.below(3) {
            0 => {
                self.id();
                self.t(":");
                self.extern_type(d);
            }
            1 => self.pkgpath(),
            _ => self.id(),
        }
    }
    fn world_items(&mut self, d: u32) {
        self.t("{");
        for _ in 0..self.r.below(5) {
            match self.r.below(5) {
                0 => self.use_type(d),
                1 => self.item_type_decl(d),
                2 | 3 => {
                    let k = if self.r.chance(1, 2) { "import" } else { "export" };
                    self.t(k);
                    self.world_item_path(d);
                    self.t(";");
                }
                _ => {
                    self.t("include");
                    if self.r.chance(1, 2) {
                        self.pkgpath()
                    } else {
                        self.id()
                    }
                    if self.r.chance(1, 2) {
                        self.t("with");
                        self.t("{");
                        if !self.r.chance(1, 20) {
                            self.list1(0, |g, _| {
                                g.id();
                                g.t("as");
                                g.id();
                            });
                        }
                        self.t("}");
                    }
                    self.t(";");
                }
            }
        }
        self.t("}");
    }
    fn arg(&mut self, d: u32) {
        match self.r.below(4) {
            0 => self.id(),
            1 => {
                self.t("...");
                self.id();
            }
            _ => {
                if self.r.chance(1, 2) {
                    self.id()
                } else {
                    self.string()
                }
                self.t(":");
                self.expr(d);
            }
        }
    }
    fn expr(&mut self, d: u32) {
        let c = if d == 0 { 2 } else { self.r.below(4) };
        match c {
            0 | 1 => {
                self.t("new");
                self.pkgname();
                self.t("{");
                match self.r.below(24) {
                    // instantiation-args ::= arg (',' arg)* (',' '...'?)?
                    0..=15 => {
                        let n = 1 + self.r.below(3);
                        for i in 0..n {
                            if i > 0 {
                                self.t(",");
                            }
                            self.arg(d - 1);
                        }
                        match self.r.below(3) {
                            0 => {}
                            1 => self.t(","),
                            _ => {
                                self.t(",");
                                self.t("...");
                            }
                        }
                    }
                    16..=19 => self.t("..."), // the idiom of the prose; not derivable from the EBNF
                    20 => {}                    // deviation: empty
                    21 => {
                        // deviation: fill first
                        self.t("...");
                        self.t(",");
                        self.arg(d - 1);
                    }
                    22 => {
                        // deviation: fill followed by a comma
                        self.arg(d - 1);
                        self.t(",");
                        self.t("...");
                        self.t(",");
                    }
                    _ => {
                        // deviation: fill in the middle
                        self.arg(d - 1);
                        self.t(",");
                        self.t("...");
                        self.t(",");
                        self.arg(d - 1);
                    }
                }
                self.t("}");
            }
            2 => self.id(),
            _ => {
                self.t("(");
                self.expr(d - 1);
                self.t(")");
            }
        }
        for _ in 0..(if self.r.chance(1, 2) { self.r.below(3) } else { 0 }) {
            if self.r.chance(1, 2) {
                self.t(".");
                self.id();
            } else {
                self.t("[");
                self.string();
                self.t("]");
            }
        }
    }
    fn statement(&mut self, d: u32) {
        match self.r.below(7) {
            0 | 1 => {
                self.t("import");
                self.id();
                if self.r.chance(1, 3) {
                    self.t("as");
                    if self.r.chance(1, 2) {
                        self.id()
                    } else {
                        self.string()
                    }
                }
                self.t(":");
                match self.r.below(4) {
                    0 => self.pkgpath(),
                    1 => self.func_type(d),
                    2 => {
                        self.t("interface");
                        self.interface_items(d - 1);
                    }
                    _ => self.id(),
                }
                self.t(";");
            }
            2 => {
                self.t("interface");
                self.id();
                self.interface_items(d - 1);
            }
            3 => {
                self.t("world");
                self.id();
                self.world_items(d - 1);
            }
            4 => self.type_decl(d - 1),
            5 => {
                self.t("let");
                self.id();
                self.t("=");
                self.expr(d - 1);
                self.t(";");
            }
            _ => {
                self.t("export");
                self.expr(d - 1);
                match self.r.below(3) {
                    0 => {}
                    1 => self.t("..."),
                    _ => {
                        self.t("as");
                        if self.r.chance(1, 2) {
                            self.id()
                        } else {
                            self.string()
                        }
                    }
                }
                self.t(";");
            }
        }
    }
    fn document(&mut self, max_statements: u64, depth: u32) {
        self.t("package");
        self.pkgname();
        if self.r.chance(1, 4) {
            self.t("targets");
            self.pkgpath();
        }
        self.t(";");
        for _ in 0..self.r.below(max_statements + 1) {
            let d = 2 + self.r.below(depth as u64 - 1) as u32;
            self.statement(d);
        }
    }
}

// ------------------------------------------------------------------------------------------------ layout

fn comment_text(r: &mut Rng) -> String {
    (*r.pick(&["note", "a b c", "caf\u{e9}", "\u{65e5}\u{672c}\u{8a9e}", "x \"y\" z", "* star", "/ slash", "", "tab\there", "\u{1f600}"])).to_string()
}

fn block_comment(r: &mut Rng, depth: u32, doc: bool) -> String {
    let mut s = String::from(if doc { "/** " } else { "/*" });
    if !doc && r.chance(1, 6) {
        return "/**/".into();
    }
    for _ in 0..r.below(3) {
        match r.below(5) {
            0 if depth > 0 => s.push_str(&block_comment(r, depth - 1, false)),
            1 => s.push('\n'),
            2 => s.push_str(" // "),
            _ => {
                s.push(' ');
                s.push_str(&comment_text(r));
            }
        }
    }
    if r.chance(1, 2) {
        s.push(' ');
    }
    s.push_str("*/");
    s
}

/// A non-empty piece of skippable material.
fn gap(r: &mut Rng) -> String {
    let mut s = String::new();
    let n = 1 + if r.chance(1, 5) { r.below(3) } else { 0 };
    for _ in 0..n {
        match r.below(40) {
            0..=21 => s.push(' '),
            22..=27 => s.push('\n'),
            28 | 29 => s.push('\t'),
            30 | 31 => s.push_str("\r\n"),
            32 => s.push('\r'),
            33 => s.push_str("  "),
            34 => {
                s.push_str("//");
                s.push_str(&comment_text(r));
                s.push_str(if r.chance(1, 4) { "\r\n" } else { "\n" });
            }
            35 | 36 => {
                s.push_str("///");
                if r.chance(3, 4) {
                    s.push(' ');
                }
                s.push_str(&comment_text(r));
                s.push_str(if r.chance(1, 4) { "\r\n" } else { "\n" });
            }
            37 => s.push_str(&block_comment(r, 2, false)),
            38 => {
                if r.chance(1, 2) {
                    s.push_str(&block_comment(r, 1, true));
                } else {
                    s.push_str(&doc_block(r));
                }
                if r.chance(1, 2) {
                    s.push('\n');
                }
            }
            _ => s.push_str("\n\n"),
        }
    }
    s
}

#[derive(Clone)]
struct Doc {
    toks: Vec<String>,
    gaps: Vec<String>, // gaps[i] precedes toks[i]; gaps[n] ends the text
}

impl Doc {
    fn render(&self) -> String {
        let mut s = String::new();
        for (i, t) in self.toks.iter().enumerate() {
            s.push_str(&self.gaps[i]);
            s.push_str(t);
        }
        s.push_str(&self.gaps[self.toks.len()]);
        s
    }
    /// Render; if the real lexer does not give back exactly the intended token texts, separate every pair of
    /// tokens by at least one space.
    fn render_checked(&self) -> String {
        let s = self.render();
        if let Some(ts) = real_tokens(&s) {
            if ts.len() == self.toks.len()
                && ts.iter().zip(&self.toks).all(|((_, (o, l)), t)| &s[*o..*o + *l] == t.as_str())
            {
                return s;
            }
        }
        let mut d = self.clone();
        for i in 1..d.toks.len() {
            if d.gaps[i].is_empty() {
                d.gaps[i].push(' ');
            }
        }
        d.render()
    }
}

fn tight(a: &str, b: &str) -> bool {
    const SOLID: &[&str] = &[";", "{", "}", "(", ")", "<", ">", ",", "[", "]", "=", ".", ":"];
    SOLID.contains(&a) || SOLID.contains(&b)
}

fn layout(r: &mut Rng, toks: Vec<String>) -> Doc {
    let n = toks.len();
    let mut gaps = Vec::with_capacity(n + 1);
    for i in 0..=n {
        let g = if i == 0 {
            if r.chance(1, 3) { gap(r) } else { String::new() }
        } else if i == n {
            if r.chance(1, 2) { gap(r) } else { String::new() }
        } else if tight(&toks[i - 1], &toks[i]) && r.chance(1, 2) {
            String::new()
        } else {
            gap(r)
        };
        gaps.push(g);
    }
    Doc { toks, gaps }
}
// ------------------------------------------------------------------------------------------------ cases

struct Sink {
    cases: std::io::BufWriter<std::fs::File>,
    obs: std::io::BufWriter<std::fs::File>,
    n: usize,
    seen: std::collections::HashSet<String>,
}

impl Sink {
    fn doc(&mut self, origin: &str, src: &str) {
        if !self.seen.insert(src.to_string()) {
            return;
        }
        writeln!(self.cases, "doc\t{}\t{}\t{}", self.n, origin, enc(src)).unwrap();
        writeln!(self.obs, "{}", observe(src)).unwrap();
        self.n += 1;
    }
}

fn wac_files(dir: &std::path::Path, out: &mut Vec<std::path::PathBuf>) {
    if let Ok(rd) = std::fs::read_dir(dir) {
        let mut es: Vec<_> = rd.flatten().map(|e| e.path()).collect();
        es.sort();
        for p in es {
            let name = p.file_name().and_then(|s| s.to_str()).unwrap_or("");
            if p.is_dir() {
                if name != "target" && name != ".git" {
                    wac_files(&p, out);
                }
            } else if name.ends_with(".wac") {
                out.push(p);
            }
        }
    }
}

/// One probe per construct the property names (and per layout hazard found while modelling).
const PROBES: &[&str] = &[
    "package a:b;",
    "package a:b targets c:d/e;",
    "package a:b@1.2.3-rc.1+b.7 targets c:d/e/f@0.1.0;",
    "/// top\n/** block\n   two */\npackage %a:%b;\n",
    "package a:b; let x = new c:d { ..., a };",
    "package a:b; let x = new c:d { a, ..., b: c, ... };",
    "package a:b; let x = new c:d { ..., };",
    "package a:b; let x = new c:d { ... };",
    "package a:b; let x = new c:d {};",
    "package a:b; let x = new c:d@1.0.0 { a, ...b, \"c\": d, %e: (f).g[\"h\"], ... };",
    "package a:b; let x = new c:d { a: new e:f { ... }, b: new g:h { ...i, j, }.k };",
    "/** a\n\n b */ package a:b;",
    "/** a\n   \n b */\npackage a:b;\n/**\n\n*/\nlet x = y;",
    "package a:b;\n/** x\r\n\r\ny */ let x = y;",
    "package a:b;\n///\n///  \n/// z\nlet x = y;",
    "package a:b;\n//// four slashes\n/***/\n/**/\n/** */\nlet x = y;",
    "package a:b;\n/** a /* nested */ b\n * c */\nlet x = y;",
    "package a:b;\n///\u{a0}nbsp\u{3000}\nlet x = y;",
    "package a:b;\r\n/** d */\r\n/// e\r\nlet x = y;",
    "package a:b;\n/// a\rb\nlet x = y;",
    "package a:b; export x;",
    "package a:b; export x...;",
    "package a:b; export x.y[\"z\"]...;",
    "package a:b; export x as y;",
    "package a:b; export x as \"y z\";",
    "package a:b; export (x) as %as;",
    "package a:b; import x: c:d/e@1.0.0;",
    "package a:b; import x as y: func();",
    "package a:b; import x as \"c:d/e\": interface { }",
    "package a:b; import %import as %as: %interface;",
    "package a:b; import f: func(a: u8, b: tuple<u8, list<option<result<_, string>>>>,) -> result<result<u8>, result>;",
    "package a:b; import f: func() ->;",
    "package a:b; type t = result<_>; type u = result<_, _>; type v = result<u8, _>; type w = borrow<%r>;",
    "package a:b; interface i { use c:d/e@1.0.0.{a, b as c,}; use f.{}; use g.{ h }; }",
    "package a:b; interface i { /// r\n resource r { /// c\n constructor(a: u8); /// m\n m: func(); /// s\n s: static func(x: borrow<r>) -> r; } resource q; resource p {} }",
    "package a:b; world w { include c:d/e; include f with { a as b, c as %d, }; include g with {}; }",
    "package a:b; world w { import a; export b: func(); import c:d/e; export f: interface { g: func(); h: i; }; import %j: %k; }",
    "package a:b; world w { use x.{y}; type t = u8; record r { a: u8 } resource s; }",
    "package a:b; variant v { /// a\n a, /// b\n b(list<u8>), } record r { /// f\n f: u8, g: v } flags f { /// x\n x, y } enum e { /// p\n p, q, }",
    "package a:b; type f = func(a: u8) -> u8; type t = tuple<u8>;",
    "package a:b; interface i { record: func(); f: g; }",
    "package a:b; let FOO = foo-BAR; let x = foo-;",
    "package a:b; let x = a.b.c[\"d\"][\"\"].e;",
    "package a:b; let x = ((a));",
    "package a:b; import x as u32: func();",
    "package a:b; world w { export f: interface { resource r { constructor(); } variant v { a(u8) } } ; }",
];

fn main() {
    let a: Vec<String> = std::env::args().collect();
    if a.len() < 5 {
        eprintln!("usage: c13 <tier> <seed> <cases_out> <impl_out> [replay]");
        std::process::exit(2);
    }
    std::panic::set_hook(Box::new(|_| {}));
    let thorough = a[1] == "thorough";
    let seed: u64 = a[2].parse().unwrap_or(1);
    let mut sink = Sink {
        cases: std::io::BufWriter::new(std::fs::File::create(&a[3]).unwrap()),
        obs: std::io::BufWriter::new(std::fs::File::create(&a[4]).unwrap()),
        n: 0,
        seen: Default::default(),
    };
    if a.len() > 5 {
        // replay: lines `doc \t id \t origin \t codepoints`
        for line in std::fs::read_to_string(&a[5]).unwrap().lines() {
            let f: Vec<&str> = line.split('\t').collect();
            if f.len() < 4 {
                continue;
            }
            let src: String = if f[3] == "-" { String::new() } else {
                f[3].split(',').map(|x| char::from_u32(x.parse().unwrap()).unwrap()).collect()
            };
            sink.seen.clear(); // replayed cases are never de-duplicated (line counts must match)
            sink.doc(f[2], &src);
        }
        sink.cases.flush().unwrap();
        sink.obs.flush().unwrap();
        return;
    }
    let mut r = Rng::new(seed ^ 0xC13);
    let repo = std::env::var("VERIF_REPO").unwrap_or_else(|_| "/repo".into());
    for (i, p) in PROBES.iter().enumerate() {
        sink.doc(&format!("probe:{}", i), p);
    }
    // every .wac file of the repository, as it is and with a second random layout
    let mut files = Vec::new();
    wac_files(std::path::Path::new(&repo), &mut files);
    for p in &files {
        let Ok(src) = std::fs::read_to_string(p) else { continue };
        let rel = p.strip_prefix(&repo).unwrap_or(p).display().to_string();
        sink.doc(&format!("file:{}", rel), &src);
        if let Some(ts) = real_tokens(&src) {
            if ts.is_empty() {
                continue;
            }
            let toks: Vec<String> = ts.iter().map(|(_, (o, l))| src[*o..*o + *l].to_string()).collect();
            for k in 0..(if thorough { 6 } else { 2 }) {
                let d = layout(&mut r, toks.clone());
                sink.doc(&format!("file-relayout:{}:{}", rel, k), &d.render_checked());
            }
        }
    }
    // generated documents
    let (ndocs, max_statements) = if thorough { (30000usize, 10u64) } else { (4000usize, 6u64) };
    for i in 0..ndocs {
        let mut g = Gen { r: &mut r, out: Vec::new() };
        g.document(max_statements, 6);
        let toks = g.out;
        let d = layout(&mut r, toks);
        sink.doc(&format!("gen:{}", i), &d.render_checked());
    }
    sink.cases.flush().unwrap();
    sink.obs.flush().unwrap();
}
