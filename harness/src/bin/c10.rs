//! C10 correspondence: `wac_graph::plug` on generated libraries of sockets and plugs.
//! usage: c10 <quick|thorough> <seed> <cases_out> <impl_out> [replay_cases_in]
//!
//! cases file: blocks. A block is `U reset`, the library (`U lib <i> imports=<name>:<kind>,.. exports=..`),
//! oracle facts derived from the real code (`U name/kind/pkg/sub/names ...`) and cases `C <socket> <plug>...`
//! (library indexes; the socket is registered first, then the plugs in order, as the CLI does).
//! impl file: the same header lines, and for every case
//! `outcome|dump|enc|imports|exports` (dump exactly as c06).
//! A replay/corpus input needs only the `U reset`, `U lib` and `C` lines.
use std::collections::HashMap;
use std::fmt::Write as _;
use std::io::Write;
use std::panic::{catch_unwind, AssertUnwindSafe};
use wac_graph::{types::*, CompositionGraph, EncodeOptions, NodeKind, PackageId};
use wacv::Rng;

/// the name pool; model names are indexes into it
pub const NAMES: &[&str] = &[
    "f", "g", "h", "run", "get-x",                                     // 0..4 plain labels
    "a:b/c@0.2.0", "a:b/c@0.2.1", "a:b/c@0.2.2", "a:b/c@0.3.0",        // 5..8
    "a:b/c@1.0.0", "a:b/c@1.1.0", "a:b/c@1.0.0-rc.1", "a:b/c",         // 9..12 (11 pre-release, 12 unversioned)
    "a:b/d@0.2.0", "a:b/c@0.0.1", "a:b/c@0.0.2",                       // 13..15 (0.0.x: never compatible)
    "x:y/z@2.0.0", "x:y/z@2.3.1", "a:b/c@2.0.0",                       // 16..18
    "p-dep", "out", "a:b/e@1.0.0", "x", "y", "a:b/c@1.0.0+b7", "zz", "a:b/q@3.0.0",   // 19..26
];
const MATCH_POOL: &[usize] = &[0, 1, 2, 5, 6, 7, 8, 9, 10, 11, 12, 13, 14, 15, 16, 17, 18, 24];
const SOCKET_EXPORT_POOL: &[usize] = &[20, 3, 21, 4, 1];
const NOMATCH_POOL: &[usize] = &[25, 26];
/// names on one semver track
const FAMILIES: &[&[usize]] = &[&[5, 6, 7], &[9, 10, 24], &[16, 17]];
const KINDS: &[&str] = &["F0", "F1", "F2", "F3", "I0", "I1", "I2", "I3", "I4"];

fn nidx(n: &str) -> usize { NAMES.iter().position(|x| *x == n).unwrap_or_else(|| panic!("name {n} not in pool")) }

/// import-position type text and export-position item reference of a kind code
fn kind_import_ty(k: &str) -> &'static str {
    match k {
        "F0" => "(func)",
        "F1" => "(func (param \"a\" u32))",
        "F2" => "(func (result u32))",
        "F3" => "(func (param \"a\" u32) (result u32))",
        "I0" => "(instance (export \"x\" (func)))",
        "I1" => "(instance (export \"x\" (func)) (export \"y\" (func)))",
        "I2" => "(instance (export \"x\" (func (param \"a\" u32))))",
        "I3" => "(instance)",
        "I4" => "(instance (export \"y\" (func)) (export \"x\" (func)))",
        _ => panic!("kind {k}"),
    }
}
fn kind_export_ref(k: &str) -> String {
    match k.as_bytes()[0] { b'F' => format!("(func $f{})", &k[1..]), _ => format!("(instance $i{})", &k[1..]) }
}

#[derive(Clone, Debug)]
struct Lib { imports: Vec<(usize, String)>, exports: Vec<(usize, String)> }

fn wat_of(l: &Lib) -> String {
    let mut s = String::from("(component\n");
    for (n, k) in &l.imports { writeln!(s, "  (import \"{}\" {})", NAMES[*n], kind_import_ty(k)).unwrap(); }
    s.push_str(r#"  (core module $m
    (func (export "f0"))
    (func (export "f1") (param i32))
    (func (export "f2") (result i32) i32.const 7)
    (func (export "f3") (param i32) (result i32) local.get 0))
  (core instance $ci (instantiate $m))
  (func $f0 (canon lift (core func $ci "f0")))
  (func $f1 (param "a" u32) (canon lift (core func $ci "f1")))
  (func $f2 (result u32) (canon lift (core func $ci "f2")))
  (func $f3 (param "a" u32) (result u32) (canon lift (core func $ci "f3")))
  (instance $i0 (export "x" (func $f0)))
  (instance $i1 (export "x" (func $f0)) (export "y" (func $f0)))
  (instance $i2 (export "x" (func $f1)))
  (instance $i3)
  (instance $i4 (export "y" (func $f0)) (export "x" (func $f0)))
"#);
    for (n, k) in &l.exports { writeln!(s, "  (export \"{}\" {})", NAMES[*n], kind_export_ref(k)).unwrap(); }
    s.push_str(")\n");
    s
}

fn show_lib(i: usize, l: &Lib) -> String {
    let f = |v: &Vec<(usize, String)>| v.iter().map(|(n, k)| format!("{n}:{k}")).collect::<Vec<_>>().join(",");
    format!("U lib {i} imports={} exports={}", f(&l.imports), f(&l.exports))
}
fn parse_lib(line: &str) -> (usize, Lib) {
    let f: Vec<&str> = line.split(' ').collect();
    let g = |s: &str| -> Vec<(usize, String)> {
        let body = s.split_once('=').unwrap().1;
        body.split(',').filter(|x| !x.is_empty()).map(|x| { let (a, b) = x.split_once(':').unwrap(); (a.parse().unwrap(), b.to_string()) }).collect()
    };
    (f[2].parse().unwrap(), Lib { imports: g(f[3]), exports: g(f[4]) })
}

/// structural, arena-free rendering of an item kind (resource-free universe) -- as in c06
fn canon(types: &Types, k: ItemKind) -> String {
    fn vt(types: &Types, v: ValueType) -> String {
        match v {
            ValueType::Primitive(p) => format!("{p:?}"),
            ValueType::Borrow(_) => "borrow".into(),
            ValueType::Own(_) => "own".into(),
            ValueType::Defined(id) => match &types[id] {
                DefinedType::Alias(a) => format!("alias({})", vt(types, *a)),
                DefinedType::List(a) => format!("list({})", vt(types, *a)),
                DefinedType::Option(a) => format!("option({})", vt(types, *a)),
                DefinedType::Tuple(ts) => format!("tuple({})", ts.iter().map(|t| vt(types, *t)).collect::<Vec<_>>().join(",")),
                other => format!("{other:?}"),
            },
        }
    }
    fn ty(types: &Types, t: Type) -> String {
        match t {
            Type::Resource(_) => "resource".into(),
            Type::Func(id) => {
                let f = &types[id];
                format!("func({}){}{}", f.params.iter().map(|(n, t)| format!("{n}:{}", vt(types, *t))).collect::<Vec<_>>().join(","),
                    f.result.map(|r| format!("->{}", vt(types, r))).unwrap_or_default(), if f.is_async { "async" } else { "" })
            }
            Type::Value(v) => vt(types, v),
            Type::Interface(id) => format!("{{{}}}", types[id].exports.iter().map(|(n, k)| format!("{n}={}", canon(types, *k))).collect::<Vec<_>>().join(";")),
            Type::World(id) => format!("world<{}|{}>", types[id].imports.iter().map(|(n, k)| format!("{n}={}", canon(types, *k))).collect::<Vec<_>>().join(";"),
                types[id].exports.iter().map(|(n, k)| format!("{n}={}", canon(types, *k))).collect::<Vec<_>>().join(";")),
            Type::Module(_) => "module".into(),
        }
    }
    match k {
        ItemKind::Type(t) => format!("type:{}", ty(types, t)),
        ItemKind::Func(id) => format!("func:{}", ty(types, Type::Func(id))),
        ItemKind::Instance(id) => format!("instance:{}", ty(types, Type::Interface(id))),
        ItemKind::Component(id) => format!("component:{}", ty(types, Type::World(id))),
        ItemKind::Module(_) => "module".into(),
        ItemKind::Value(v) => format!("value:{}", vt(types, v)),
    }
}

struct Universe { kid: HashMap<String, usize>, header: Vec<String>, bytes: Vec<Vec<u8>> }

fn mk_pkg(g: &mut CompositionGraph, i: usize, bytes: &[u8]) -> Package {
    Package::from_bytes(&format!("lib:p{i}"), None, bytes.to_vec(), g.types_mut()).expect("package")
}

/// oracle facts of a library, computed by the real code: kinds, package worlds, subtype table, name validity.
/// Also checks, for every package, that the world's exports and the instance type's exports agree in names,
/// order and kinds (the model reads the world's exports through the instance type).
fn build_universe(libs: &[Lib]) -> Result<Universe, String> {
    let mut g = CompositionGraph::new();
    let mut reps: Vec<ItemKind> = Vec::new();
    let mut kinds: Vec<String> = Vec::new();
    let mut kid: HashMap<String, usize> = HashMap::new();
    let mut header = Vec::new();
    fn intern(types: &Types, k: ItemKind, reps: &mut Vec<ItemKind>, kinds: &mut Vec<String>, kid: &mut HashMap<String, usize>) -> usize {
        let s = canon(types, k);
        if let Some(i) = kid.get(&s) { return *i; }
        let i = kinds.len(); kinds.push(s.clone()); kid.insert(s, i); reps.push(k);
        if let ItemKind::Instance(id) = k {
            for (_, e) in types[id].exports.clone() { intern(types, e, reps, kinds, kid); }
        }
        i
    }
    for (i, n) in NAMES.iter().enumerate() { header.push(format!("U name {i} {}", wacv::enc(n))); }
    let mut bytes = Vec::new();
    let mut pk = Vec::new();
    for (i, l) in libs.iter().enumerate() {
        header.push(show_lib(i, l));
        let b = wat::parse_str(wat_of(l)).map_err(|e| format!("wat {i}: {e}"))?;
        let p = Package::from_bytes(&format!("lib:p{i}"), None, b.clone(), g.types_mut()).map_err(|e| format!("package {i}: {e:#}"))?;
        bytes.push(b);
        let w = g.types()[p.ty()].clone();
        let it = g.types()[p.instance_type()].clone();
        let we: Vec<(String, String)> = w.exports.iter().map(|(n, k)| (n.clone(), canon(g.types(), *k))).collect();
        let ie: Vec<(String, String)> = it.exports.iter().map(|(n, k)| (n.clone(), canon(g.types(), *k))).collect();
        if we != ie { return Err(format!("WORLD-EXPORTS-DIFFER-FROM-INSTANCE-EXPORTS pkg {i}: {we:?} vs {ie:?}")); }
        let inst = intern(g.types(), ItemKind::Instance(p.instance_type()), &mut reps, &mut kinds, &mut kid);
        let imps: Vec<String> = w.imports.iter().map(|(n, k)| format!("{}={}", nidx(n), intern(g.types(), *k, &mut reps, &mut kinds, &mut kid))).collect();
        pk.push(format!("U pkg {i} inst={inst} imports={}", imps.join(",")));
    }
    for (i, k) in reps.iter().enumerate() {
        let class = match k { ItemKind::Type(_) => "type", ItemKind::Func(_) => "func", ItemKind::Instance(_) => "instance",
            ItemKind::Component(_) => "component", ItemKind::Module(_) => "module", ItemKind::Value(_) => "value" };
        let ex = if let ItemKind::Instance(id) = k {
            g.types()[*id].exports.iter().map(|(n, e)| format!("{}={}", nidx(n), kid[&canon(g.types(), *e)])).collect::<Vec<_>>().join(",")
        } else { String::new() };
        header.push(format!("U kind {i} {class} {ex}"));
    }
    header.extend(pk);
    let mut subs = Vec::new();
    for (a, ka) in reps.iter().enumerate() { for (b, kb) in reps.iter().enumerate() {
        let mut cache = Default::default();
        let mut c = SubtypeChecker::new(&mut cache);
        if c.is_subtype(*ka, g.types(), *kb, g.types()).is_ok() { subs.push(format!("{a}<{b}")); }
    }}
    header.push(format!("U sub {}", subs.join(",")));
    header.push(format!("U names {}", name_validity()));
    for (i, k) in kinds.iter().enumerate() { header.push(format!("U kindtext {i} {k}")); }
    Ok(Universe { kid, header, bytes })
}

/// name validity oracles (wasmparser's ComponentName), probed through the API on a scratch graph
fn name_validity() -> String {
    let mut nv = Vec::new();
    for (i, n) in NAMES.iter().enumerate() {
        let mk = || { let mut g = CompositionGraph::new();
            let f0 = g.types_mut().add_func_type(FuncType { params: Default::default(), result: None, is_async: false });
            (g, ItemKind::Func(f0)) };
        let (mut g2, k2) = mk();
        let imp_ok = !matches!(g2.import(*n, k2), Err(wac_graph::ImportError::InvalidImportName { .. }));
        let (mut g3, k3) = mk();
        let nd = g3.import("zz", k3).unwrap();
        let exp_ok = g3.export(nd, *n).is_ok();
        nv.push(format!("{i}:{}{}", imp_ok as u8, exp_ok as u8));
    }
    nv.join(",")
}

fn pid_pair(p: PackageId) -> (usize, usize) {
    let s = format!("{p:?}");
    let nums: Vec<usize> = s.split(|c: char| !c.is_ascii_digit()).filter(|x| !x.is_empty()).map(|x| x.parse().unwrap()).collect();
    (nums[0], nums[1])
}

/// canonical dump of everything the public queries (and the guarded hook) report -- as in c06
fn dump(g: &CompositionGraph, u: &Universe, npk: usize) -> String {
    let r = catch_unwind(AssertUnwindSafe(|| dump_inner(g, u, npk)));
    r.unwrap_or_else(|_| "DUMP-PANIC".into())
}
fn dump_inner(g: &CompositionGraph, u: &Universe, npk: usize) -> String {
    let kid = |k: ItemKind| -> String { let s = canon(g.types(), k); u.kid.get(&s).map(|i| i.to_string()).unwrap_or_else(|| format!("?{s}")) };
    let opt_name = |s: Option<&str>| s.map(|x| nidx(x).to_string()).unwrap_or("-".into());
    let mut o = String::new();
    o.push_str("N[");
    for id in g.node_ids() {
        let n = &g[id];
        let tag = match n.kind() { NodeKind::Definition => "D", NodeKind::Import(_) => "I", NodeKind::Instantiation(_) => "S", NodeKind::Alias => "A" };
        let pk = n.package().map(|p| { let (a, b) = pid_pair(p); format!("{a}.{b}") }).unwrap_or("-".into());
        write!(o, "{id}:{tag}:{pk}:{}:{}:{}:{},", kid(n.item_kind()), opt_name(n.export_name()), opt_name(n.name()), opt_name(n.import_name())).unwrap();
    }
    o.push_str("]A[");
    for id in g.node_ids() {
        let args: Vec<String> = g.get_instantiation_arguments(id).map(|(n, s)| format!("{}={s}", nidx(n))).collect();
        if !args.is_empty() { write!(o, "{id}:({}),", args.join(",")).unwrap(); }
    }
    o.push_str("]L[");
    for id in g.node_ids() {
        if let Some((s, e)) = g.get_alias_source(id) { write!(o, "{id}:{s}.{},", nidx(e)).unwrap(); }
    }
    o.push_str("]I[");
    for (n, k, nd) in g.imports() { write!(o, "({},{},{}),", nidx(n), kid(k), nd.map(|x| x.to_string()).unwrap_or("-".into())).unwrap(); }
    o.push_str("]E[");
    for (i, n) in NAMES.iter().enumerate() { if let Some(x) = g.get_export(n) { write!(o, "{i}={x},").unwrap(); } }
    o.push_str("]P[");
    for i in 0..npk {
        if let Some((id, _)) = g.get_package_by_name(&format!("lib:p{i}"), None) { let (a, b) = pid_pair(id); write!(o, "{i}={a}.{b},").unwrap(); }
    }
    o.push(']');
    let d = g.verif_dump();
    let (pre, rest) = d.split_once("]X[").unwrap();
    let (xs, post) = rest.split_once("]G[").unwrap();
    let xs2: String = xs.split(',').filter(|e| !e.is_empty()).map(|e| { let (n, i) = e.rsplit_once('=').unwrap(); format!("{}={},", nidx(n), i) }).collect();
    write!(o, "{pre}]X[{xs2}]G[{post}").unwrap();
    let bad = g.verif_invariants();
    if !bad.is_empty() { write!(o, "V[{}]", bad.join(" / ").replace([';', '|'], " ")).unwrap(); }
    o
}

/// names of the top-level imports and exports of an encoded component (section-level parser), and validity
fn read_component(bytes: &[u8]) -> (Vec<String>, Vec<String>, Result<(), String>) {
    use wasmparser::{Parser, Payload};
    let (mut imps, mut exps) = (Vec::new(), Vec::new());
    let mut depth = 0usize;
    for p in Parser::new(0).parse_all(bytes) {
        match p {
            Ok(Payload::ModuleSection { .. }) | Ok(Payload::ComponentSection { .. }) => depth += 1,
            Ok(Payload::End(_)) => { if depth > 0 { depth -= 1; } }
            Ok(Payload::ComponentImportSection(s)) if depth == 0 => { for i in s { if let Ok(i) = i { imps.push(i.name.0.to_string()); } } }
            Ok(Payload::ComponentExportSection(s)) if depth == 0 => { for e in s { if let Ok(e) = e { exps.push(e.name.0.to_string()); } } }
            Ok(_) => {}
            Err(e) => return (imps, exps, Err(format!("parse: {e}"))),
        }
    }
    let v = wasmparser::Validator::new_with_features(wasmparser::WasmFeatures::all()).validate_all(bytes).map(|_| ()).map_err(|e| e.to_string());
    (imps, exps, v)
}

fn graph_err_variant(e: &anyhow::Error) -> String {
    use wac_graph::*;
    if let Some(a) = e.downcast_ref::<AliasError>() {
        return match a { AliasError::NodeIsNotAnInstance { .. } => "NodeIsNotAnInstance", AliasError::InstanceMissingExport { .. } => "InstanceMissingExport" }.into();
    }
    if let Some(a) = e.downcast_ref::<InstantiationArgumentError>() {
        use InstantiationArgumentError::*;
        return match a { NodeIsNotAnInstantiation { .. } => "NodeIsNotAnInstantiation", InvalidArgumentName { .. } => "InvalidArgumentName",
            ArgumentTypeMismatch { .. } => "ArgumentTypeMismatch", ArgumentAlreadyPassed { .. } => "ArgumentAlreadyPassed" }.into();
    }
    if let Some(a) = e.downcast_ref::<ExportError>() {
        return match a { ExportError::ExportAlreadyExists { node, .. } => format!("ExportAlreadyExists({node})"), ExportError::InvalidExportName { .. } => "InvalidExportName".into() };
    }
    format!("?{}", e.to_string().replace([';', '|', '\n'], " "))
}

fn run_case(u: &Universe, socket: usize, plugs: &[usize]) -> String {
    let mut g = CompositionGraph::new();
    let r = catch_unwind(AssertUnwindSafe(|| {
        let sp = mk_pkg(&mut g, socket, &u.bytes[socket]);
        let sid = g.register_package(sp).expect("register socket");
        let mut pids = Vec::new();
        for p in plugs { let pp = mk_pkg(&mut g, *p, &u.bytes[*p]); pids.push(g.register_package(pp).expect("register plug")); }
        wac_graph::plug(&mut g, pids, sid)
    }));
    let outcome = match &r {
        Ok(Ok(())) => "Ok".to_string(),
        Ok(Err(wac_graph::PlugError::NoPlugHappened)) => "NoPlugHappened".into(),
        Ok(Err(wac_graph::PlugError::GraphError { source })) => format!("GraphError:{}", graph_err_variant(source)),
        Err(e) => { let msg = e.downcast_ref::<String>().cloned().or_else(|| e.downcast_ref::<&str>().map(|s| s.to_string())).unwrap_or_default();
            return format!("PANIC({})|DEAD|enc:-|imp=|exp=", msg.replace([';', '|', '\n', '\t'], " ")); }
    };
    let d = dump(&g, u, u.bytes.len());
    let enc = catch_unwind(AssertUnwindSafe(|| g.encode(EncodeOptions { define_components: true, validate: true, processor: None })));
    let (e, imps, exps) = match enc {
        Ok(Ok(bytes)) => { let (i, x, v) = read_component(&bytes);
            (match v { Ok(()) => "enc:ok".to_string(), Err(m) => format!("enc:INVALID({})", m.replace([';', '|', '\n'], " ")) }, i, x) }
        Ok(Err(err)) => (format!("enc:E:{}", format!("{err:#}").replace([';', '|', '\n'], " ")), vec![], vec![]),
        Err(_) => ("enc:PANIC".to_string(), vec![], vec![]),
    };
    let ix = |v: &Vec<String>| v.iter().map(|n| NAMES.iter().position(|x| x == n).map(|i| i.to_string()).unwrap_or(format!("?{n}"))).collect::<Vec<_>>().join(",");
    format!("{outcome}|{d}|{e}|imp={}|exp={}", ix(&imps), ix(&exps))
}

// ---------------------------------------------------------------- generation

fn pick_kind(r: &mut Rng) -> String { KINDS[r.below(KINDS.len() as u64) as usize].to_string() }
/// a kind that is a subtype of (or equal to) `k` most of the time
fn kind_near(r: &mut Rng, k: &str) -> String {
    if r.chance(3, 10) { return pick_kind(r); }
    match k { "I0" => (*r.pick(&["I0", "I1", "I4", "I0"])).to_string(), "I3" => (*r.pick(&["I0", "I1", "I2", "I3"])).to_string(),
              "I1" => (*r.pick(&["I1", "I4"])).to_string(), "I4" => (*r.pick(&["I1", "I4"])).to_string(), other => other.to_string() }
}

struct Block { libs: Vec<Lib>, nsock: usize, cases: Vec<(usize, Vec<usize>)> }

fn gen_block(r: &mut Rng, ncases: usize) -> Block {
    // a focus set of names so that overlaps are frequent
    let nf = 4 + r.below(5) as usize;
    let mut focus: Vec<usize> = Vec::new();
    while focus.len() < nf { let n = *r.pick(MATCH_POOL); if !focus.contains(&n) { focus.push(n); } }
    // make sure there is a semver family in most blocks
    if r.chance(4, 5) { for n in [5usize, 6] { if !focus.contains(&n) { focus.push(n); } } }
    let mut name_kind: HashMap<usize, String> = HashMap::new();
    for n in &focus { name_kind.insert(*n, pick_kind(r)); }
    // same track names get the same base kind most of the time (so that semver fallback is type-compatible)
    for (a, b) in [(6usize, 5usize), (7, 5), (10, 9), (24, 9), (17, 16)] {
        if r.chance(3, 4) { if let Some(k) = name_kind.get(&b).cloned() { if name_kind.contains_key(&a) { name_kind.insert(a, k); } } }
    }
    // the block's semver family: two of its versions are always available
    let fam: &[usize] = *r.pick(FAMILIES);
    let fa = *r.pick(fam);
    let fb = loop { let x = *r.pick(fam); if x != fa { break x; } };
    for n in [fa, fb] { if !focus.contains(&n) { focus.push(n); } }
    let base = name_kind.get(&fa).cloned().unwrap_or_else(|| pick_kind(r));
    name_kind.insert(fa, base.clone());
    let kb = if r.chance(3, 4) { base } else { pick_kind(r) };
    name_kind.entry(fb).or_insert(kb);
    let nsock = 3 + r.below(4) as usize;
    let nplug = 6 + r.below(6) as usize;
    let mut libs = Vec::new();
    for _ in 0..nsock {
        let ni = 1 + r.below(4) as usize;
        let mut imports: Vec<(usize, String)> = Vec::new();
        while imports.len() < ni.min(focus.len()) {
            let n = *r.pick(&focus);
            if imports.iter().any(|(m, _)| *m == n) { continue; }
            let k = if r.chance(4, 5) { name_kind[&n].clone() } else { pick_kind(r) };
            imports.push((n, k));
        }
        // sockets importing exactly one version of a family: drop the siblings (half of the sockets), and make
        // sure that many sockets import a version of the block's family at all
        if r.chance(1, 2) {
            for f in FAMILIES {
                let members: Vec<usize> = imports.iter().map(|(n, _)| *n).filter(|n| f.contains(n)).collect();
                if members.len() >= 2 { let keep = *r.pick(&members); imports.retain(|(n, _)| !f.contains(n) || *n == keep); }
            }
            if !imports.iter().any(|(n, _)| fam.contains(n)) {
                let n = if r.chance(1, 2) { fa } else { fb };
                let k = if r.chance(4, 5) { name_kind[&n].clone() } else { pick_kind(r) };
                imports.push((n, k));
            }
        }
        let ne = 1 + r.below(2) as usize;
        let mut exports: Vec<(usize, String)> = Vec::new();
        while exports.len() < ne {
            let n = *r.pick(SOCKET_EXPORT_POOL);
            if exports.iter().any(|(m, _)| *m == n) || imports.iter().any(|(m, _)| *m == n) { continue; }
            exports.push((n, pick_kind(r)));
        }
        libs.push(Lib { imports, exports });
    }
    for _ in 0..nplug {
        let mut exports: Vec<(usize, String)> = Vec::new();
        if r.chance(1, 8) {
            // a plug with no matching export
            exports.push((*r.pick(NOMATCH_POOL), pick_kind(r)));
        } else if r.chance(1, 3) {
            // two versions of the block's family in one plug, in either order, each type-compatible with the
            // family's kind or not; sometimes a further export
            let (x, y) = if r.chance(1, 2) { (fa, fb) } else { (fb, fa) };
            for n in [x, y] {
                let k = if r.chance(2, 3) { kind_near(r, &name_kind[&n]) } else { pick_kind(r) };
                exports.push((n, k));
            }
            if r.chance(1, 3) { let n = *r.pick(&focus); if !exports.iter().any(|(m, _)| *m == n) { let k = kind_near(r, &name_kind[&n]); exports.push((n, k)); } }
        } else {
            let ne = 1 + r.below(3) as usize;
            while exports.len() < ne.min(focus.len()) {
                let n = *r.pick(&focus);
                if exports.iter().any(|(m, _)| *m == n) { continue; }
                let k = kind_near(r, &name_kind[&n]);
                exports.push((n, k));
            }
            if r.chance(1, 6) { exports.push((*r.pick(NOMATCH_POOL), pick_kind(r))); }
        }
        let imports = if r.chance(1, 8) { vec![(19usize, "F0".to_string())] } else { vec![] };
        libs.push(Lib { imports, exports });
    }
    let mut cases = Vec::new();
    for _ in 0..ncases {
        let s = r.below(nsock as u64) as usize;
        let len = 1 + r.below(4) as usize;
        let mut pl: Vec<usize> = Vec::new();
        while pl.len() < len.min(nplug) { let p = nsock + r.below(nplug as u64) as usize; if !pl.contains(&p) { pl.push(p); } }
        cases.push((s, pl));
    }
    Block { libs, nsock, cases }
}

fn parse_blocks(text: &str) -> Vec<Block> {
    let mut out: Vec<Block> = Vec::new();
    for line in text.lines() {
        if line == "U reset" { out.push(Block { libs: vec![], nsock: 0, cases: vec![] }); }
        else if line.starts_with("U lib ") { let (i, l) = parse_lib(line); let b = out.last_mut().expect("U reset first"); assert_eq!(i, b.libs.len()); b.libs.push(l); }
        else if let Some(c) = line.strip_prefix("C ") {
            let v: Vec<usize> = c.split(' ').filter(|x| !x.is_empty()).map(|x| x.parse().unwrap()).collect();
            out.last_mut().expect("U reset first").cases.push((v[0], v[1..].to_vec()));
        }
    }
    out
}

fn main() {
    let args: Vec<String> = std::env::args().collect();
    let tier = args[1].as_str();
    let seed: u64 = args[2].parse().unwrap();
    if std::env::var("C10_TRACE").is_err() { std::panic::set_hook(Box::new(|_| {})); }
    let mut co = std::io::BufWriter::new(std::fs::File::create(&args[3]).unwrap());
    let mut io = std::io::BufWriter::new(std::fs::File::create(&args[4]).unwrap());
    let blocks: Vec<Block> = if let Some(replay) = args.get(5) {
        parse_blocks(&std::fs::read_to_string(replay).unwrap())
    } else {
        let mut r = Rng::new(seed);
        let (nb, nc) = if tier == "thorough" { (50, 400) } else { (10, 40) };
        (0..nb).map(|_| gen_block(&mut r, nc)).collect()
    };
    for b in &blocks {
        let _ = b.nsock;
        let u = match build_universe(&b.libs) {
            Ok(u) => u,
            Err(e) => {
                // a library the real front end rejects is reported as a block-level observation
                writeln!(co, "U reset").unwrap(); writeln!(io, "U reset").unwrap();
                writeln!(co, "U bad {}", e.replace('\n', " ")).unwrap(); writeln!(io, "U bad {}", e.replace('\n', " ")).unwrap();
                continue;
            }
        };
        writeln!(co, "U reset").unwrap(); writeln!(io, "U reset").unwrap();
        for h in &u.header { writeln!(co, "{h}").unwrap(); writeln!(io, "{h}").unwrap(); }
        for (s, pl) in &b.cases {
            writeln!(co, "C {s} {}", pl.iter().map(|p| p.to_string()).collect::<Vec<_>>().join(" ")).unwrap();
            writeln!(io, "{}", run_case(&u, *s, pl)).unwrap();
        }
    }
}
