//! C02 / C03 (and C01 support): encodable compositions, real `CompositionGraph::encode`, and an independent
//! section-level reading of the output.
//!
//! usage: c02 <quick|thorough> <seed> <cases_out> <impl_out> [replay_cases_in]
//!
//! cases file: universe header lines (`U ...`) followed by one composition per line (`H op;op;...`, the c06
//!   operation syntax with concrete node ids). Consecutive lines of one group are dependency-preserving
//!   re-orderings of the same abstract composition (group id in the impl line).
//! impl file: the same header, then one line per composition, tab separated `key=value` fields:
//!   grp, res (outcome of every step), dump (final public state), api (graph.imports()), and per dependency
//!   mode m in {D (define_components=true), I (false)}: m.enc1 / m.enc0 (validate on / off), m.same (bytes equal),
//!   m.valid (independent wasmparser validation), m.log (item log of the outermost component), m.names
//!   (component-name section), m.imp (imports with instance-type export names), m.bad (reader problems).
use std::collections::{BTreeMap, HashMap};
use std::fmt::Write as _;
use std::io::Write;
use std::panic::{catch_unwind, AssertUnwindSafe};
use wac_graph::{types::*, CompositionGraph, EncodeError, EncodeOptions, NodeId, NodeKind, PackageId};
use wacv::{enc, Rng};

pub const NAMES: &[&str] = &[
    "f", "g", "i", "x", "inst", "h", "foo", "bar", "y", "run",                       // 0..9
    "a:b/c@0.2.0", "a:b/c@0.2.1", "a:b/c@0.3.0", "x:y/z@1.0.0", "x:y/z@1.2.0",       // 10..14
    "p", "q", "my-t", "u:s/types@1.0.0", "u:s/api@1.0.0", "r", "get", "baz",         // 15..22
    "n1", "n2", "n3", "t0", "t1", "a:b/c@0.2.5", "k", "u:s/types@1.1.0", "u:s/api@1.1.0", "put", "s", // 23..33
    // 34..40: one interface on major track 1 (minor/patch order disagree: 1.2.0 > 1.1.5; 1.10.0 > 1.4.0 > 1.2.0 numerically, not
    // textually), on major track 12 (its track key "v:w/i@1" is a textual prefix), a pre-release (no track) and build metadata
    "v:w/i@1.1.5", "v:w/i@1.2.0", "v:w/i@1.10.0", "v:w/i@12.0.1", "v:w/i@1.4.0", "v:w/i@1.3.0-rc.1", "v:w/i@1.2.0+b5",
    // 41..44: minor tracks 0.2 / 0.21 (textual prefix) / 0.3; 0.2.10 > 0.2.0 numerically
    "p:q/r@0.2.0", "p:q/r@0.21.0", "p:q/r@0.2.10", "p:q/r@0.3.0",
];

enum Src { Wat(&'static str), Wit(&'static str) }
struct PkgDesc { name: &'static str, version: Option<&'static str>, src: Src }

const PROVIDER: &str = r#"(component
    (core module $m (func (export "f")))
    (core instance $ci (instantiate $m))
    (func $f (canon lift (core func $ci "f")))
    (instance $i (export "x" (func $f)) (export "y" (func $f)))
    (instance $z (export "p" (func $f)) (export "q" (func $f)))
    (export "f" (func $f))
    (export "g" (func $f))
    (export "i" (instance $i))
    (export "a:b/c@0.2.1" (instance $i))
    (export "x:y/z@1.2.0" (instance $z)))"#;

const PKGS: &[PkgDesc] = &[
    // 0..3: the C06 universe
    PkgDesc { name: "test:a", version: None, src: Src::Wat(r#"(component
        (import "f" (func))
        (import "i" (instance (export "x" (func))))
        (alias export 0 "x" (func))
        (instance (export "h" (func 0)) (export "x" (func 1)))
        (export "g" (func 0))
        (export "inst" (instance 1)))"#) },
    PkgDesc { name: "test:b", version: Some("1.0.0"), src: Src::Wat(r#"(component
        (import "f" (func))
        (export "g" (func 0)))"#) },
    PkgDesc { name: "test:b", version: Some("2.0.0"), src: Src::Wat(r#"(component
        (import "g" (func (param "a" u32)))
        (import "f" (func))
        (export "f" (func 1)))"#) },
    PkgDesc { name: "test:c", version: None, src: Src::Wat(r#"(component
        (import "i" (instance (export "x" (func)) (export "y" (func))))
        (export "i" (instance 0)))"#) },
    // 4..7: versioned interface-style import names on same / different semver tracks
    PkgDesc { name: "test:d", version: None, src: Src::Wat(r#"(component
        (import "a:b/c@0.2.0" (instance (export "x" (func))))
        (alias export 0 "x" (func))
        (export "run" (func 0)))"#) },
    PkgDesc { name: "test:e", version: Some("0.1.0"), src: Src::Wat(r#"(component
        (import "a:b/c@0.2.1" (instance (export "x" (func)) (export "y" (func))))
        (import "f" (func))
        (export "a:b/c@0.2.1" (instance 0))
        (export "run" (func 0)))"#) },
    PkgDesc { name: "test:f", version: None, src: Src::Wat(r#"(component
        (import "a:b/c@0.3.0" (instance (export "x" (func))))
        (import "x:y/z@1.0.0" (instance (export "p" (func))))
        (alias export 1 "p" (func))
        (export "run" (func 0)))"#) },
    PkgDesc { name: "test:g", version: None, src: Src::Wat(r#"(component
        (import "x:y/z@1.2.0" (instance (export "p" (func)) (export "q" (func))))
        (import "a:b/c@0.2.5" (instance (export "y" (func))))
        (export "x:y/z@1.2.0" (instance 0)))"#) },
    // 8: provider without imports
    PkgDesc { name: "test:h", version: Some("3.1.4"), src: Src::Wat(PROVIDER) },
    // 9..11: WIT-derived, `use`-dependent interfaces
    PkgDesc { name: "u:consumer", version: Some("1.0.0"), src: Src::Wit(r#"package u:s@1.0.0;
        interface types { record r { a: u32 } }
        interface api { use types.{r}; get: func() -> r; }
        world w { import api; export run: func(); }"#) },
    PkgDesc { name: "u:producer", version: None, src: Src::Wit(r#"package u:s@1.0.0;
        interface types { record r { a: u32 } }
        interface api { use types.{r}; get: func() -> r; }
        world w { import types; export api; }"#) },
    PkgDesc { name: "u:consumer2", version: None, src: Src::Wit(r#"package u:s@1.1.0;
        interface types { record r { a: u32 } enum k { one, two } }
        interface api { use types.{r}; get: func() -> r; put: func(v: r); }
        world w { import api; import types; export run: func(); }"#) },
    // 12..18: v:w/i on tracks 1 / 12 / none
    PkgDesc { name: "test:v115", version: None, src: Src::Wat(r#"(component
        (import "v:w/i@1.1.5" (instance (export "x" (func)) (export "y" (func))))
        (alias export 0 "x" (func))
        (export "run" (func 0)))"#) },
    PkgDesc { name: "test:v120", version: None, src: Src::Wat(r#"(component
        (import "v:w/i@1.2.0" (instance (export "x" (func))))
        (alias export 0 "x" (func))
        (export "run" (func 0)))"#) },
    PkgDesc { name: "test:v1100", version: None, src: Src::Wat(r#"(component
        (import "v:w/i@1.10.0" (instance (export "x" (func))))
        (alias export 0 "x" (func))
        (export "g" (func 0)))"#) },
    PkgDesc { name: "test:v1201", version: None, src: Src::Wat(r#"(component
        (import "v:w/i@12.0.1" (instance (export "x" (func))))
        (alias export 0 "x" (func))
        (export "f" (func 0)))"#) },
    PkgDesc { name: "test:v140", version: Some("2.0.0"), src: Src::Wat(r#"(component
        (import "v:w/i@1.4.0" (instance (export "x" (func)) (export "y" (func))))
        (import "f" (func))
        (export "run" (func 0)))"#) },
    PkgDesc { name: "test:vpre", version: None, src: Src::Wat(r#"(component
        (import "v:w/i@1.3.0-rc.1" (instance (export "x" (func))))
        (alias export 0 "x" (func))
        (export "h" (func 0)))"#) },
    PkgDesc { name: "test:vbuild", version: None, src: Src::Wat(r#"(component
        (import "v:w/i@1.2.0+b5" (instance (export "y" (func))))
        (alias export 0 "y" (func))
        (export "y" (func 0)))"#) },
    // 19..22: p:q/r on tracks 0.2 / 0.21 / 0.3
    PkgDesc { name: "test:z020", version: None, src: Src::Wat(r#"(component
        (import "p:q/r@0.2.0" (instance (export "p" (func))))
        (alias export 0 "p" (func))
        (export "run" (func 0)))"#) },
    PkgDesc { name: "test:z0210", version: None, src: Src::Wat(r#"(component
        (import "p:q/r@0.21.0" (instance (export "p" (func))))
        (alias export 0 "p" (func))
        (export "g" (func 0)))"#) },
    PkgDesc { name: "test:z0210b", version: Some("0.2.10"), src: Src::Wat(r#"(component
        (import "p:q/r@0.2.10" (instance (export "p" (func)) (export "q" (func))))
        (alias export 0 "q" (func))
        (export "q" (func 0)))"#) },
    PkgDesc { name: "test:z030", version: None, src: Src::Wat(r#"(component
        (import "p:q/r@0.3.0" (instance (export "p" (func))))
        (import "f" (func))
        (export "f" (func 0)))"#) },
];

fn wit_component_bytes(wit: &str) -> Vec<u8> {
    let mut resolve = wit_parser::Resolve::default();
    let id = resolve.push_str("c02.wit", wit).expect("wit");
    let world = resolve.select_world(&[id], None).expect("world");
    let mut module = wit_component::dummy_module(&resolve, world, wit_parser::ManglingAndAbi::Legacy(wit_parser::LiftLowerAbi::Sync));
    wit_component::embed_component_metadata(&mut module, &resolve, world, wit_component::StringEncoding::default()).expect("metadata");
    wit_component::ComponentEncoder::default().validate(true).module(&module).expect("module").encode().expect("encode")
}

fn all_pkg_bytes() -> Vec<Vec<u8>> {
    PKGS.iter().map(|p| match p.src { Src::Wat(w) => wat::parse_str(w).expect("wat"), Src::Wit(w) => wit_component_bytes(w) }).collect()
}

struct Local { defs: Vec<Type>, kinds: Vec<ItemKind>, pkgs: Vec<Option<Package>> }

/// which (package, import name) kinds are additionally importable as explicit imports (they carry interface ids)
const PKG_KINDS: &[(usize, &str)] = &[(4, "a:b/c@0.2.0"), (5, "a:b/c@0.2.1"), (6, "x:y/z@1.0.0"), (9, "u:s/api@1.0.0"), (10, "u:s/types@1.0.0")];

fn mk_graph(bytes: &[Vec<u8>]) -> (CompositionGraph, Local) {
    let mut g = CompositionGraph::new();
    let t = g.types_mut();
    let t0 = t.add_defined_type(DefinedType::Alias(ValueType::Primitive(PrimitiveType::U32)));
    let t1 = t.add_defined_type(DefinedType::List(ValueType::Defined(t0)));
    let t2 = t.add_defined_type(DefinedType::Tuple(vec![ValueType::Defined(t0), ValueType::Defined(t1)]));
    let t3 = t.add_defined_type(DefinedType::Option(ValueType::Defined(t0)));
    let t4 = t.add_defined_type(DefinedType::Alias(ValueType::Defined(t0)));
    let f0 = t.add_func_type(FuncType { params: Default::default(), result: None, is_async: false });
    let mut p = indexmap::IndexMap::new();
    p.insert("a".to_string(), ValueType::Primitive(PrimitiveType::U32));
    let f1 = t.add_func_type(FuncType { params: p, result: None, is_async: false });
    let mut e0 = indexmap::IndexMap::new();
    e0.insert("x".to_string(), ItemKind::Func(f0));
    let if0 = t.add_interface(Interface { id: None, uses: Default::default(), exports: e0.clone() });
    e0.insert("y".to_string(), ItemKind::Func(f0));
    let if1 = t.add_interface(Interface { id: None, uses: Default::default(), exports: e0 });
    let mut e2 = indexmap::IndexMap::new();
    e2.insert("p".to_string(), ItemKind::Func(f0));
    e2.insert("q".to_string(), ItemKind::Func(f0));
    let if2 = t.add_interface(Interface { id: None, uses: Default::default(), exports: e2 });
    let d = |id| Type::Value(ValueType::Defined(id));
    let defs = vec![d(t0), d(t1), d(t2), d(t3), d(t4), Type::Func(f0)];
    let mut kinds = vec![ItemKind::Func(f0), ItemKind::Func(f1), ItemKind::Instance(if0), ItemKind::Instance(if1),
                         ItemKind::Instance(if2), ItemKind::Type(d(t0))];
    let mut pkgs = Vec::new();
    for (i, pd) in PKGS.iter().enumerate() {
        let v = pd.version.map(|v| semver::Version::parse(v).unwrap());
        pkgs.push(Some(Package::from_bytes(pd.name, v.as_ref(), bytes[i].clone(), g.types_mut()).expect("package")));
    }
    for (p, n) in PKG_KINDS {
        let w = pkgs[*p].as_ref().unwrap().ty();
        kinds.push(*g.types()[w].imports.get(*n).expect("pkg kind"));
    }
    (g, Local { defs, kinds, pkgs })
}

/// structural, arena-free rendering of an item kind; interfaces carry their id (it matters to the encoder)
fn canon(types: &Types, k: ItemKind) -> String {
    fn vt(types: &Types, v: ValueType) -> String {
        match v {
            ValueType::Primitive(p) => format!("{p:?}"),
            ValueType::Borrow(_) => "borrow".into(),
            ValueType::Own(_) => "own".into(),
            ValueType::Defined(id) => match &types[id] {
                DefinedType::Alias(a) => format!("alias({})", vt(types, *a)),
                DefinedType::List(a) => format!("list({})", vt(types, *a)),
                DefinedType::Option(a) => format!("option({})", vt(types, *a)),
                DefinedType::Tuple(ts) => format!("tuple({})", ts.iter().map(|t| vt(types, *t)).collect::<Vec<_>>().join(",")),
                DefinedType::Record(r) => format!("record({})", r.fields.iter().map(|(n, t)| format!("{n}:{}", vt(types, *t))).collect::<Vec<_>>().join(",")),
                DefinedType::Enum(e) => format!("enum({})", e.0.iter().cloned().collect::<Vec<_>>().join(",")),
                DefinedType::Flags(e) => format!("flags({})", e.0.iter().cloned().collect::<Vec<_>>().join(",")),
                DefinedType::Variant(v) => format!("variant({})", v.cases.iter().map(|(n, t)| format!("{n}:{}", t.map(|t| vt(types, t)).unwrap_or_default())).collect::<Vec<_>>().join(",")),
                DefinedType::Result { ok, err } => format!("result({},{})", ok.map(|t| vt(types, t)).unwrap_or_default(), err.map(|t| vt(types, t)).unwrap_or_default()),
                _ => "other-defined".into(),
            },
        }
    }
    fn ty(types: &Types, t: Type) -> String {
        match t {
            Type::Resource(_) => "resource".into(),
            Type::Func(id) => {
                let f = &types[id];
                format!("func({}){}{}", f.params.iter().map(|(n, t)| format!("{n}:{}", vt(types, *t))).collect::<Vec<_>>().join(","),
                    f.result.map(|r| format!("->{}", vt(types, r))).unwrap_or_default(), if f.is_async { "async" } else { "" })
            }
            Type::Value(v) => vt(types, v),
            Type::Interface(id) => format!("[{}]{{{}}}", types[id].id.clone().unwrap_or_default(),
                types[id].exports.iter().map(|(n, k)| format!("{n}={}", canon(types, *k))).collect::<Vec<_>>().join(";")),
            Type::World(id) => format!("world<{}|{}>", types[id].imports.iter().map(|(n, k)| format!("{n}={}", canon(types, *k))).collect::<Vec<_>>().join(";"),
                types[id].exports.iter().map(|(n, k)| format!("{n}={}", canon(types, *k))).collect::<Vec<_>>().join(";")),
            Type::Module(_) => "module".into(),
        }
    }
    match k {
        ItemKind::Type(t) => format!("type:{}", ty(types, t)),
        ItemKind::Func(id) => format!("func:{}", ty(types, Type::Func(id))),
        ItemKind::Instance(id) => format!("instance:{}", ty(types, Type::Interface(id))),
        ItemKind::Component(id) => format!("component:{}", ty(types, Type::World(id))),
        ItemKind::Module(_) => "module".into(),
        ItemKind::Value(v) => format!("value:{}", vt(types, v)),
    }
}

struct Universe { kinds: Vec<String>, kid: HashMap<String, usize>, header: Vec<String>, bytes: Vec<Vec<u8>>,
                  /// per package: (import name index, kind id)
                  pkg_imports: Vec<Vec<(usize, usize)>>, inst_exports: HashMap<usize, Vec<(usize, usize)>>, class: Vec<&'static str> }

fn nidx(n: &str) -> usize { NAMES.iter().position(|x| *x == n).unwrap_or_else(|| panic!("name {n} not in pool")) }

fn build_universe() -> Universe {
    let bytes = all_pkg_bytes();
    let (g, local) = mk_graph(&bytes);
    let mut reps: Vec<ItemKind> = Vec::new();
    let mut kinds: Vec<String> = Vec::new();
    let mut kid: HashMap<String, usize> = HashMap::new();
    let mut header = Vec::new();
    fn intern(types: &Types, k: ItemKind, reps: &mut Vec<ItemKind>, kinds: &mut Vec<String>, kid: &mut HashMap<String, usize>) -> usize {
        let s = canon(types, k);
        if let Some(i) = kid.get(&s) { return *i; }
        let i = kinds.len(); kinds.push(s.clone()); kid.insert(s, i); reps.push(k);
        if let ItemKind::Instance(id) = k {
            for (_, e) in types[id].exports.clone() { intern(types, e, reps, kinds, kid); }
        }
        i
    }
    for k in &local.kinds { intern(g.types(), *k, &mut reps, &mut kinds, &mut kid); }
    for d in &local.defs { intern(g.types(), ItemKind::Type(*d), &mut reps, &mut kinds, &mut kid); }
    let mut pk = Vec::new();
    let mut pkg_imports = Vec::new();
    for i in 0..PKGS.len() {
        let p = local.pkgs[i].as_ref().unwrap();
        let w = g.types()[p.ty()].clone();
        let inst = intern(g.types(), ItemKind::Instance(p.instance_type()), &mut reps, &mut kinds, &mut kid);
        let imps: Vec<(usize, usize)> = w.imports.iter().map(|(n, k)| (nidx(n), intern(g.types(), *k, &mut reps, &mut kinds, &mut kid))).collect();
        pk.push(format!("U pkg {i} inst={inst} imports={}", imps.iter().map(|(a, b)| format!("{a}={b}")).collect::<Vec<_>>().join(",")));
        pk.push(format!("U pkgname {i} {} {}", enc(PKGS[i].name), PKGS[i].version.map(enc).unwrap_or("-".into())));
        pkg_imports.push(imps);
    }
    let mut inst_exports = HashMap::new();
    let mut class = Vec::new();
    for (i, k) in reps.iter().enumerate() {
        let c = match k { ItemKind::Type(_) => "type", ItemKind::Func(_) => "func", ItemKind::Instance(_) => "instance",
            ItemKind::Component(_) => "component", ItemKind::Module(_) => "module", ItemKind::Value(_) => "value" };
        class.push(c);
        let ex = if let ItemKind::Instance(id) = k {
            let v: Vec<(usize, usize)> = g.types()[*id].exports.iter().map(|(n, e)| (nidx(n), kid[&canon(g.types(), *e)])).collect();
            let s = v.iter().map(|(a, b)| format!("{a}={b}")).collect::<Vec<_>>().join(",");
            inst_exports.insert(i, v);
            if let Some(iid) = &g.types()[*id].id { header.push(format!("U iid {i} {}", enc(iid))); }
            s
        } else { String::new() };
        header.push(format!("U kind {i} {c} {ex}"));
    }
    header.extend(pk);
    for (i, d) in local.defs.iter().enumerate() {
        let mut deps = Vec::new();
        let _ = d.visit_defined_types::<()>(g.types(), &mut |_, id| {
            let t = Type::Value(ValueType::Defined(id));
            if let Some(j) = local.defs.iter().position(|x| *x == t) { deps.push(j.to_string()); } else { deps.push("99".into()); }
            Ok(())
        });
        header.push(format!("U ty {i} res={} kind={} deps={}", matches!(d, Type::Resource(_)) as u8,
            kid[&canon(g.types(), ItemKind::Type(*d))], deps.join(",")));
    }
    for (i, k) in local.kinds.iter().enumerate() { header.push(format!("U lk {i} {}", kid[&canon(g.types(), *k)])); }
    let mut subs = Vec::new();
    for (a, ka) in reps.iter().enumerate() { for (b, kb) in reps.iter().enumerate() {
        let mut cache = Default::default();
        let mut c = SubtypeChecker::new(&mut cache);
        if c.is_subtype(*ka, g.types(), *kb, g.types()).is_ok() { subs.push(format!("{a}<{b}")); }
    }}
    header.push(format!("U sub {}", subs.join(",")));
    let mut nv = Vec::new();
    for (i, n) in NAMES.iter().enumerate() {
        let (mut g2, l2) = mk_graph(&bytes);
        let imp_ok = !matches!(g2.import(*n, l2.kinds[0]), Err(wac_graph::ImportError::InvalidImportName { .. }));
        let (mut g3, l3) = mk_graph(&bytes);
        let nd = g3.import("zz", l3.kinds[0]).unwrap();
        let exp_ok = g3.export(nd, *n).is_ok();
        nv.push(format!("{i}:{}{}", imp_ok as u8, exp_ok as u8));
        header.push(format!("U name {i} {}", enc(n)));
    }
    header.push(format!("U names {}", nv.join(",")));
    Universe { kinds, kid, header, bytes, pkg_imports, inst_exports, class }
}

// ------------------------------------------------------------------ concrete operations (c06 syntax)

#[derive(Clone, Debug, PartialEq)]
enum Op { Reg(usize), Unreg(usize, usize), Def(usize, usize), Imp(usize, usize), Inst(usize, usize), Alias(usize, usize),
    SetArg(usize, usize, usize), UnsetArg(usize, usize, usize), Export(usize, usize), Unexport(usize), Name(usize, usize), Rm(usize) }

fn show_op(o: &Op) -> String {
    match o {
        Op::Reg(p) => format!("reg {p}"), Op::Unreg(i, g) => format!("unreg {i} {g}"), Op::Def(n, t) => format!("def {n} {t}"),
        Op::Imp(n, k) => format!("imp {n} {k}"), Op::Inst(i, g) => format!("inst {i} {g}"), Op::Alias(n, e) => format!("alias {n} {e}"),
        Op::SetArg(i, a, n) => format!("setarg {i} {a} {n}"), Op::UnsetArg(i, a, n) => format!("unsetarg {i} {a} {n}"),
        Op::Export(n, e) => format!("export {n} {e}"), Op::Unexport(n) => format!("unexport {n}"), Op::Name(n, s) => format!("name {n} {s}"),
        Op::Rm(n) => format!("rm {n}"),
    }
}
fn parse_op(s: &str) -> Option<Op> {
    let f: Vec<&str> = s.split(' ').collect();
    let n = |i: usize| f[i].parse::<usize>().unwrap();
    Some(match f[0] {
        "reg" => Op::Reg(n(1)), "unreg" => Op::Unreg(n(1), n(2)), "def" => Op::Def(n(1), n(2)), "imp" => Op::Imp(n(1), n(2)),
        "inst" => Op::Inst(n(1), n(2)), "alias" => Op::Alias(n(1), n(2)), "setarg" => Op::SetArg(n(1), n(2), n(3)),
        "unsetarg" => Op::UnsetArg(n(1), n(2), n(3)), "export" => Op::Export(n(1), n(2)), "unexport" => Op::Unexport(n(1)),
        "name" => Op::Name(n(1), n(2)), "rm" => Op::Rm(n(1)), "enc" => return None, _ => panic!("bad op {s}"),
    })
}

/// `pkgs`: every package id ever handed out (stale ones too: using one is the caller's error and panics in the library);
/// `pkg_of`: the universe package behind each live id
struct Run { g: CompositionGraph, local: Local, pkgs: BTreeMap<(usize, usize), PackageId>, pkg_of: BTreeMap<(usize, usize), usize>, dead: bool }

static PKG_BYTES: std::sync::OnceLock<Vec<Vec<u8>>> = std::sync::OnceLock::new();

fn pid_pair(p: PackageId) -> (usize, usize) {
    let s = format!("{p:?}");
    let nums: Vec<usize> = s.split(|c: char| !c.is_ascii_digit()).filter(|x| !x.is_empty()).map(|x| x.parse().unwrap()).collect();
    (nums[0], nums[1])
}
thread_local! { static LAST_PANIC_AT: std::cell::RefCell<String> = const { std::cell::RefCell::new(String::new()) }; }
/// message of a caught panic, prefixed by the source location the panic hook recorded (`@file:line `)
fn panic_msg(e: Box<dyn std::any::Any + Send>) -> String {
    let msg = e.downcast_ref::<String>().cloned().or_else(|| e.downcast_ref::<&str>().map(|s| s.to_string())).unwrap_or_default();
    let at = LAST_PANIC_AT.with(|c| c.borrow().clone());
    format!("@{at} {}", msg.chars().take(400).collect::<String>()).replace([';', '|', '\n', '\t'], " ")
}
fn argerr(e: &wac_graph::InstantiationArgumentError) -> &'static str {
    use wac_graph::InstantiationArgumentError::*;
    match e { NodeIsNotAnInstantiation { .. } => "NodeIsNotAnInstantiation", InvalidArgumentName { .. } => "InvalidArgumentName",
        ArgumentTypeMismatch { .. } => "ArgumentTypeMismatch", ArgumentAlreadyPassed { .. } => "ArgumentAlreadyPassed" }
}

impl Run {
    fn new(u: &Universe) -> Self {
        PKG_BYTES.get_or_init(|| u.bytes.clone());
        let (g, local) = mk_graph(&u.bytes); Run { g, local, pkgs: BTreeMap::new(), pkg_of: BTreeMap::new(), dead: false }
    }
    fn node(&self, n: usize) -> Option<NodeId> { self.g.node_ids().find(|i| i.to_string() == n.to_string()) }

    fn apply(&mut self, op: &Op) -> String {
        match catch_unwind(AssertUnwindSafe(|| self.apply_inner(op))) {
            Ok(s) => s, Err(e) => { self.dead = true; format!("PANIC({})", panic_msg(e)) } }
    }
    fn apply_inner(&mut self, op: &Op) -> String {
        use wac_graph::*;
        let nid = |s: &Self, n: usize| s.node(n).unwrap_or_else(|| panic!("harness: dead node id {n}"));
        match op {
            Op::Reg(p) => {
                // a package object is consumed by registration; after an unregistration it is decoded again
                let pk = match self.local.pkgs[*p].take() { Some(pk) => pk, None => {
                    let v = PKGS[*p].version.map(|v| semver::Version::parse(v).unwrap());
                    Package::from_bytes(PKGS[*p].name, v.as_ref(), PKG_BYTES.get().unwrap()[*p].clone(), self.g.types_mut()).expect("package") } };
                match self.g.register_package(pk) {
                    Ok(id) => { let pr = pid_pair(id); self.pkgs.insert(pr, id); self.pkg_of.insert(pr, *p); format!("pkg{}.{}", pr.0, pr.1) }
                    Err(RegisterPackageError::PackageAlreadyRegistered { .. }) => "E:PackageAlreadyRegistered".into() } }
            Op::Unreg(i, gen) => { let id = self.pkgs[&(*i, *gen)]; self.g.unregister_package(id); self.pkg_of.remove(&(*i, *gen)); "ok".into() }
            Op::Def(n, t) => match self.g.define_type(NAMES[*n], self.local.defs[*t]) {
                Ok(id) => format!("n{id}"),
                Err(DefineTypeError::TypeAlreadyDefined) => "E:TypeAlreadyDefined".into(),
                Err(DefineTypeError::CannotDefineResource) => "E:CannotDefineResource".into(),
                Err(DefineTypeError::ExportConflict { .. }) => "E:ExportConflict".into(),
                Err(DefineTypeError::InvalidExternName { .. }) => "E:InvalidExternName".into() },
            Op::Imp(n, k) => match self.g.import(NAMES[*n], self.local.kinds[*k]) {
                Ok(id) => format!("n{id}"),
                Err(ImportError::ImportAlreadyExists { node, .. }) => format!("E:ImportAlreadyExists({node})"),
                Err(ImportError::InvalidImportName { .. }) => "E:InvalidImportName".into() },
            Op::Inst(i, gen) => { let id = self.pkgs[&(*i, *gen)]; format!("n{}", self.g.instantiate(id)) }
            Op::Alias(n, e) => match self.g.alias_instance_export(nid(self, *n), NAMES[*e]) {
                Ok(id) => format!("n{id}"),
                Err(AliasError::NodeIsNotAnInstance { .. }) => "E:NodeIsNotAnInstance".into(),
                Err(AliasError::InstanceMissingExport { .. }) => "E:InstanceMissingExport".into() },
            Op::SetArg(i, a, n) => match self.g.set_instantiation_argument(nid(self, *i), NAMES[*a], nid(self, *n)) {
                Ok(()) => "ok".into(), Err(e) => format!("E:{}", argerr(&e)) },
            Op::UnsetArg(i, a, n) => match self.g.unset_instantiation_argument(nid(self, *i), NAMES[*a], nid(self, *n)) {
                Ok(()) => "ok".into(), Err(e) => format!("E:{}", argerr(&e)) },
            Op::Export(n, e) => match self.g.export(nid(self, *n), NAMES[*e]) {
                Ok(()) => "ok".into(),
                Err(ExportError::ExportAlreadyExists { node, .. }) => format!("E:ExportAlreadyExists({node})"),
                Err(ExportError::InvalidExportName { .. }) => "E:InvalidExportName".into() },
            Op::Unexport(n) => match self.g.unexport(nid(self, *n)) { Ok(()) => "ok".into(), Err(UnexportError::MustExportDefinition) => "E:MustExportDefinition".into() },
            Op::Name(n, s) => { self.g.set_node_name(nid(self, *n), NAMES[*s]); "ok".into() }
            Op::Rm(n) => { self.g.remove_node(nid(self, *n)); "ok".into() }
        }
    }

    /// final state through the public queries only (same layout as the C06 dump, sections N A L I E P)
    fn dump(&self, u: &Universe) -> String {
        catch_unwind(AssertUnwindSafe(|| self.dump_inner(u))).unwrap_or_else(|_| "DUMP-PANIC".into())
    }
    fn kid(&self, u: &Universe, k: ItemKind) -> String {
        let s = canon(self.g.types(), k); u.kid.get(&s).map(|i| i.to_string()).unwrap_or_else(|| format!("?{s}"))
    }
    fn dump_inner(&self, u: &Universe) -> String {
        let g = &self.g;
        let opt_name = |s: Option<&str>| s.map(|x| nidx(x).to_string()).unwrap_or("-".into());
        let mut o = String::new();
        o.push_str("N[");
        for id in g.node_ids() {
            let n = &g[id];
            let tag = match n.kind() { NodeKind::Definition => "D", NodeKind::Import(_) => "I", NodeKind::Instantiation(_) => "S", NodeKind::Alias => "A" };
            let pk = n.package().map(|p| { let (a, b) = pid_pair(p); format!("{a}.{b}") }).unwrap_or("-".into());
            write!(o, "{id}:{tag}:{pk}:{}:{}:{}:{},", self.kid(u, n.item_kind()), opt_name(n.export_name()), opt_name(n.name()), opt_name(n.import_name())).unwrap();
        }
        o.push_str("]A[");
        for id in g.node_ids() {
            let args: Vec<String> = g.get_instantiation_arguments(id).map(|(n, s)| format!("{}={s}", nidx(n))).collect();
            if !args.is_empty() { write!(o, "{id}:({}),", args.join(",")).unwrap(); }
        }
        o.push_str("]L[");
        for id in g.node_ids() {
            if let Some((s, e)) = g.get_alias_source(id) { write!(o, "{id}:{s}.{},", nidx(e)).unwrap(); }
        }
        o.push_str("]I[");
        for (n, k, nd) in g.imports() { write!(o, "({},{},{}),", nidx(n), self.kid(u, k), nd.map(|x| x.to_string()).unwrap_or("-".into())).unwrap(); }
        o.push_str("]E[");
        for (i, n) in NAMES.iter().enumerate() { if let Some(x) = g.get_export(n) { write!(o, "{i}={x},").unwrap(); } }
        o.push_str("]P[");
        for (i, p) in PKGS.iter().enumerate() {
            let v = p.version.map(|v| semver::Version::parse(v).unwrap());
            if let Some((id, _)) = g.get_package_by_name(p.name, v.as_ref()) { let (a, b) = pid_pair(id); write!(o, "{i}={a}.{b},").unwrap(); }
        }
        o.push(']');
        o
    }
}

// ------------------------------------------------------------------ the independent section reader

fn sort_of(k: wasmparser::ComponentExternalKind) -> &'static str {
    use wasmparser::ComponentExternalKind::*;
    match k { Module => "module", Func => "func", Value => "value", Type => "type", Instance => "instance", Component => "component" }
}
fn core_sort(k: wasmparser::ExternalKind) -> &'static str {
    use wasmparser::ExternalKind::*;
    match k { Func | FuncExact => "cfunc", Table => "ctable", Memory => "cmemory", Global => "cglobal", Tag => "ctag" }
}

#[derive(Default)]
struct Reading { log: Vec<String>, names: Vec<String>, imports: Vec<String>, bad: Vec<String> }

/// Reads the OUTERMOST component at payload level. Nested components and modules are opaque byte ranges.
fn read_component(bytes: &[u8], u: &Universe) -> Reading {
    use wasmparser::{Parser, Payload};
    let mut r = Reading::default();
    let mut depth = 0usize;
    // type index space, only to report the export names of imported instance types
    let mut tyinfo: Vec<Option<Vec<String>>> = Vec::new();
    let digest = |range: std::ops::Range<usize>| -> String {
        let body = bytes.get(range.clone()).unwrap_or(&[]);
        match u.bytes.iter().position(|b| b.as_slice() == body) { Some(i) => i.to_string(), None => format!("{}", 1000 + body.len()) }
    };
    for payload in Parser::new(0).parse_all(bytes) {
        let payload = match payload { Ok(p) => p, Err(e) => { r.bad.push(format!("parse error: {e}")); break; } };
        if depth > 0 {
            match payload {
                Payload::ModuleSection { .. } | Payload::ComponentSection { .. } => depth += 1,
                Payload::End(_) => depth -= 1,
                _ => {}
            }
            continue;
        }
        match payload {
            Payload::Version { encoding, .. } => { if encoding != wasmparser::Encoding::Component { r.bad.push("not a component".into()); } }
            Payload::ComponentImportSection(s) => for i in s {
                let i = match i { Ok(i) => i, Err(e) => { r.bad.push(e.to_string()); break; } };
                let sort = sort_of(i.ty.kind());
                let detail = match i.ty {
                    wasmparser::ComponentTypeRef::Instance(t) => match tyinfo.get(t as usize) {
                        Some(Some(ex)) => ex.iter().map(|x| enc(x)).collect::<Vec<_>>().join("+"),
                        _ => "?".into() },
                    _ => "".into() };
                if sort == "type" { tyinfo.push(None); }
                r.log.push(format!("M|{}|{sort}", enc(i.name.0)));
                r.imports.push(format!("{}|{sort}|{detail}", enc(i.name.0)));
            },
            Payload::ComponentTypeSection(s) => for t in s {
                match t {
                    Ok(wasmparser::ComponentType::Instance(decls)) => {
                        let mut ex = Vec::new();
                        for d in decls.iter() { if let wasmparser::InstanceTypeDeclaration::Export { name, .. } = d { ex.push(name.0.to_string()); } }
                        tyinfo.push(Some(ex));
                    }
                    Ok(_) => tyinfo.push(None),
                    Err(e) => { r.bad.push(e.to_string()); break; }
                }
                r.log.push("T".into());
            },
            Payload::CoreTypeSection(s) => for t in s { if let Err(e) = t { r.bad.push(e.to_string()); break; } r.log.push("CT".into()); },
            Payload::ComponentSection { unchecked_range, .. } => { r.log.push(format!("C|{}", digest(unchecked_range))); depth += 1; }
            Payload::ModuleSection { .. } => { r.log.push("O|module".into()); depth += 1; }
            Payload::ComponentInstanceSection(s) => for i in s {
                match i {
                    Ok(wasmparser::ComponentInstance::Instantiate { component_index, args }) => {
                        let a: Vec<String> = args.iter().map(|a| format!("{}~{}~{}", enc(a.name), sort_of(a.kind), a.index)).collect();
                        r.log.push(format!("N|{component_index}|{}", a.join("+")));
                    }
                    Ok(wasmparser::ComponentInstance::FromExports(ex)) => {
                        let a: Vec<String> = ex.iter().map(|a| format!("{}~{}~{}", enc(a.name.0), sort_of(a.kind), a.index)).collect();
                        r.log.push(format!("B|{}", a.join("+")));
                    }
                    Err(e) => { r.bad.push(e.to_string()); break; }
                }
            },
            Payload::InstanceSection(s) => for i in s { if let Err(e) = i { r.bad.push(e.to_string()); break; } r.log.push("O|cinstance".into()); },
            Payload::ComponentAliasSection(s) => for a in s {
                match a {
                    Ok(wasmparser::ComponentAlias::InstanceExport { kind, instance_index, name }) => {
                        if sort_of(kind) == "type" { tyinfo.push(None); }
                        r.log.push(format!("A|{instance_index}|{}|{}", sort_of(kind), enc(name)));
                    }
                    Ok(wasmparser::ComponentAlias::CoreInstanceExport { kind, .. }) => r.log.push(format!("O|{}", core_sort(kind))),
                    Ok(wasmparser::ComponentAlias::Outer { kind, .. }) => {
                        use wasmparser::ComponentOuterAliasKind::*;
                        let s = match kind { CoreModule => "module", CoreType => "ctype", Type => { tyinfo.push(None); "type" }, Component => "component" };
                        r.log.push(format!("O|{s}"));
                    }
                    Err(e) => { r.bad.push(e.to_string()); break; }
                }
            },
            Payload::ComponentCanonicalSection(s) => for c in s {
                match c {
                    Ok(wasmparser::CanonicalFunction::Lift { .. }) => r.log.push("O|func".into()),
                    Ok(_) => r.log.push("O|cfunc".into()),
                    Err(e) => { r.bad.push(e.to_string()); break; }
                }
            },
            Payload::ComponentStartSection { .. } => r.bad.push("start section (not interpreted)".into()),
            Payload::ComponentExportSection(s) => for e in s {
                match e {
                    Ok(e) => { if sort_of(e.kind) == "type" { tyinfo.push(None); }
                        r.log.push(format!("X|{}|{}|{}", enc(e.name.0), sort_of(e.kind), e.index)); }
                    Err(e) => { r.bad.push(e.to_string()); break; }
                }
            },
            Payload::CustomSection(c) => {
                if c.name() == "component-name" {
                    let rd = wasmparser::ComponentNameSectionReader::new(wasmparser::BinaryReader::new(c.data(), c.data_offset()));
                    for sub in rd {
                        use wasmparser::ComponentName::*;
                        let (sort, map) = match sub {
                            Ok(Types(m)) => ("type", m), Ok(Instances(m)) => ("instance", m), Ok(Components(m)) => ("component", m),
                            Ok(Funcs(m)) => ("func", m), Ok(Values(m)) => ("value", m), Ok(CoreModules(m)) => ("module", m),
                            Ok(Component { name, .. }) => { r.names.push(format!("self|0|{}", enc(name))); continue; }
                            Ok(_) => { r.bad.push("unexpected name subsection".into()); continue; }
                            Err(e) => { r.bad.push(e.to_string()); break; }
                        };
                        for n in map { match n { Ok(n) => r.names.push(format!("{sort}|{}|{}", n.index, enc(n.name))), Err(e) => { r.bad.push(e.to_string()); break; } } }
                    }
                }
            }
            Payload::End(_) => {}
            other => r.bad.push(format!("unexpected top-level payload {:?}", std::mem::discriminant(&other))),
        }
    }
    r
}

fn validate_independently(bytes: &[u8]) -> String {
    match catch_unwind(|| wasmparser::Validator::new_with_features(wasmparser::WasmFeatures::all()).validate_all(bytes).map(|_| ())) {
        Ok(Ok(())) => "ok".into(),
        Ok(Err(e)) => format!("invalid({})", e.to_string().replace(['\t', '\n', ';', '|'], " ")),
        Err(e) => format!("validator-panic({})", panic_msg(e)),
    }
}

fn encode_once(g: &CompositionGraph, define: bool, validate: bool) -> (String, Option<Vec<u8>>) {
    let r = catch_unwind(AssertUnwindSafe(|| g.encode(EncodeOptions { define_components: define, validate, processor: None })));
    match r {
        Ok(Ok(b)) => ("ok".into(), Some(b)),
        Ok(Err(EncodeError::ValidationFailure { source })) => (format!("E:ValidationFailure({})", source.to_string().replace(['\t', '\n', ';', '|'], " ")), None),
        Ok(Err(EncodeError::GraphContainsCycle { node })) => (format!("E:GraphContainsCycle({node})"), None),
        Ok(Err(EncodeError::ImplicitImportConflict { import, instantiation, name, .. })) => (format!("E:ImplicitImportConflict({import},{instantiation},{})", enc(&name)), None),
        Ok(Err(EncodeError::ImportTypeMergeConflict { import, first, second, .. })) => (format!("E:ImportTypeMergeConflict({},{first},{second})", enc(&import)), None),
        Err(e) => (format!("PANIC({})", panic_msg(e)), None),
    }
}

/// everything observed about one composition
fn observe(u: &Universe, ops: &[Op], grp: &str) -> String {
    let mut run = Run::new(u);
    let mut res = Vec::new();
    for o in ops { if run.dead { res.push("SKIPPED".to_string()); continue; } res.push(run.apply(o)); }
    let mut f = vec![format!("grp={grp}"), format!("res={}", res.join(";"))];
    if run.dead { f.push("dead=1".into()); return f.join("\t"); }
    f.push(format!("dump={}", run.dump(u)));
    let api: Vec<String> = catch_unwind(AssertUnwindSafe(|| run.g.imports().map(|(n, k, nd)| format!("{}|{}|{}|{}", enc(n), u.class[run.kid(u, k).parse::<usize>().unwrap_or(0)], run.kid(u, k), nd.map(|x| x.to_string()).unwrap_or("-".into()))).collect())).unwrap_or_else(|_| vec!["PANIC".into()]);
    f.push(format!("api={}", api.join(";")));
    for (m, define) in [("D", true), ("I", false)] {
        let (r1, b1) = encode_once(&run.g, define, true);
        let (r0, b0) = encode_once(&run.g, define, false);
        f.push(format!("{m}.enc1={r1}")); f.push(format!("{m}.enc0={r0}"));
        f.push(format!("{m}.same={}", match (&b1, &b0) { (Some(a), Some(b)) => (a == b) as u8, _ => 2 }));
        if let Some(b) = b0.as_ref().or(b1.as_ref()) {
            f.push(format!("{m}.valid={}", validate_independently(b)));
            let rd = catch_unwind(AssertUnwindSafe(|| read_component(b, u))).unwrap_or_else(|e| Reading { bad: vec![format!("reader-panic({})", panic_msg(e))], ..Default::default() });
            f.push(format!("{m}.log={}", rd.log.join(";")));
            f.push(format!("{m}.names={}", rd.names.join(";")));
            f.push(format!("{m}.imp={}", rd.imports.join(";")));
            f.push(format!("{m}.bad={}", rd.bad.join(";").replace('\t', " ")));
            if std::env::var("C02_WAT").is_ok() { eprintln!("--- {m} ---\n{}", wasmprinter::print_bytes(b).unwrap_or_default()); }
        }
    }
    f.join("\t")
}

// ------------------------------------------------------------------ abstract compositions and their linearisations

/// abstract operation over symbolic handles (node handle = index in creation order of the base linearisation)
#[derive(Clone, Debug)]
enum AOp { Reg(usize), Def(usize, usize), Imp(usize, usize), Inst(usize /*pkg*/), Alias(usize /*src handle*/, usize),
    SetArg(usize, usize, usize), Export(usize, usize), Name(usize, usize) }

impl AOp {
    fn creates(&self) -> bool { matches!(self, AOp::Def(..) | AOp::Imp(..) | AOp::Inst(..) | AOp::Alias(..)) }
    fn uses(&self) -> Vec<usize> {
        match self { AOp::Alias(s, _) => vec![*s], AOp::SetArg(i, _, n) => vec![*i, *n], AOp::Export(n, _) | AOp::Name(n, _) => vec![*n], _ => vec![] }
    }
}

/// turn abstract ops (in the given order) into concrete ops; `handle_of[i]` = handle created by abstract op i
fn concretise(aops: &[AOp], order: &[usize], handle_of: &[Option<usize>]) -> Vec<Op> {
    let mut node_id: HashMap<usize, usize> = HashMap::new();   // handle -> concrete node id
    let mut pkg_slot: HashMap<usize, usize> = HashMap::new();  // universe package -> slot
    let mut next_node = 0; let mut next_pkg = 0;
    let mut out = Vec::new();
    for &i in order {
        let a = &aops[i];
        let o = match a {
            AOp::Reg(p) => { pkg_slot.insert(*p, next_pkg); next_pkg += 1; Op::Reg(*p) }
            AOp::Def(n, t) => Op::Def(*n, *t),
            AOp::Imp(n, k) => Op::Imp(*n, *k),
            AOp::Inst(p) => Op::Inst(pkg_slot[p], 0),
            AOp::Alias(s, e) => Op::Alias(node_id[s], *e),
            AOp::SetArg(i, a, n) => Op::SetArg(node_id[i], *a, node_id[n]),
            AOp::Export(n, e) => Op::Export(node_id[n], *e),
            AOp::Name(n, s) => Op::Name(node_id[n], *s),
        };
        if a.creates() { node_id.insert(handle_of[i].unwrap(), next_node); next_node += 1; }
        out.push(o);
    }
    out
}

/// a random linearisation that respects: creators before users, `reg` before `inst`, and the relative order of
/// Export/Name/SetArg operations among themselves (they are not node creations)
fn permute(aops: &[AOp], handle_of: &[Option<usize>], r: &mut Rng) -> Vec<usize> {
    let n = aops.len();
    let creator: HashMap<usize, usize> = handle_of.iter().enumerate().filter_map(|(i, h)| h.map(|h| (h, i))).collect();
    let mut deps: Vec<Vec<usize>> = vec![Vec::new(); n];
    let mut last_action: Option<usize> = None;
    for (i, a) in aops.iter().enumerate() {
        for h in a.uses() { deps[i].push(creator[&h]); }
        if let AOp::Inst(p) = a { deps[i].push(aops.iter().position(|x| matches!(x, AOp::Reg(q) if q == p)).unwrap()); }
        if !a.creates() && !matches!(a, AOp::Reg(_)) { if let Some(l) = last_action { deps[i].push(l); } last_action = Some(i); }
    }
    let mut done = vec![false; n]; let mut order = Vec::new();
    while order.len() < n {
        let ready: Vec<usize> = (0..n).filter(|&i| !done[i] && deps[i].iter().all(|&d| done[d])).collect();
        let i = *r.pick(&ready); done[i] = true; order.push(i);
    }
    order
}

struct Gen<'a> { u: &'a Universe, run: Run, aops: Vec<AOp>, handle_of: Vec<Option<usize>>,
    /// per handle: (kind id, tag, package universe index)
    nodes: Vec<(usize, char, Option<usize>)>, regs: Vec<usize>, handle_node: Vec<usize> }

impl<'a> Gen<'a> {
    fn new(u: &'a Universe) -> Self { Gen { u, run: Run::new(u), aops: vec![], handle_of: vec![], nodes: vec![], regs: vec![], handle_node: vec![] } }
    fn slot(&self, p: usize) -> usize { self.regs.iter().position(|x| *x == p).unwrap() }
    /// the instantiation an alias chain starts from (None for imports / definitions / aliases of imports)
    fn root(&self, h: usize) -> Option<usize> {
        match self.nodes[h].1 { 'S' => Some(h), 'A' => self.aops.iter().zip(&self.handle_of).find_map(|(a, c)| match (a, c) {
            (AOp::Alias(s, _), Some(x)) if *x == h => Some(self.root(*s)), _ => None }).flatten(), _ => None }
    }
    /// try an abstract op on the real graph; record it only when accepted
    fn try_op(&mut self, a: AOp) -> bool {
        let h = self.nodes.len();
        let c = match &a {
            AOp::Reg(p) => Op::Reg(*p), AOp::Def(n, t) => Op::Def(*n, *t), AOp::Imp(n, k) => Op::Imp(*n, *k),
            AOp::Inst(p) => Op::Inst(self.slot(*p), 0), AOp::Alias(s, e) => Op::Alias(self.handle_node[*s], *e),
            AOp::SetArg(i, x, n) => Op::SetArg(self.handle_node[*i], *x, self.handle_node[*n]),
            AOp::Export(n, e) => Op::Export(self.handle_node[*n], *e), AOp::Name(n, s) => Op::Name(self.handle_node[*n], *s) };
        let res = self.run.apply(&c);
        if self.run.dead { return false; }
        if res.starts_with("E:") { return false; }
        let mut created = None;
        if a.creates() {
            let id: usize = res[1..].parse().unwrap();
            if self.handle_node.contains(&id) { return false; }   // alias de-duplicated to an existing node
            let nid = self.run.node(id).unwrap();
            let nd = &self.run.g[nid];
            let kid: usize = self.run.kid(self.u, nd.item_kind()).parse().unwrap();
            let tag = match nd.kind() { NodeKind::Definition => 'D', NodeKind::Import(_) => 'I', NodeKind::Instantiation(_) => 'S', NodeKind::Alias => 'A' };
            let pk = match &a { AOp::Inst(p) => Some(*p), _ => None };
            self.nodes.push((kid, tag, pk)); self.handle_node.push(id); created = Some(h);
        }
        if let AOp::Reg(p) = &a { self.regs.push(*p); }
        self.aops.push(a); self.handle_of.push(created);
        true
    }
}

const EXPORT_NAMES: &[usize] = &[0, 1, 2, 3, 4, 6, 7, 8, 9, 11, 14, 19, 22];
const NODE_NAMES: &[usize] = &[23, 24, 25, 6, 3];

/// package families so that arguments can be wired between instances
const FAMILIES: &[&[usize]] = &[&[0, 1, 2, 3, 8], &[4, 5, 6, 7, 8], &[9, 10, 11], &[0, 3, 4, 5, 8], &[1, 2, 6, 7, 8, 5], &[4, 5, 7, 9, 10, 11],
    &[12, 13, 14, 15, 16, 17, 18], &[19, 20, 21, 22], &[12, 13, 16, 19, 20, 21], &[13, 12, 14, 4, 5, 8], &[15, 13, 20, 19, 22, 18]];

/// name and local kind of a random explicit import (see the comment in `gen_composition` on the excluded shape)
fn pick_import(r: &mut Rng) -> (usize, usize) {
    let k = r.below(6 + PKG_KINDS.len() as u64) as usize;
    let n = if k >= 6 {
        let own = nidx(PKG_KINDS[k - 6].1);
        let mut c = vec![own, own, own, own, own, 17, 29];
        if k == 6 || k == 7 { c.extend([10usize, 11, 28]); }
        if k == 8 { c.push(14); }
        *r.pick(&c)
    } else if r.chance(1, 3) { *r.pick(&[17usize, 0, 1, 2, 29]) } else { *r.pick(&[0usize, 1, 2, 10, 11, 12, 13, 14, 17, 28, 34, 35, 36, 38, 41, 42, 43]) };
    (n, k)
}

/// An adaptive CONCRETE history with removals: build, then remove nodes / unregister packages / unexport / unset
/// arguments, then build on (new nodes and packages reuse the freed identifiers), possibly twice; nodes are often
/// exported under several names before they disappear. Every operation is chosen from identifiers live in the
/// implementation and kept only if accepted. No creation-order permutations for these.
fn gen_destructive(u: &Universe, r: &mut Rng, big: bool) -> Vec<Op> {
    struct N { id: usize, tag: char, kid: usize, pkg: Option<usize>, exported: bool }
    fn nodes(run: &Run, u: &Universe) -> Vec<N> {
        run.g.node_ids().map(|id| { let nd = &run.g[id];
            let tag = match nd.kind() { NodeKind::Definition => 'D', NodeKind::Import(_) => 'I', NodeKind::Instantiation(_) => 'S', NodeKind::Alias => 'A' };
            N { id: id.to_string().parse().unwrap(), tag, kid: run.kid(u, nd.item_kind()).parse().unwrap_or(0),
                pkg: nd.package().and_then(|p| run.pkg_of.get(&pid_pair(p)).copied()), exported: nd.export_name().is_some() } }).collect()
    }
    fn root(run: &Run, mut id: NodeId) -> NodeId { while let Some((s, _)) = run.g.get_alias_source(id) { id = s; } id }
    let mut run = Run::new(u);
    let mut ops: Vec<Op> = Vec::new();
    let fam = *r.pick(FAMILIES);
    // returns true when the operation was accepted
    let doit = |run: &mut Run, ops: &mut Vec<Op>, o: Op| -> bool {
        if run.dead { return false; }
        let res = run.apply(&o);
        if run.dead { ops.push(o); return false; }
        if res.starts_with("E:") { return false; }
        ops.push(o); true
    };
    for _ in 0..(2 + r.below(2)) { let p = *r.pick(fam); if !run.pkg_of.values().any(|q| *q == p) { doit(&mut run, &mut ops, Op::Reg(p)); } }
    let rounds = 1 + r.below(2) as usize;
    for round in 0..=rounds {
        let steps = if big { 10 + r.below(16) } else { 6 + r.below(10) } as usize;
        for _ in 0..steps {
            if run.dead { return ops; }
            let ns = nodes(&run, u);
            let live: Vec<((usize, usize), usize)> = run.pkg_of.iter().map(|(k, v)| (*k, *v)).collect();
            let insts: Vec<&N> = ns.iter().filter(|n| n.tag == 'S').collect();
            let c = r.below(100);
            if c < 8 || live.is_empty() { let p = *r.pick(fam); if !live.iter().any(|(_, q)| *q == p) { doit(&mut run, &mut ops, Op::Reg(p)); } }
            else if c < 26 || (insts.is_empty() && c < 60) { let (k, _) = *r.pick(&live); doit(&mut run, &mut ops, Op::Inst(k.0, k.1)); }
            else if c < 32 { doit(&mut run, &mut ops, Op::Def(*r.pick(&[6usize, 7, 22, 26, 27, 20]), r.below(6) as usize)); }
            else if c < 40 { let (n, k) = pick_import(r); doit(&mut run, &mut ops, Op::Imp(n, k)); }
            else if c < 54 {
                let il: Vec<&N> = ns.iter().filter(|n| u.inst_exports.get(&n.kid).map(|e| !e.is_empty()).unwrap_or(false)).collect();
                if !il.is_empty() { let s = *r.pick(&il); let e = r.pick(&u.inst_exports[&s.kid]).0; doit(&mut run, &mut ops, Op::Alias(s.id, e)); }
            }
            else if c < 74 && !insts.is_empty() {
                let i = *r.pick(&insts);
                let Some(p) = i.pkg else { continue };
                let imps = &u.pkg_imports[p];
                if imps.is_empty() { continue; }
                let (an, _) = *r.pick(imps);
                let iid = run.node(i.id).unwrap();
                let mut cands: Vec<usize> = ns.iter().filter(|n| n.id != i.id && root(&run, run.node(n.id).unwrap()) != iid).map(|n| n.id).collect();
                for _ in 0..6 { if cands.is_empty() { break; } let j = r.below(cands.len() as u64) as usize; let n = cands.swap_remove(j);
                    if doit(&mut run, &mut ops, Op::SetArg(i.id, an, n)) { break; } }
            }
            else if c < 94 && !ns.is_empty() {
                // often a second (third) name for a node that is exported already
                let ex: Vec<&N> = ns.iter().filter(|n| n.exported && n.tag != 'D').collect();
                let n = if !ex.is_empty() && r.chance(1, 2) { *r.pick(&ex) } else { r.pick(&ns) };
                if n.tag != 'D' || r.chance(1, 8) { doit(&mut run, &mut ops, Op::Export(n.id, *r.pick(EXPORT_NAMES))); }
            }
            else if !ns.is_empty() { let n = r.pick(&ns); doit(&mut run, &mut ops, Op::Name(n.id, *r.pick(NODE_NAMES))); }
        }
        if round == rounds { break; }
        for _ in 0..(1 + r.below(3)) {
            if run.dead { return ops; }
            let ns = nodes(&run, u);
            let live: Vec<(usize, usize)> = run.pkg_of.keys().copied().collect();
            let c = r.below(100);
            if c < 35 && !live.is_empty() { let k = *r.pick(&live); doit(&mut run, &mut ops, Op::Unreg(k.0, k.1)); }
            else if c < 65 && !ns.is_empty() {
                // prefer nodes that carry exports or have dependants
                let ex: Vec<&N> = ns.iter().filter(|n| n.exported || n.tag == 'S').collect();
                let n = if !ex.is_empty() && r.chance(2, 3) { *r.pick(&ex) } else { r.pick(&ns) };
                doit(&mut run, &mut ops, Op::Rm(n.id));
            }
            else if c < 80 && !ns.is_empty() {
                let ex: Vec<&N> = ns.iter().filter(|n| n.exported).collect();
                let n = if !ex.is_empty() { *r.pick(&ex) } else { r.pick(&ns) };
                doit(&mut run, &mut ops, Op::Unexport(n.id));
            }
            else {
                let mut args: Vec<(usize, usize, usize)> = Vec::new();
                for n in ns.iter().filter(|n| n.tag == 'S') {
                    let id = run.node(n.id).unwrap();
                    for (nm, src) in run.g.get_instantiation_arguments(id) { args.push((n.id, nidx(nm), src.to_string().parse().unwrap())); }
                }
                if !args.is_empty() { let (i, a, s) = *r.pick(&args); doit(&mut run, &mut ops, Op::UnsetArg(i, a, s)); }
            }
        }
    }
    ops
}

fn gen_composition(u: &Universe, r: &mut Rng, big: bool) -> (Vec<AOp>, Vec<Option<usize>>) {
    let mut g = Gen::new(u);
    let fam = *r.pick(FAMILIES);
    let npk = 2 + r.below(fam.len() as u64 - 1) as usize;
    let mut chosen: Vec<usize> = Vec::new();
    while chosen.len() < npk { let p = *r.pick(fam); if !chosen.contains(&p) { chosen.push(p); } }
    for p in &chosen { g.try_op(AOp::Reg(*p)); }
    let steps = if big { 14 + r.below(28) } else { 8 + r.below(18) } as usize;
    for step in 0..steps {
        if g.run.dead { break; }
        let c = r.below(100);
        let insts: Vec<usize> = (0..g.nodes.len()).filter(|h| g.nodes[*h].1 == 'S').collect();
        let instance_like: Vec<usize> = (0..g.nodes.len()).filter(|h| u.inst_exports.contains_key(&g.nodes[*h].0)).collect();
        if c < 22 || (insts.is_empty() && c < 60) { let p = *r.pick(&chosen); g.try_op(AOp::Inst(p)); }
        else if c < 30 { g.try_op(AOp::Def(*r.pick(&[6usize, 7, 22, 26, 27, 20]), r.below(6) as usize)); }
        else if c < 40 {
            let k = r.below(6 + PKG_KINDS.len() as u64) as usize;
            let n = if k >= 6 {
                // kinds that carry an interface id: under their own name, an unversioned name, or (for a:b/c) another
                // version on the same track. Versioned names on the track of a DIFFERENT interface are excluded: merging
                // an interface with one that `use`s it sends TypeEncoder::import_deps into unbounded recursion
                // (stack overflow, reported under C01; witness `imp 10 10;imp 28 9`), which would kill this process.
                let own = nidx(PKG_KINDS[k - 6].1);
                let mut c = vec![own, own, own, own, own, 17, 29];
                if k == 6 || k == 7 { c.extend([10usize, 11, 28]); }
                if k == 8 { c.push(14); }
                *r.pick(&c)
            } else if r.chance(1, 3) { *r.pick(&[17usize, 0, 1, 2, 29]) } else { *r.pick(&[0usize, 1, 2, 10, 11, 12, 13, 14, 17, 28, 34, 35, 36, 38, 41, 42, 43]) };
            g.try_op(AOp::Imp(n, k));
        }
        else if c < 58 && !instance_like.is_empty() {
            let s = *r.pick(&instance_like);
            let ex = &u.inst_exports[&g.nodes[s].0];
            if !ex.is_empty() { let e = r.pick(ex).0; g.try_op(AOp::Alias(s, e)); }
        }
        else if c < 84 && !insts.is_empty() {
            // wire an argument: pick an instantiation and one of its imports, then a type-compatible source
            let i = *r.pick(&insts);
            let imps = &u.pkg_imports[g.nodes[i].2.unwrap()];
            if imps.is_empty() { continue; }
            let (an, ak) = *r.pick(imps);
            let _ = ak;
            // acyclic by construction (sources rooted in an earlier instantiation), except for a few deliberate wild picks
            let wild = r.chance(1, 25);
            let mut cands: Vec<usize> = (0..g.nodes.len()).filter(|h| *h != i && (wild || g.root(*h).map(|x| x < i).unwrap_or(true))).collect();
            // try a few random candidates; the real subtype check decides
            for _ in 0..6 { if cands.is_empty() { break; } let j = r.below(cands.len() as u64) as usize; let n = cands.swap_remove(j);
                if g.try_op(AOp::SetArg(i, an, n)) { break; } }
        }
        else if c < 94 && !g.nodes.is_empty() {
            let n = r.below(g.nodes.len() as u64) as usize;
            // a definition under an additional name is a known finding: keep it rare so that most cases are checked strictly
            if g.nodes[n].1 != 'D' || r.chance(1, 8) { g.try_op(AOp::Export(n, *r.pick(EXPORT_NAMES))); }
        }
        else if !g.nodes.is_empty() {
            let n = r.below(g.nodes.len() as u64) as usize;
            g.try_op(AOp::Name(n, *r.pick(NODE_NAMES)));
        }
        let _ = step;
    }
    // usually wire explicit imports to the arguments of the same name (otherwise: ImplicitImportConflict)
    if r.chance(5, 6) {
        let imps: Vec<(usize, usize)> = g.aops.iter().zip(&g.handle_of).filter_map(|(a, c)| match (a, c) { (AOp::Imp(n, _), Some(h)) => Some((*n, *h)), _ => None }).collect();
        let insts: Vec<usize> = (0..g.nodes.len()).filter(|h| g.nodes[*h].1 == 'S').collect();
        for i in insts { for (an, _) in u.pkg_imports[g.nodes[i].2.unwrap()].clone() {
            if let Some((_, h)) = imps.iter().find(|(n, _)| *n == an) { if !g.run.dead { g.try_op(AOp::SetArg(i, an, *h)); } } } }
    }
    (g.aops, g.handle_of)
}

fn main() {
    let args: Vec<String> = std::env::args().collect();
    let tier = args[1].as_str();
    let seed: u64 = args[2].parse().unwrap();
    let trace = std::env::var("C02_TRACE").is_ok();
    std::panic::set_hook(Box::new(move |info| {
        let at = info.location().map(|l| format!("{}:{}", l.file(), l.line())).unwrap_or_default();
        if trace { eprintln!("panic at {at}"); }
        LAST_PANIC_AT.with(|c| *c.borrow_mut() = at);
    }));
    let u = build_universe();
    let mut co = std::io::BufWriter::new(std::fs::File::create(&args[3]).unwrap());
    let mut io = std::io::BufWriter::new(std::fs::File::create(&args[4]).unwrap());
    for h in &u.header { writeln!(co, "{h}").unwrap(); writeln!(io, "{h}").unwrap(); }
    for (i, k) in u.kinds.iter().enumerate() { writeln!(co, "U kindtext {i} {k}").unwrap(); writeln!(io, "U kindtext {i} {k}").unwrap(); }
    let mut emit = |ops: &[Op], grp: &str| {
        writeln!(co, "H {}", ops.iter().map(show_op).collect::<Vec<_>>().join(";")).unwrap();
        if std::env::var("C02_FLUSH").is_ok() { co.flush().unwrap(); }
        writeln!(io, "{}", observe(&u, ops, grp)).unwrap();
    };
    if let Some(replay) = args.get(5) {
        let mut k = 0;
        for line in std::fs::read_to_string(replay).unwrap().lines() {
            if let Some(h) = line.strip_prefix("H ") {
                let ops: Vec<Op> = h.split(';').filter(|s| !s.is_empty()).filter_map(parse_op).collect();
                emit(&ops, &format!("r{k}.0")); k += 1;
            }
        }
        return;
    }
    let mut r = Rng::new(seed);
    let (ncomp, nperm) = if tier == "thorough" { (4000, 4) } else { (300, 3) };
    for c in 0..ncomp {
        if c % 4 == 3 {
            // every fourth composition: a history with removals and re-creation (identifier reuse) before the encode
            let ops = gen_destructive(&u, &mut r, tier == "thorough" && c % 3 == 0);
            emit(&ops, &format!("d{c}.0"));
            continue;
        }
        let (aops, handle_of) = gen_composition(&u, &mut r, tier == "thorough" && c % 3 == 0);
        let base: Vec<usize> = (0..aops.len()).collect();
        emit(&concretise(&aops, &base, &handle_of), &format!("g{c}.0"));
        let mut seen = vec![base];
        for p in 1..=nperm {
            let ord = permute(&aops, &handle_of, &mut r);
            if seen.contains(&ord) { continue; }
            emit(&concretise(&aops, &ord, &handle_of), &format!("g{c}.{p}"));
            seen.push(ord);
        }
    }
}
