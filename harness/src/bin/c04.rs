//! C04 correspondence: generated package libraries (WAT components) and generated WAC programs over them, each with
//! one single-fault ill-formed variant; the real `Document::parse` + `resolve(packages)` + `encode`.
//! usage: c04 <quick|thorough> <seed> <cases_out> <impl_out> [replay_cases_in]
//!
//! cases file, per library block: `U reset`, `U wat ...` (library sources, for replay), universe lines (`U name`,
//! `U kind`, `U pkg`, `U func`, `U sub`, `U names`, `U kindtext`), then one `P <tag> <fault> <src>` line per program.
//! impl file: the same number of lines; for a `P` line `OK|<dump>|<encode>` or `E:<Variant>:<span start>:<name>`.
use std::collections::{BTreeSet, HashMap};
use std::fmt::Write as _;
use std::io::Write;
use std::panic::{catch_unwind, AssertUnwindSafe};
use wac_graph::{types::*, CompositionGraph, EncodeOptions, NodeKind, PackageId};
use wac_parser::resolution::Error as RErr;
use wacv::{enc, Rng};

// ------------------------------------------------------------------ kinds and names of the generators

#[derive(Clone, PartialEq, Debug)]
enum GK { F(usize), I(Vec<(String, GK)>) }

/// (wat fragment, wac text, key used by the model's `func_sig`)
const SIGS: [(&str, &str, &str); 4] = [
    ("", "func()", ""),
    ("(param \"a\" u32)", "func(a: u32)", "a:u32,"),
    ("(result u32)", "func() -> u32", ">u32"),
    ("(param \"a\" u32) (result u32)", "func(a: u32) -> u32", "a:u32,>u32"),
];

fn inst(v: &[(&str, GK)]) -> GK { GK::I(v.iter().map(|(n, k)| (n.to_string(), k.clone())).collect()) }

const IFACES: &[&str] = &["foo:bar/baz", "foo:bar/qux", "foo:bar/baz@1.0.0", "foo:bar/baz@2.0.0", "other:lib/baz",
    "wasi:io/streams@0.2.0", "x:y/f", "foo:bar/deep", "foo:bar/streams"];
const PLAIN: &[&str] = &["f", "g", "h", "run", "x", "y", "baz", "streams", "get-x"];

fn shape(name: &str) -> GK {
    use GK::F;
    match name {
        "foo:bar/baz" => inst(&[("f", F(0)), ("g", F(1))]),
        "foo:bar/qux" => inst(&[("run", F(0))]),
        "foo:bar/baz@1.0.0" => inst(&[("f", F(0))]),
        "foo:bar/baz@2.0.0" => inst(&[("f", F(2))]),
        "other:lib/baz" => inst(&[("h", F(0))]),
        "wasi:io/streams@0.2.0" => inst(&[("read", F(2)), ("write", F(1))]),
        "x:y/f" => inst(&[("f", F(0))]),
        "foo:bar/deep" => inst(&[("inner", inst(&[("f", F(0))])), ("g", F(1))]),
        "foo:bar/streams" => inst(&[("read", F(2))]),
        "f" | "h" | "run" => F(0),
        "g" => F(1),
        "y" | "get-x" => F(2),
        "x" => inst(&[("f", F(0))]),
        "baz" => inst(&[("f", F(0)), ("g", F(1))]),
        "streams" => inst(&[("read", F(2)), ("write", F(1))]),
        _ => F(0),
    }
}

/// the generator's approximation of the subtype check: same signature / at least the wanted exports
fn fits(have: &GK, want: &GK) -> bool {
    match (have, want) {
        (GK::F(a), GK::F(b)) => a == b,
        (GK::I(h), GK::I(w)) => w.iter().all(|(n, k)| h.iter().any(|(m, j)| m == n && fits(j, k))),
        _ => false,
    }
}

fn last_seg(n: &str) -> Option<&str> {
    let i = n.rfind('/')?;
    let t = &n[i + 1..];
    Some(match t.find('@') { Some(j) => &t[..j], None => t })
}

// ------------------------------------------------------------------ libraries

#[derive(Clone)]
struct Pkg { name: String, version: Option<String>, wat: String, bytes: Vec<u8>, wit: bool, imports: Vec<(String, GK)>, exports: Vec<(String, GK)> }

impl Pkg {
    fn key(&self) -> String { match &self.version { Some(v) => format!("{}@{v}", self.name), None => self.name.clone() } }
}

fn wat_type(k: &GK, ctr: &mut usize) -> String {
    match k {
        GK::F(s) => format!("(func {})", SIGS[*s].0),
        GK::I(ex) => {
            let mut decls = String::new();
            for (n, e) in ex {
                match e {
                    GK::F(s) => write!(decls, " (export \"{n}\" (func {}))", SIGS[*s].0).unwrap(),
                    GK::I(_) => {
                        let t = wat_type(e, ctr);
                        *ctr += 1;
                        let id = *ctr;
                        write!(decls, " (type $t{id} {t}) (export \"{n}\" (instance (type $t{id})))").unwrap();
                    }
                }
            }
            format!("(instance{decls})")
        }
    }
}

/// a definition inside the component providing a value of kind `k`; returns the item reference
fn wat_value(k: &GK, defs: &mut String, ctr: &mut usize) -> String {
    match k {
        GK::F(s) => format!("(func $f{s})"),
        GK::I(ex) => {
            let items: Vec<String> = ex.iter().map(|(n, e)| format!("(export \"{n}\" {})", wat_value(e, defs, ctr))).collect();
            *ctr += 1;
            let id = *ctr;
            writeln!(defs, "  (instance $e{id} {})", items.join(" ")).unwrap();
            format!("(instance $e{id})")
        }
    }
}

fn component_wat(imports: &[(String, GK)], exports: &[(String, GK)]) -> String {
    let mut ctr = 0usize;
    let mut s = String::from("(component\n");
    for (n, k) in imports {
        let t = wat_type(k, &mut ctr);
        match k {
            GK::F(_) => writeln!(s, "  (import \"{n}\" {t})").unwrap(),
            GK::I(_) => { ctr += 1; writeln!(s, "  (type $t{ctr} {t})\n  (import \"{n}\" (instance (type $t{ctr})))").unwrap() }
        }
    }
    s.push_str("  (core module $m (func (export \"f0\")) (func (export \"f1\") (param i32)) (func (export \"f2\") (result i32) i32.const 0) (func (export \"f3\") (param i32) (result i32) local.get 0))\n");
    s.push_str("  (core instance $i (instantiate $m))\n");
    for (i, (w, _, _)) in SIGS.iter().enumerate() { writeln!(s, "  (func $f{i} {w} (canon lift (core func $i \"f{i}\")))").unwrap(); }
    let mut defs = String::new();
    let mut exps = String::new();
    for (n, k) in exports {
        let v = wat_value(k, &mut defs, &mut ctr);
        writeln!(exps, "  (export \"{n}\" {v})").unwrap();
    }
    s.push_str(&defs); s.push_str(&exps); s.push_str(")\n");
    s
}

/// a WIT-package-shaped component: one exported component type per interface
fn wit_wat(pkg: &str, version: Option<&str>, ifaces: &[(&str, GK)]) -> String {
    let mut ctr = 0usize;
    let mut s = String::from("(component\n");
    for (i, (n, k)) in ifaces.iter().enumerate() {
        let full = match version { Some(v) => format!("{pkg}/{n}@{v}"), None => format!("{pkg}/{n}") };
        let t = wat_type(k, &mut ctr);
        writeln!(s, "  (type $p{i} (component (type $i {t}) (export \"{full}\" (instance (type $i)))))\n  (export \"{n}\" (type $p{i}))").unwrap();
    }
    s.push_str(")\n");
    s
}

fn mk_pkg(name: &str, version: Option<&str>, wat: String, wit: bool, imports: Vec<(String, GK)>, exports: Vec<(String, GK)>) -> Pkg {
    let bytes = wat::parse_str(&wat).unwrap_or_else(|e| panic!("harness: wat of {name}: {e}\n{wat}"));
    Pkg { name: name.into(), version: version.map(|v| v.into()), wat, bytes, wit, imports, exports }
}

fn variant_of(k: &GK, r: &mut Rng) -> GK {
    match k {
        GK::F(s) => GK::F((*s + 1 + r.below(3) as usize) % 4),
        GK::I(ex) => {
            let mut ex = ex.clone();
            if ex.len() > 1 && r.chance(1, 2) { ex.pop(); } else { ex.push(("zz".into(), GK::F(0))); }
            GK::I(ex)
        }
    }
}

fn pick_names(r: &mut Rng, n: usize) -> Vec<String> {
    let mut out: Vec<String> = Vec::new();
    let mut guard = 0;
    while out.len() < n && guard < 50 {
        guard += 1;
        let c = if r.chance(3, 5) { *r.pick(IFACES) } else { *r.pick(PLAIN) };
        if !out.iter().any(|x| x == c) { out.push(c.to_string()); }
    }
    out
}

fn gen_library(r: &mut Rng) -> Vec<Pkg> {
    let mut v = Vec::new();
    let wit = |p: &str, ver: Option<&str>, ifs: &[&str]| {
        let ifaces: Vec<(&str, GK)> = ifs.iter().map(|n| {
            let full = match ver { Some(x) => format!("{p}/{n}@{x}"), None => format!("{p}/{n}") };
            (*n, shape(&full))
        }).collect();
        let exports = ifaces.iter().map(|(n, k)| (n.to_string(), k.clone())).collect();
        mk_pkg(p, ver, wit_wat(p, ver, &ifaces), true, vec![], exports)
    };
    v.push(wit("foo:bar", None, &["baz", "qux", "streams"]));
    v.push(wit("foo:bar", Some("1.0.0"), &["baz"]));
    v.push(wit("foo:bar", Some("2.0.0"), &["baz"]));
    v.push(wit("other:lib", None, &["baz"]));
    v.push(wit("wasi:io", Some("0.2.0"), &["streams"]));
    v.push(wit("x:y", None, &["f"]));
    let comp = |name: &str, ver: Option<&str>, imps: Vec<(String, GK)>, exps: Vec<(String, GK)>| {
        let w = component_wat(&imps, &exps);
        mk_pkg(name, ver, w, false, imps, exps)
    };
    let d = |n: &str| (n.to_string(), shape(n));
    v.push(comp("test:amb", None, vec![d("foo:bar/baz"), d("other:lib/baz"), d("f")], vec![d("run"), d("foo:bar/qux")]));
    v.push(comp("test:exact", None, vec![d("f"), d("x:y/f"), d("baz"), d("foo:bar/baz")], vec![d("g"), d("x")]));
    v.push(comp("test:ver", Some("1.0.0"), vec![d("foo:bar/baz@1.0.0")], vec![d("f")]));
    v.push(comp("test:ver", Some("2.0.0"), vec![d("foo:bar/baz@2.0.0"), d("g")], vec![d("y")]));
    v.push(comp("test:prov", None, vec![], vec![d("f"), d("g"), d("foo:bar/baz"), d("wasi:io/streams@0.2.0"), d("x"), d("foo:bar/deep"), d("other:lib/baz")]));
    v.push(comp("test:both", None, vec![], vec![d("f"), d("x:y/f"), d("baz"), d("foo:bar/baz")]));
    v.push(comp("test:sink", None, vec![d("f"), d("g"), d("foo:bar/baz"), d("wasi:io/streams@0.2.0"), d("x")], vec![d("run")]));
    let nrand = if r.0 == u64::MAX { 0 } else { 6 + r.below(3) as usize };
    for i in 0..nrand {
        let ni = r.below(5) as usize;
        let ne = 1 + r.below(4) as usize;
        let imps: Vec<(String, GK)> = pick_names(r, ni).into_iter().map(|n| { let k = shape(&n); let k = if r.chance(1, 6) { variant_of(&k, r) } else { k }; (n, k) }).collect();
        let exps: Vec<(String, GK)> = pick_names(r, ne).into_iter().map(|n| { let k = shape(&n); let k = if r.chance(1, 8) { variant_of(&k, r) } else { k }; (n, k) }).collect();
        v.push(comp(&format!("test:c{i}"), None, imps, exps));
    }
    v
}

// ------------------------------------------------------------------ universe

/// structural, arena-free rendering of an item kind INCLUDING interface/world ids (the resolver reads them)
fn canon(types: &Types, k: ItemKind) -> String {
    fn vt(types: &Types, v: ValueType) -> String {
        match v {
            ValueType::Primitive(p) => format!("{p:?}"),
            ValueType::Borrow(_) => "borrow".into(),
            ValueType::Own(_) => "own".into(),
            ValueType::Defined(id) => format!("{:?}", types[id]),
        }
    }
    fn ifc(types: &Types, id: InterfaceId) -> String {
        let i = &types[id];
        format!("[{}]{{{}}}", i.id.as_deref().unwrap_or(""), i.exports.iter().map(|(n, k)| format!("{n}={}", canon(types, *k))).collect::<Vec<_>>().join(";"))
    }
    fn wld(types: &Types, id: WorldId) -> String {
        let w = &types[id];
        format!("[{}]<{}|{}>", w.id.as_deref().unwrap_or(""),
            w.imports.iter().map(|(n, k)| format!("{n}={}", canon(types, *k))).collect::<Vec<_>>().join(";"),
            w.exports.iter().map(|(n, k)| format!("{n}={}", canon(types, *k))).collect::<Vec<_>>().join(";"))
    }
    fn func(types: &Types, id: FuncTypeId) -> String {
        let f = &types[id];
        format!("({}){}{}", f.params.iter().map(|(n, t)| format!("{n}:{}", vt(types, *t))).collect::<Vec<_>>().join(","),
            f.result.map(|r| format!("->{}", vt(types, r))).unwrap_or_default(), if f.is_async { "async" } else { "" })
    }
    match k {
        ItemKind::Type(Type::Resource(_)) => "type:resource".into(),
        ItemKind::Type(Type::Func(id)) => format!("type:func{}", func(types, id)),
        ItemKind::Type(Type::Value(v)) => format!("type:{}", vt(types, v)),
        ItemKind::Type(Type::Interface(id)) => format!("type:iface{}", ifc(types, id)),
        ItemKind::Type(Type::World(id)) => format!("type:world{}", wld(types, id)),
        ItemKind::Type(Type::Module(_)) => "type:module".into(),
        ItemKind::Func(id) => format!("func{}", func(types, id)),
        ItemKind::Instance(id) => format!("instance{}", ifc(types, id)),
        ItemKind::Component(id) => format!("component{}", wld(types, id)),
        ItemKind::Module(_) => "module".into(),
        ItemKind::Value(v) => format!("value:{}", vt(types, v)),
    }
}

struct Universe { kid: HashMap<String, usize>, names: Vec<String>, nidx: HashMap<String, usize>, header: Vec<String> }

impl Universe {
    fn name_idx(&self, n: &str) -> String { self.nidx.get(n).map(|i| i.to_string()).unwrap_or_else(|| format!("?{}", n.replace([',', '|', ':', '=', '(', ')', '[', ']', ' '], "_"))) }
}

fn version_of(p: &Pkg) -> Option<semver::Version> { p.version.as_ref().map(|v| semver::Version::parse(v).unwrap()) }

fn build_universe(lib: &[Pkg], extra_names: &BTreeSet<String>) -> Universe {
    let mut g = CompositionGraph::new();
    let mut reps: Vec<ItemKind> = Vec::new();
    let mut kinds: Vec<String> = Vec::new();
    let mut kid: HashMap<String, usize> = HashMap::new();
    fn exports_of(types: &Types, k: ItemKind) -> Option<Vec<(String, ItemKind)>> {
        match k {
            ItemKind::Instance(id) | ItemKind::Type(Type::Interface(id)) => Some(types[id].exports.iter().map(|(n, k)| (n.clone(), *k)).collect()),
            ItemKind::Component(id) | ItemKind::Type(Type::World(id)) => Some(types[id].exports.iter().map(|(n, k)| (n.clone(), *k)).collect()),
            _ => None,
        }
    }
    fn intern(types: &Types, k: ItemKind, reps: &mut Vec<ItemKind>, kinds: &mut Vec<String>, kid: &mut HashMap<String, usize>) -> usize {
        let s = canon(types, k);
        if let Some(i) = kid.get(&s) { return *i; }
        let i = kinds.len(); kinds.push(s.clone()); kid.insert(s, i); reps.push(k);
        if let Some(ex) = exports_of(types, k) { for (_, e) in ex { intern(types, e, reps, kinds, kid); } }
        if let ItemKind::Component(id) | ItemKind::Type(Type::World(id)) = k {
            for (_, e) in types[id].imports.clone() { intern(types, e, reps, kinds, kid); }
        }
        intern(types, k.promote(), reps, kinds, kid);
        i
    }
    // function kinds of the signatures a document may declare
    let mut funcs = Vec::new();
    for (i, (_, _, key)) in SIGS.iter().enumerate() {
        let mut params = indexmap::IndexMap::new();
        if i == 1 || i == 3 { params.insert("a".to_string(), ValueType::Primitive(PrimitiveType::U32)); }
        let result = if i >= 2 { Some(ValueType::Primitive(PrimitiveType::U32)) } else { None };
        let f = g.types_mut().add_func_type(FuncType { params, result, is_async: false });
        let k = intern(g.types(), ItemKind::Func(f), &mut reps, &mut kinds, &mut kid);
        funcs.push(format!("U func {} {k}", enc(key)));
    }
    let mut names: Vec<String> = Vec::new();
    let mut nidx: HashMap<String, usize> = HashMap::new();
    let mut add_name = |n: &str, names: &mut Vec<String>, nidx: &mut HashMap<String, usize>| {
        if !nidx.contains_key(n) { nidx.insert(n.to_string(), names.len()); names.push(n.to_string()); }
    };
    let mut pk = Vec::new();
    let mut loaded = Vec::new();
    for (i, p) in lib.iter().enumerate() {
        let v = version_of(p);
        let pkg = Package::from_bytes(&p.name, v.as_ref(), p.bytes.clone(), g.types_mut()).unwrap_or_else(|e| panic!("harness: package {}: {e:?}", p.key()));
        let w = g.types()[pkg.ty()].clone();
        let instk = intern(g.types(), ItemKind::Instance(pkg.instance_type()), &mut reps, &mut kinds, &mut kid);
        let imps: Vec<(String, usize)> = w.imports.iter().map(|(n, k)| (n.clone(), intern(g.types(), *k, &mut reps, &mut kinds, &mut kid))).collect();
        let defs: Vec<(String, usize)> = pkg.definitions().iter().map(|(n, k)| (n.clone(), intern(g.types(), *k, &mut reps, &mut kinds, &mut kid))).collect();
        loaded.push((i, instk, imps, defs));
    }
    // names: every name of the type level first, then the document names
    for k in &reps {
        if let Some(ex) = exports_of(g.types(), *k) { for (n, _) in ex { add_name(&n, &mut names, &mut nidx); } }
        match k {
            ItemKind::Instance(id) | ItemKind::Type(Type::Interface(id)) => if let Some(n) = &g.types()[*id].id { add_name(n, &mut names, &mut nidx); },
            ItemKind::Component(id) | ItemKind::Type(Type::World(id)) => {
                if let Some(n) = &g.types()[*id].id { add_name(n, &mut names, &mut nidx); }
                for (n, _) in &g.types()[*id].imports { add_name(n, &mut names, &mut nidx); }
            }
            _ => {}
        }
    }
    for (_, _, imps, defs) in &loaded { for (n, _) in imps.iter().chain(defs.iter()) { add_name(n, &mut names, &mut nidx); } }
    for n in extra_names { add_name(n, &mut names, &mut nidx); }
    let mut header = Vec::new();
    for (i, n) in names.iter().enumerate() { header.push(format!("U name {i} {}", enc(n))); }
    let pairs = |v: &[(String, usize)], nidx: &HashMap<String, usize>| v.iter().map(|(n, k)| format!("{}={k}", nidx[n])).collect::<Vec<_>>().join(",");
    for (i, k) in reps.iter().enumerate() {
        let class = match k { ItemKind::Type(Type::Interface(_)) => "iface", ItemKind::Type(Type::World(_)) => "world", ItemKind::Type(_) => "type",
            ItemKind::Func(_) => "func", ItemKind::Instance(_) => "instance", ItemKind::Component(_) => "component", ItemKind::Module(_) => "module", ItemKind::Value(_) => "value" };
        let id = match k {
            ItemKind::Instance(id) => g.types()[*id].id.clone(),
            ItemKind::Component(id) => g.types()[*id].id.clone(),
            _ => None };
        let ex: Vec<(String, usize)> = exports_of(g.types(), *k).unwrap_or_default().into_iter().map(|(n, e)| (n, kid[&canon(g.types(), e)])).collect();
        header.push(format!("U kind {i} {class} id={} promote={} exports={}", id.map(|n| nidx[&n].to_string()).unwrap_or("-".into()),
            kid[&canon(g.types(), k.promote())], pairs(&ex, &nidx)));
    }
    for (i, instk, imps, defs) in &loaded {
        let p = &lib[*i];
        pk.push(format!("U pkg {i} name={} ver={} inst={instk} imports={} defs={}", enc(&p.name), p.version.as_deref().map(enc).unwrap_or("-".into()),
            pairs(imps, &nidx), pairs(defs, &nidx)));
    }
    header.extend(pk);
    header.extend(funcs);
    let mut subs = Vec::new();
    for (a, ka) in reps.iter().enumerate() { for (b, kb) in reps.iter().enumerate() {
        let mut cache = Default::default();
        let mut c = SubtypeChecker::new(&mut cache);
        if c.is_subtype(*ka, g.types(), *kb, g.types()).is_ok() { subs.push(format!("{a}<{b}")); }
    }}
    header.push(format!("U sub {}", subs.join(",")));
    // name validity (wasmparser's ComponentName), probed through the API on a scratch graph
    let mut nv = Vec::new();
    for (i, n) in names.iter().enumerate() {
        let probe = |export: bool| -> bool {
            let mut g2 = CompositionGraph::new();
            let f = g2.types_mut().add_func_type(FuncType { params: Default::default(), result: None, is_async: false });
            if export {
                let nd = g2.import("zz-probe", ItemKind::Func(f)).unwrap();
                g2.export(nd, n.as_str()).is_ok()
            } else {
                !matches!(g2.import(n.as_str(), ItemKind::Func(f)), Err(wac_graph::ImportError::InvalidImportName { .. }))
            }
        };
        nv.push(format!("{i}:{}{}", probe(false) as u8, probe(true) as u8));
    }
    header.push(format!("U names {}", nv.join(",")));
    for (i, k) in kinds.iter().enumerate() { header.push(format!("U kindtext {i} {k}")); }
    Universe { kid, names, nidx, header }
}

// ------------------------------------------------------------------ programs

#[derive(Clone, Debug)]
enum Expr { Id(String), New { pkg: String, args: Vec<Arg> }, Access(Box<Expr>, String), Named(Box<Expr>, String), Nested(Box<Expr>) }
#[derive(Clone, Debug)]
enum Arg { Inferred(String), Spread(String), Named { name: String, is_str: bool, e: Expr }, Fill }
#[derive(Clone, Debug)]
enum ImpTy { Path(String), Func(usize), Ident(String) }
#[derive(Clone, Debug)]
enum ExpOpt { None, As(bool, String), Spread }
#[derive(Clone, Debug)]
enum Stmt { Import { id: String, as_: Option<(bool, String)>, ty: ImpTy }, Let { id: String, e: Expr }, Export { e: Expr, opt: ExpOpt } }

fn show_expr(e: &Expr) -> String {
    match e {
        Expr::Id(i) => i.clone(),
        Expr::New { pkg, args } => if args.is_empty() { format!("new {pkg} {{ }}") } else { format!("new {pkg} {{ {} }}", args.iter().map(show_arg).collect::<Vec<_>>().join(", ")) },
        Expr::Access(b, n) => format!("{}.{n}", show_expr(b)),
        Expr::Named(b, n) => format!("{}[\"{n}\"]", show_expr(b)),
        Expr::Nested(b) => format!("({})", show_expr(b)),
    }
}
fn show_arg(a: &Arg) -> String {
    match a {
        Arg::Inferred(i) => i.clone(),
        Arg::Spread(i) => format!("...{i}"),
        Arg::Named { name, is_str, e } => if *is_str { format!("\"{name}\": {}", show_expr(e)) } else { format!("{name}: {}", show_expr(e)) },
        Arg::Fill => "...".into(),
    }
}
fn show_name(is_str: bool, n: &str) -> String { if is_str { format!("\"{n}\"") } else { n.to_string() } }
fn show_stmt(s: &Stmt) -> String {
    match s {
        Stmt::Import { id, as_, ty } => {
            let a = as_.as_ref().map(|(s, n)| format!(" as {}", show_name(*s, n))).unwrap_or_default();
            let t = match ty { ImpTy::Path(p) => p.clone(), ImpTy::Func(s) => SIGS[*s].1.to_string(), ImpTy::Ident(i) => i.clone() };
            format!("import {id}{a}: {t};")
        }
        Stmt::Let { id, e } => format!("let {id} = {};", show_expr(e)),
        Stmt::Export { e, opt } => match opt {
            ExpOpt::None => format!("export {};", show_expr(e)),
            ExpOpt::As(s, n) => format!("export {} as {};", show_expr(e), show_name(*s, n)),
            ExpOpt::Spread => format!("export {}...;", show_expr(e)),
        },
    }
}
fn show_program(p: &[Stmt]) -> String {
    let mut s = String::from("package test:comp;\n");
    for st in p { s.push_str(&show_stmt(st)); s.push('\n'); }
    s
}

fn is_ident(s: &str) -> bool {
    !s.is_empty() && s.split('-').all(|w| !w.is_empty() && w.chars().next().unwrap().is_ascii_lowercase() && w.chars().all(|c| c.is_ascii_lowercase() || c.is_ascii_digit()))
        && !KEYWORDS.contains(&s)
}
const KEYWORDS: &[&str] = &["import", "with", "type", "tuple", "list", "option", "result", "borrow", "resource", "variant", "record", "flags", "enum", "func",
    "static", "constructor", "u8", "s8", "u16", "s16", "u32", "s32", "u64", "s64", "f32", "f64", "char", "bool", "string", "interface", "world", "export", "new",
    "let", "use", "include", "as", "package", "targets"];

#[derive(Clone)]
struct Local { id: String, kind: GK, iface_id: Option<String>, import_name: Option<String>, alias_name: Option<String> }

struct Gen<'a> { lib: &'a [Pkg], r: &'a mut Rng, stmts: Vec<Stmt>, locals: Vec<Local>, ctr: usize, exported: Vec<String>, budget: usize }

const ID_POOL: &[&str] = &["baz", "f", "streams", "qux", "g", "x", "run", "deep", "inner", "h", "y"];
const EXPORT_NAMES: &[&str] = &["out", "run", "my-export", "foo:bar/baz", "f", "other:lib/out@1.0.0", "x"];

impl<'a> Gen<'a> {
    fn fresh(&mut self, hint: Option<&str>) -> String {
        let used = |s: &Self, n: &str| s.locals.iter().any(|l| l.id == n);
        if let Some(h) = hint { if is_ident(h) && !used(self, h) && self.r.chance(2, 3) { return h.to_string(); } }
        if self.r.chance(1, 3) { let c = *self.r.pick(ID_POOL); if !used(self, c) { return c.to_string(); } }
        loop { self.ctr += 1; let n = format!("a{}", self.ctr); if !used(self, &n) { return n; } }
    }
    fn imported(&self, n: &str) -> bool {
        self.stmts.iter().any(|s| match s {
            Stmt::Import { id, as_, ty } => match (as_, ty) { (Some((_, a)), _) => a == n, (None, ImpTy::Path(p)) => p == n, (None, _) => id == n || self.locals.iter().any(|l| l.id == *id && l.import_name.as_deref() == Some(n)) },
            _ => false })
    }
    fn components(&self) -> Vec<&'a Pkg> { self.lib.iter().filter(|p| !p.wit).collect() }

    /// what the documented rules make of an inferred argument (approximation used to steer generation)
    fn predict(&self, l: &Local, imports: &[(String, GK)]) -> String {
        let has = |n: &str| imports.iter().any(|(m, _)| m == n);
        if let Some(i) = &l.iface_id { if has(i) { return i.clone(); } }
        if let Some(i) = &l.import_name { if has(i) { return i.clone(); } }
        if let Some(i) = &l.alias_name { if has(i) { return i.clone(); } }
        if !has(&l.id) {
            let m: Vec<&String> = imports.iter().filter(|(n, _)| last_seg(n) == Some(l.id.as_str())).map(|(n, _)| n).collect();
            if m.len() == 1 { return m[0].clone(); }
        }
        l.id.clone()
    }

    fn add_import_for(&mut self, name: &str, kind: &GK) -> Option<Local> {
        if self.stmts.len() >= self.budget { return None; }
        match kind {
            GK::F(s) => {
                let id = self.fresh(if is_ident(name) { Some(name) } else { last_seg(name) });
                let as_ = if id == name { None } else if self.r.chance(2, 3) { Some((!is_ident(name) || self.r.chance(1, 2), name.to_string())) } else { None };
                let import_name = as_.as_ref().map(|(_, n)| n.clone()).unwrap_or(id.clone());
                if self.imported(&import_name) { return None; }
                self.stmts.push(Stmt::Import { id: id.clone(), as_, ty: ImpTy::Func(*s) });
                let l = Local { id, kind: kind.clone(), iface_id: None, import_name: Some(import_name), alias_name: None };
                self.locals.push(l.clone());
                Some(l)
            }
            GK::I(_) => {
                // an interface of a WIT package with exactly this shape
                let path = IFACES.iter().find(|p| **p != "foo:bar/deep" && (**p == name || self.r.chance(1, 4)) && fits(&shape(p), kind))?;
                let id = self.fresh(last_seg(path));
                let as_ = if self.r.chance(1, 5) { Some((self.r.chance(1, 2) || !is_ident(name), name.to_string())) } else { None };
                let as_ = as_.filter(|(s, n)| *s || is_ident(n));
                let import_name = as_.as_ref().map(|(_, n)| n.clone()).unwrap_or(path.to_string());
                if self.imported(&import_name) { return None; }
                self.stmts.push(Stmt::Import { id: id.clone(), as_, ty: ImpTy::Path(path.to_string()) });
                let l = Local { id, kind: shape(path), iface_id: Some(path.to_string()), import_name: Some(import_name), alias_name: None };
                self.locals.push(l.clone());
                Some(l)
            }
        }
    }

    fn gen_new(&mut self, depth: usize) -> (Expr, GK) {
        let comps = self.components();
        let p: &Pkg = if self.r.chance(1, 40) { self.r.pick(self.lib) } else { *self.r.pick(&comps) };
        let mut args: Vec<Arg> = Vec::new();
        let mut unbound: Vec<(String, GK)> = Vec::new();
        let mut order: Vec<usize> = (0..p.imports.len()).collect();
        if self.r.chance(1, 2) { for i in (1..order.len()).rev() { let j = self.r.below(i as u64 + 1) as usize; order.swap(i, j); } }
        for i in order {
            let (name, kind) = p.imports[i].clone();
            if self.r.chance(1, 7) { unbound.push((name, kind)); continue; }
            let mut cands: Vec<Local> = self.locals.iter().filter(|l| fits(&l.kind, &kind)).cloned().collect();
            if cands.is_empty() || self.r.chance(1, 6) {
                // provide the argument by a nested expression, a fresh import, or leave it
                if depth < 3 && self.r.chance(1, 3) {
                    let provs: Vec<(&Pkg, String)> = self.components().into_iter().flat_map(|q| q.exports.iter().filter(|(_, k)| fits(k, &kind)).map(move |(n, _)| (q, n.clone()))).collect();
                    if !provs.is_empty() {
                        let (_q, en) = self.r.pick(&provs).clone();
                        let (inner, ik) = self.gen_new_of(_q, depth + 1);
                        let e = self.access(inner, &ik, &en);
                        args.push(self.named_arg(&name, &p.imports, e));
                        continue;
                    }
                }
                if self.r.chance(2, 3) { if let Some(l) = self.add_import_for(&name, &kind) { cands = vec![l]; } }
            }
            if cands.is_empty() { unbound.push((name, kind)); continue; }
            let exact: Vec<Local> = cands.iter().filter(|l| self.predict(l, &p.imports) == name).cloned().collect();
            if !exact.is_empty() && self.r.chance(3, 4) {
                args.push(Arg::Inferred(self.r.pick(&exact).id.clone()));
            } else if self.r.chance(1, 12) {
                args.push(Arg::Inferred(self.r.pick(&cands).id.clone()));
            } else {
                let l = self.r.pick(&cands).clone();
                let e = if self.r.chance(1, 8) { Expr::Nested(Box::new(Expr::Id(l.id))) } else { Expr::Id(l.id) };
                args.push(self.named_arg(&name, &p.imports, e));
            }
        }
        // spreads
        if !unbound.is_empty() && self.r.chance(2, 3) || self.r.chance(1, 25) {
            let matching = |l: &Local, unbound: &[(String, GK)]| match &l.kind { GK::I(ex) => ex.iter().any(|(n, _)| unbound.iter().any(|(m, _)| m == n)), _ => false };
            let srcs: Vec<Local> = self.locals.iter().filter(|l| matching(l, &unbound)).cloned().collect();
            let pool: Vec<Local> = if srcs.is_empty() && self.r.chance(1, 12) { self.locals.iter().filter(|l| matches!(l.kind, GK::I(_))).cloned().collect() } else { srcs };
            if !pool.is_empty() {
                let l = self.r.pick(&pool).clone();
                let unbound0 = unbound.clone();
                if let GK::I(ex) = &l.kind { unbound.retain(|(n, _)| !ex.iter().any(|(m, _)| m == n)); }
                let pos = self.r.below(args.len() as u64 + 1) as usize;
                args.insert(pos, Arg::Spread(l.id.clone()));
                // a second spread: one that supplies something still unbound, sometimes one that competes with the first
                let compete = self.r.chance(1, 3);
                let more: Vec<Local> = self.locals.iter().filter(|m| m.id != l.id && matching(m, if compete { &unbound0 } else { &unbound })).cloned().collect();
                if !more.is_empty() && self.r.chance(1, 2) {
                    let l2 = self.r.pick(&more).clone();
                    if let GK::I(ex) = &l2.kind { unbound.retain(|(n, _)| !ex.iter().any(|(m, _)| m == n)); }
                    let pos = self.r.below(args.len() as u64 + 1) as usize;
                    args.insert(pos, Arg::Spread(l2.id));
                }
            }
        }
        if !unbound.is_empty() && self.r.chance(24, 25) || self.r.chance(1, 8) { args.push(Arg::Fill); }
        (Expr::New { pkg: p.key(), args }, GK::I(p.exports.clone()))
    }

    fn gen_new_of(&mut self, p: &Pkg, depth: usize) -> (Expr, GK) {
        // an instantiation of a given package: arguments from fitting locals, the rest implicit
        let mut args = Vec::new();
        let mut missing = false;
        for (name, kind) in p.imports.clone() {
            let cands: Vec<Local> = self.locals.iter().filter(|l| fits(&l.kind, &kind)).cloned().collect();
            if !cands.is_empty() && self.r.chance(1, 2) {
                let l = self.r.pick(&cands).clone();
                args.push(self.named_arg(&name, &p.imports, Expr::Id(l.id)));
            } else { missing = true; }
        }
        let _ = depth;
        if missing || self.r.chance(1, 5) { args.push(Arg::Fill); }
        (Expr::New { pkg: p.key(), args }, GK::I(p.exports.clone()))
    }

    fn named_arg(&mut self, name: &str, imports: &[(String, GK)], e: Expr) -> Arg {
        let seg = if is_ident(name) { Some(name.to_string()) } else { last_seg(name).filter(|s| is_ident(s)).map(|s| s.to_string()) };
        match seg {
            Some(s) => {
                let unamb = s == name || (!imports.iter().any(|(n, _)| *n == s) && imports.iter().filter(|(n, _)| last_seg(n) == Some(s.as_str())).count() == 1);
                if (unamb && self.r.chance(3, 4)) || self.r.chance(1, 25) { Arg::Named { name: s, is_str: false, e } } else { Arg::Named { name: name.to_string(), is_str: true, e } }
            }
            None => Arg::Named { name: name.to_string(), is_str: true, e },
        }
    }

    /// an access of export `en` of an instance-valued expression
    fn access(&mut self, base: Expr, kind: &GK, en: &str) -> Expr {
        let exs: Vec<String> = match kind { GK::I(ex) => ex.iter().map(|(n, _)| n.clone()).collect(), _ => vec![] };
        let seg = if is_ident(en) { Some(en.to_string()) } else { last_seg(en).filter(|s| is_ident(s)).map(|s| s.to_string()) };
        let base = if matches!(base, Expr::New { .. }) && self.r.chance(1, 3) { Expr::Nested(Box::new(base)) } else { base };
        // a NAMED access is exact: a string that is only the last segment of a path (unique or ambiguous) names no export
        if let Some(s) = &seg { if *s != en && !exs.iter().any(|n| n == s) && self.r.chance(1, 12) { return Expr::Named(Box::new(base), s.clone()); } }
        match seg {
            Some(s) => {
                let unamb = s == en || (!exs.iter().any(|n| *n == s) && exs.iter().filter(|n| last_seg(n) == Some(s.as_str())).count() == 1);
                if (unamb && self.r.chance(3, 4)) || self.r.chance(1, 10) { Expr::Access(Box::new(base), s) } else { Expr::Named(Box::new(base), en.to_string()) }
            }
            None => Expr::Named(Box::new(base), en.to_string()),
        }
    }

    /// an expression with its (approximate) kind and provenance
    fn gen_expr(&mut self, depth: usize) -> (Expr, Local) {
        let anon = |k: GK| Local { id: String::new(), kind: k, iface_id: None, import_name: None, alias_name: None };
        let c = self.r.below(100);
        if c < 20 && !self.locals.is_empty() {
            let l = self.r.pick(&self.locals).clone();
            return (Expr::Id(l.id.clone()), l);
        }
        if c < 60 || self.locals.is_empty() {
            let (e, k) = self.gen_new(depth);
            return (e, anon(k));
        }
        // access chain on an instance
        let insts: Vec<Local> = self.locals.iter().filter(|l| matches!(&l.kind, GK::I(ex) if !ex.is_empty())).cloned().collect();
        let (mut e, mut k) = if insts.is_empty() || (depth < 3 && self.r.chance(1, 4)) { let (e, k) = self.gen_new(depth + 1); (e, k) } else { let l = self.r.pick(&insts).clone(); (Expr::Id(l.id), l.kind) };
        let mut last = None;
        for _ in 0..(1 + self.r.below(2)) {
            let ex = match &k { GK::I(ex) if !ex.is_empty() => ex.clone(), _ => break };
            let (en, ek) = self.r.pick(&ex).clone();
            e = self.access(e, &k, &en);
            let id = if en.contains(':') { Some(en.clone()) } else { None };
            last = Some((en, id));
            k = ek;
        }
        let mut l = anon(k);
        if let Some((en, id)) = last { l.alias_name = Some(en); l.iface_id = id.filter(|_| matches!(l.kind, GK::I(_))); }
        if self.r.chance(1, 10) { e = Expr::Nested(Box::new(e)); }
        (e, l)
    }

    fn gen_stmt(&mut self) {
        let c = self.r.below(100);
        if c < 16 {
            let mut path = *self.r.pick(IFACES);
            if path == "foo:bar/deep" && !self.r.chance(1, 12) { path = "foo:bar/qux"; }
            let id = self.fresh(last_seg(path));
            let as_ = if self.r.chance(1, 4) { let n = *self.r.pick(&["my-baz", "foo:bar/baz", "imp", "other:lib/baz", "f"]); Some((self.r.chance(1, 2) || !is_ident(n), n.to_string())) } else { None };
            let import_name = as_.as_ref().map(|(_, n)| n.clone()).unwrap_or(path.to_string());
            if self.imported(&import_name) && !self.r.chance(1, 15) { return; }
            self.stmts.push(Stmt::Import { id: id.clone(), as_, ty: ImpTy::Path(path.to_string()) });
            self.locals.push(Local { id, kind: shape(path), iface_id: Some(path.to_string()), import_name: Some(import_name), alias_name: None });
        } else if c < 26 {
            let s = self.r.below(4) as usize;
            let hint = *self.r.pick(PLAIN);
            let id = self.fresh(Some(hint));
            let as_ = if self.r.chance(1, 3) { let n = *self.r.pick(&["f", "g", "run", "x:y/f", "get-x", "y"]); Some((self.r.chance(1, 2) || !is_ident(n), n.to_string())) } else { None };
            let import_name = as_.as_ref().map(|(_, n)| n.clone()).unwrap_or(id.clone());
            if self.imported(&import_name) && !self.r.chance(1, 15) { return; }
            self.stmts.push(Stmt::Import { id: id.clone(), as_, ty: ImpTy::Func(s) });
            self.locals.push(Local { id, kind: GK::F(s), iface_id: None, import_name: Some(import_name), alias_name: None });
        } else if c < 29 && !self.locals.is_empty() {
            let l = self.r.pick(&self.locals).clone();
            let id = self.fresh(None);
            let import_name = l.iface_id.clone().unwrap_or(id.clone());
            if self.imported(&import_name) && !self.r.chance(1, 15) { return; }
            self.stmts.push(Stmt::Import { id: id.clone(), as_: None, ty: ImpTy::Ident(l.id.clone()) });
            self.locals.push(Local { id, kind: l.kind.clone(), iface_id: l.iface_id.clone(), import_name: Some(import_name), alias_name: None });
        } else if c < 78 {
            let (e, mut l) = self.gen_expr(0);
            let hint = l.alias_name.clone().or(l.iface_id.clone());
            let id = self.fresh(hint.as_deref().and_then(|h| if is_ident(h) { Some(h) } else { last_seg(h) }));
            self.stmts.push(Stmt::Let { id: id.clone(), e });
            l.id = id;
            self.locals.push(l);
        } else {
            let (e, l) = if !self.locals.is_empty() && self.r.chance(2, 3) { let l = self.r.pick(&self.locals).clone(); (Expr::Id(l.id.clone()), l) } else { self.gen_expr(1) };
            let inferable = l.iface_id.clone().or(l.import_name.clone()).or(l.alias_name.clone());
            let opt = if matches!(l.kind, GK::I(_)) && self.r.chance(1, 4) { ExpOpt::Spread }
                else if let (Some(n), true) = (&inferable, self.r.chance(3, 5)) { if self.exported.contains(n) && self.r.chance(4, 5) { let m = format!("e{}", self.exported.len()); ExpOpt::As(false, m) } else { ExpOpt::None } }
                else { let n = if self.r.chance(1, 2) { format!("e{}", self.exported.len()) } else { self.r.pick(EXPORT_NAMES).to_string() }; ExpOpt::As(!is_ident(&n) || self.r.chance(1, 2), n) };
            match &opt {
                ExpOpt::None => if let Some(n) = inferable { self.exported.push(n); },
                ExpOpt::As(_, n) => self.exported.push(n.clone()),
                ExpOpt::Spread => if let GK::I(ex) = &l.kind { for (n, _) in ex { self.exported.push(n.clone()); } },
            }
            self.stmts.push(Stmt::Export { e, opt });
        }
    }
}

fn gen_program(lib: &[Pkg], r: &mut Rng) -> (Vec<Stmt>, Vec<Local>) {
    let n = 2 + r.below(11) as usize;
    let mut g = Gen { lib, r, stmts: Vec::new(), locals: Vec::new(), ctr: 0, exported: Vec::new(), budget: 12 };
    let mut guard = 0;
    while g.stmts.len() < n && guard < 40 { guard += 1; g.gen_stmt(); }
    g.stmts.truncate(12);
    (g.stmts, g.locals)
}

// ------------------------------------------------------------------ single faults

const FAULTS: &[&str] = &["undefined-name", "duplicate-name", "missing-argument", "duplicate-argument", "access-non-instance",
    "spread-non-instance", "fill-not-last", "ineffective-spread", "conflicting-export", "inexact-named-access"];

fn for_each_expr_mut(p: &mut [Stmt], f: &mut dyn FnMut(&mut Expr)) {
    fn walk(e: &mut Expr, f: &mut dyn FnMut(&mut Expr)) {
        f(e);
        match e {
            Expr::New { args, .. } => for a in args { if let Arg::Named { e, .. } = a { walk(e, f); } },
            Expr::Access(b, _) | Expr::Named(b, _) | Expr::Nested(b) => walk(b, f),
            Expr::Id(_) => {}
        }
    }
    for s in p { match s { Stmt::Let { e, .. } | Stmt::Export { e, .. } => walk(e, f), _ => {} } }
}

fn count_exprs(p: &[Stmt], pred: &dyn Fn(&Expr) -> bool) -> usize {
    let mut q = p.to_vec();
    let mut n = 0;
    for_each_expr_mut(&mut q, &mut |e| if pred(e) { n += 1; });
    n
}

/// apply `f` to the k-th expression satisfying `pred`
fn at_expr(p: &mut [Stmt], pred: &dyn Fn(&Expr) -> bool, k: usize, f: &mut dyn FnMut(&mut Expr)) {
    let mut i = 0;
    for_each_expr_mut(p, &mut |e| { if pred(e) { if i == k { f(e); } i += 1; } });
}

fn inject(p: &[Stmt], locals: &[Local], fault: &str, r: &mut Rng) -> Option<Vec<Stmt>> {
    let mut q = p.to_vec();
    let is_new = |e: &Expr| matches!(e, Expr::New { .. });
    let funcs: Vec<&Local> = locals.iter().filter(|l| matches!(l.kind, GK::F(_))).collect();
    let insts: Vec<&Local> = locals.iter().filter(|l| matches!(l.kind, GK::I(_))).collect();
    let def_pos = |q: &[Stmt], id: &str| q.iter().position(|s| matches!(s, Stmt::Import { id: i, .. } | Stmt::Let { id: i, .. } if i == id));
    match fault {
        "undefined-name" => {
            let n_id = count_exprs(&q, &|e| matches!(e, Expr::Id(_)));
            let n_new = count_exprs(&q, &|e| matches!(e, Expr::New { args, .. } if args.iter().any(|a| matches!(a, Arg::Inferred(_) | Arg::Spread(_)))));
            if n_id + n_new == 0 { return None; }
            let k = r.below((n_id + n_new) as u64) as usize;
            if k < n_id { at_expr(&mut q, &|e| matches!(e, Expr::Id(_)), k, &mut |e| *e = Expr::Id("nope".into())); }
            else { at_expr(&mut q, &|e| matches!(e, Expr::New { args, .. } if args.iter().any(|a| matches!(a, Arg::Inferred(_) | Arg::Spread(_)))), k - n_id, &mut |e| {
                if let Expr::New { args, .. } = e { for a in args.iter_mut() { match a { Arg::Inferred(i) | Arg::Spread(i) => { *i = "nope".into(); break; } _ => {} } } } }); }
        }
        "duplicate-name" => {
            let defs: Vec<usize> = q.iter().enumerate().filter(|(_, s)| matches!(s, Stmt::Import { .. } | Stmt::Let { .. })).map(|(i, _)| i).collect();
            if defs.len() < 2 { return None; }
            let j = 1 + r.below(defs.len() as u64 - 1) as usize;
            let i = r.below(j as u64) as usize;
            let earlier = match &q[defs[i]] { Stmt::Import { id, .. } | Stmt::Let { id, .. } => id.clone(), _ => unreachable!() };
            match &mut q[defs[j]] { Stmt::Import { id, .. } | Stmt::Let { id, .. } => *id = earlier, _ => {} }
        }
        "missing-argument" => {
            let pred = |e: &Expr| matches!(e, Expr::New { args, .. } if !args.is_empty());
            let n = count_exprs(&q, &pred);
            if n == 0 { return None; }
            let k = r.below(n as u64) as usize;
            let pick = r.next();
            at_expr(&mut q, &pred, k, &mut |e| if let Expr::New { args, .. } = e {
                args.retain(|a| !matches!(a, Arg::Fill));
                if !args.is_empty() { let i = (pick % args.len() as u64) as usize; args.remove(i); }
            });
        }
        "duplicate-argument" => {
            let pred = |e: &Expr| matches!(e, Expr::New { args, .. } if args.iter().any(|a| matches!(a, Arg::Inferred(_) | Arg::Named { .. })));
            let n = count_exprs(&q, &pred);
            if n == 0 { return None; }
            let k = r.below(n as u64) as usize;
            let pick = r.next();
            at_expr(&mut q, &pred, k, &mut |e| if let Expr::New { args, .. } = e {
                let c: Vec<usize> = args.iter().enumerate().filter(|(_, a)| matches!(a, Arg::Inferred(_) | Arg::Named { .. })).map(|(i, _)| i).collect();
                let i = c[(pick % c.len() as u64) as usize];
                let dup = args[i].clone();
                let pos = i + 1 + ((pick >> 8) % (args.len() - i) as u64) as usize;
                let pos = if matches!(args.last(), Some(Arg::Fill)) { pos.min(args.len() - 1) } else { pos };
                args.insert(pos, dup);
            });
        }
        "access-non-instance" => {
            if funcs.is_empty() { return None; }
            let f = *r.pick(&funcs);
            let d = def_pos(&q, &f.id)?;
            let pos = d + 1 + r.below((q.len() - d) as u64) as usize;
            let e = if r.chance(1, 2) { Expr::Access(Box::new(Expr::Id(f.id.clone())), "x".into()) } else { Expr::Named(Box::new(Expr::Id(f.id.clone())), "x".into()) };
            let st = if r.chance(1, 2) { Stmt::Let { id: "zq".into(), e } } else { Stmt::Export { e, opt: ExpOpt::As(false, "zq".into()) } };
            q.insert(pos.min(q.len()), st);
        }
        "spread-non-instance" => {
            if funcs.is_empty() { return None; }
            let f = *r.pick(&funcs);
            let start = def_pos(&q, &f.id)? + 1;
            if r.chance(1, 3) {
                q.insert(start + r.below((q.len() - start) as u64 + 1) as usize, Stmt::Export { e: Expr::Id(f.id.clone()), opt: ExpOpt::Spread });
            } else {
                let n = count_exprs(&q[start..], &is_new);
                if n == 0 { return None; }
                let k = r.below(n as u64) as usize;
                let id = f.id.clone();
                let pick = r.next();
                at_expr(&mut q[start..], &is_new, k, &mut |e| if let Expr::New { args, .. } = e {
                    let m = if matches!(args.last(), Some(Arg::Fill)) { args.len() - 1 } else { args.len() };
                    args.insert((pick % (m as u64 + 1)) as usize, Arg::Spread(id.clone()));
                });
            }
        }
        "fill-not-last" => {
            let pred = |e: &Expr| matches!(e, Expr::New { args, .. } if args.iter().any(|a| !matches!(a, Arg::Fill)));
            let n = count_exprs(&q, &pred);
            if n == 0 { return None; }
            let k = r.below(n as u64) as usize;
            let pick = r.next();
            at_expr(&mut q, &pred, k, &mut |e| if let Expr::New { args, .. } = e {
                args.retain(|a| !matches!(a, Arg::Fill));
                let i = (pick % args.len() as u64) as usize;
                args.insert(i, Arg::Fill);
                if pick & 0x100 != 0 { args.push(Arg::Fill); }
            });
        }
        "ineffective-spread" => {
            if r.chance(1, 3) {
                // a spread export repeated
                let i = q.iter().position(|s| matches!(s, Stmt::Export { opt: ExpOpt::Spread, e: Expr::Id(_) }));
                match i {
                    Some(i) => { let s = q[i].clone(); q.insert(i + 1 + r.below((q.len() - i) as u64) as usize, s); }
                    None => {
                        if insts.is_empty() { return None; }
                        let l = *r.pick(&insts);
                        let start = def_pos(&q, &l.id)? + 1;
                        let s = Stmt::Export { e: Expr::Id(l.id.clone()), opt: ExpOpt::Spread };
                        q.insert(start, s.clone()); q.insert(start + 1, s);
                    }
                }
            } else {
                if insts.is_empty() { return None; }
                let l = *r.pick(&insts);
                let start = def_pos(&q, &l.id)? + 1;
                let n = count_exprs(&q[start..], &is_new);
                if n == 0 { return None; }
                let k = r.below(n as u64) as usize;
                let id = l.id.clone();
                at_expr(&mut q[start..], &is_new, k, &mut |e| if let Expr::New { args, .. } = e {
                    // after every other spread: whatever it could supply is taken, or it supplies nothing
                    let m = if matches!(args.last(), Some(Arg::Fill)) { args.len() - 1 } else { args.len() };
                    args.insert(m, Arg::Spread(id.clone()));
                    args.insert(m + 1, Arg::Spread(id.clone()));
                });
            }
        }
        "conflicting-export" => {
            let ex: Vec<usize> = q.iter().enumerate().filter(|(_, s)| matches!(s, Stmt::Export { opt: ExpOpt::None | ExpOpt::As(..), .. })).map(|(i, _)| i).collect();
            if ex.is_empty() {
                if locals.is_empty() { return None; }
                let l = r.pick(locals).clone();
                let start = def_pos(&q, &l.id)? + 1;
                let s = Stmt::Export { e: Expr::Id(l.id.clone()), opt: ExpOpt::As(false, "dup".into()) };
                q.insert(start, s.clone()); q.insert(start + r.below((q.len() - start) as u64 + 1) as usize, s);
            } else {
                let i = *r.pick(&ex);
                let s = q[i].clone();
                q.insert(i + 1 + r.below((q.len() - i) as u64) as usize, s);
            }
        }
        "inexact-named-access" => {
            // `l["seg"]` where `seg` is the version-stripped last segment of an export path of `l` and not itself an export
            let mut cands: Vec<(&Local, String, GK)> = Vec::new();
            for l in &insts { if let GK::I(ex) = &l.kind { for (n, k) in ex {
                if let Some(sg) = last_seg(n) { if sg != n && !ex.iter().any(|(m, _)| m == sg) { cands.push((l, sg.to_string(), k.clone())); } } } } }
            if cands.is_empty() { return None; }
            let (l, sg, k) = r.pick(&cands).clone();
            let start = def_pos(&q, &l.id)? + 1;
            let named = Expr::Named(Box::new(Expr::Id(l.id.clone())), sg.clone());
            // alone, chained before / after another access, or as an argument
            let e = match (r.below(4), &k) {
                (0, GK::I(ex)) if !ex.is_empty() => Expr::Access(Box::new(named), ex[0].0.clone()),
                (1, _) => Expr::Nested(Box::new(named)),
                (2, _) => { let comps: Vec<&Pkg> = Vec::new(); let _ = comps;
                    Expr::New { pkg: "test:sink".into(), args: vec![Arg::Named { name: "x".into(), is_str: false, e: named }, Arg::Fill] } }
                _ => named,
            };
            let st = if r.chance(1, 2) { Stmt::Let { id: "zq".into(), e } } else { Stmt::Export { e, opt: ExpOpt::As(true, "zq".into()) } };
            let pos = start + r.below((q.len() - start) as u64 + 1) as usize;
            q.insert(pos.min(q.len()), st);
        }
        _ => return None,
    }
    Some(q)
}

// ------------------------------------------------------------------ the implementation's observation

fn pid_pair(p: PackageId) -> (usize, usize) {
    let s = format!("{p:?}");
    let nums: Vec<usize> = s.split(|c: char| !c.is_ascii_digit()).filter(|x| !x.is_empty()).map(|x| x.parse().unwrap()).collect();
    (nums[0], nums[1])
}

fn dump(g: &CompositionGraph, u: &Universe, lib: &[Pkg]) -> String {
    let kid = |k: ItemKind| -> String { let s = canon(g.types(), k); u.kid.get(&s).map(|i| i.to_string()).unwrap_or_else(|| format!("?{}", s.replace([',', '|', ':', '(', ')', '[', ']'], "_"))) };
    let opt_name = |s: Option<&str>| s.map(|x| u.name_idx(x)).unwrap_or("-".into());
    let mut o = String::new();
    o.push_str("N[");
    for id in g.node_ids() {
        let n = &g[id];
        let tag = match n.kind() { NodeKind::Definition => "D", NodeKind::Import(_) => "I", NodeKind::Instantiation(_) => "S", NodeKind::Alias => "A" };
        let pk = n.package().map(|p| { let (a, b) = pid_pair(p); format!("{a}.{b}") }).unwrap_or("-".into());
        write!(o, "{id}:{tag}:{pk}:{}:{}:{}:{},", kid(n.item_kind()), opt_name(n.export_name()), opt_name(n.name()), opt_name(n.import_name())).unwrap();
    }
    o.push_str("]A[");
    for id in g.node_ids() {
        let args: Vec<String> = g.get_instantiation_arguments(id).map(|(n, s)| format!("{}={s}", u.name_idx(n))).collect();
        if !args.is_empty() { write!(o, "{id}:({}),", args.join(",")).unwrap(); }
    }
    o.push_str("]L[");
    for id in g.node_ids() { if let Some((s, e)) = g.get_alias_source(id) { write!(o, "{id}:{s}.{},", u.name_idx(e)).unwrap(); } }
    o.push_str("]I[");
    for (n, k, nd) in g.imports() { write!(o, "({},{},{}),", u.name_idx(n), kid(k), nd.map(|x| x.to_string()).unwrap_or("-".into())).unwrap(); }
    o.push_str("]P[");
    for (i, p) in lib.iter().enumerate() {
        let v = version_of(p);
        if let Some((id, _)) = g.get_package_by_name(&p.name, v.as_ref()) { let (a, b) = pid_pair(id); write!(o, "{i}={a}.{b},").unwrap(); }
    }
    o.push(']');
    // satisfied sets, exports in order, edges in adjacency order: through the guarded hook
    let d = g.verif_dump();
    let (pre, rest) = d.split_once("]X[").unwrap();
    let (xs, post) = rest.split_once("]G[").unwrap();
    let xs2: String = xs.split(',').filter(|e| !e.is_empty()).map(|e| { let (n, i) = e.rsplit_once('=').unwrap(); format!("{}={},", u.name_idx(n), i) }).collect();
    write!(o, "{pre}]X[{xs2}]G[{post}").unwrap();
    let bad = g.verif_invariants();
    if !bad.is_empty() { write!(o, "V[{}]", bad.join(" / ").replace([';', '|'], " ")).unwrap(); }
    o
}

fn err_obs(e: &RErr, u: &Universe) -> String {
    let f = |v: &str, span: &miette::SourceSpan, name: Option<&str>| format!("E:{v}:{}:{}", span.offset(), name.map(|n| u.name_idx(n)).unwrap_or("-".into()));
    match e {
        RErr::UndefinedName { name, span } => f("UndefinedName", span, Some(name)),
        RErr::DuplicateName { name, span, .. } => f("DuplicateName", span, Some(name)),
        RErr::UnknownPackage { name, span } => f("UnknownPackage", span, Some(name)),
        RErr::PackageMissingExport { export, span, .. } => f("PackageMissingExport", span, Some(export)),
        RErr::PackagePathMissingExport { export, span, .. } => f("PackagePathMissingExport", span, Some(export)),
        RErr::MissingComponentImport { import, span, .. } => f("MissingComponentImport", span, Some(import)),
        RErr::MismatchedInstantiationArg { name, span, .. } => f("MismatchedInstantiationArg", span, Some(name)),
        RErr::DuplicateInstantiationArg { name, span } => f("DuplicateInstantiationArg", span, Some(name)),
        RErr::MissingInstantiationArg { name, span, .. } => f("MissingInstantiationArg", span, Some(name)),
        RErr::NotAnInstance { operation, span, .. } => f(match operation { wac_parser::resolution::InstanceOperation::Access => "NotAnInstance.access", _ => "NotAnInstance.spread" }, span, None),
        RErr::MissingInstanceExport { name, span } => f("MissingInstanceExport", span, Some(name)),
        RErr::ExportRequiresAs { span } => f("ExportRequiresAs", span, None),
        RErr::ExportConflict { name, span, .. } => f("ExportConflict", span, Some(name)),
        RErr::DuplicateExternName { name, kind, span, .. } => f(&format!("DuplicateExternName.{kind}"), span, Some(name)),
        RErr::InvalidExternName { name, kind, span, .. } => f(&format!("InvalidExternName.{kind}"), span, Some(name)),
        RErr::FillArgumentNotLast { span } => f("FillArgumentNotLast", span, None),
        RErr::SpreadInstantiationNoMatch { span } => f("SpreadInstantiationNoMatch", span, None),
        RErr::SpreadExportNoEffect { span } => f("SpreadExportNoEffect", span, None),
        other => { let d = format!("{other:?}"); format!("E:Other.{}:0:-", d.split(|c: char| !c.is_alphanumeric()).next().unwrap_or("?")) }
    }
}

fn panic_msg(e: Box<dyn std::any::Any + Send>) -> String {
    e.downcast_ref::<String>().cloned().or_else(|| e.downcast_ref::<&str>().map(|s| s.to_string())).unwrap_or_default().replace(['|', '\n', '\t'], " ")
}

fn run_impl(src: &str, lib: &[Pkg], u: &Universe) -> String {
    let doc = match catch_unwind(|| wac_parser::Document::parse(src)) {
        Ok(Ok(d)) => d,
        Ok(Err(e)) => return format!("PARSE-ERR {}", format!("{e:?}").replace(['|', '\n', '\t'], " ").chars().take(120).collect::<String>()),
        Err(e) => return format!("PANIC@parse({})", panic_msg(e)),
    };
    let versions: Vec<Option<semver::Version>> = lib.iter().map(version_of).collect();
    let mut map = indexmap::IndexMap::new();
    for (p, v) in lib.iter().zip(versions.iter()) { map.insert(BorrowedPackageKey::from_name_and_version(&p.name, v.as_ref()), p.bytes.clone()); }
    let res = match catch_unwind(AssertUnwindSafe(|| doc.resolve(map))) { Ok(r) => r, Err(e) => return format!("PANIC@resolve({})", panic_msg(e)) };
    match res {
        Err(e) => err_obs(&e, u),
        Ok(resolution) => {
            let d = catch_unwind(AssertUnwindSafe(|| dump(resolution.graph(), u, lib))).unwrap_or_else(|_| "DUMP-PANIC".into());
            let enc = match catch_unwind(AssertUnwindSafe(|| resolution.encode(EncodeOptions { define_components: true, validate: true, processor: None }))) {
                Ok(Ok(bytes)) => {
                    let mut v = wasmparser::Validator::new_with_features(wasmparser::WasmFeatures::all());
                    if v.validate_all(&bytes).is_ok() { "enc:ok".to_string() } else { "enc:INVALID".to_string() }
                }
                Ok(Err(e)) => { let dbg = format!("{e:?}"); format!("enc:E:{}", dbg.split(|c: char| !c.is_alphanumeric()).next().unwrap_or("?")) }
                Err(e) => format!("enc:PANIC({})", panic_msg(e)),
            };
            format!("OK|{d}|{enc}")
        }
    }
}

// ------------------------------------------------------------------ main

fn names_of_program(p: &[Stmt], out: &mut BTreeSet<String>) {
    let mut q = p.to_vec();
    for s in &q {
        match s {
            Stmt::Import { id, as_, ty } => { out.insert(id.clone()); if let Some((_, n)) = as_ { out.insert(n.clone()); }
                match ty { ImpTy::Path(p) => { out.insert(p.clone()); let nm = &p[..p.find('/').unwrap()]; out.insert(nm.to_string());
                    let segs = &p[p.find('/').unwrap() + 1..p.find('@').unwrap_or(p.len())]; for s in segs.split('/') { out.insert(s.to_string()); } }
                    ImpTy::Ident(i) => { out.insert(i.clone()); } _ => {} } }
            Stmt::Let { id, .. } => { out.insert(id.clone()); }
            Stmt::Export { opt: ExpOpt::As(_, n), .. } => { out.insert(n.clone()); }
            _ => {}
        }
    }
    for_each_expr_mut(&mut q, &mut |e| match e {
        Expr::Id(i) => { out.insert(i.clone()); }
        Expr::New { pkg, args } => { out.insert(pkg[..pkg.find('@').unwrap_or(pkg.len())].to_string());
            for a in args { match a { Arg::Inferred(i) | Arg::Spread(i) => { out.insert(i.clone()); } Arg::Named { name, .. } => { out.insert(name.clone()); } Arg::Fill => {} } } }
        Expr::Access(_, n) | Expr::Named(_, n) => { out.insert(n.clone()); }
        Expr::Nested(_) => {}
    });
}

fn dec(s: &str) -> String { if s == "-" { String::new() } else { s.split(',').map(|c| char::from_u32(c.parse().unwrap()).unwrap()).collect() } }

struct Out { co: std::io::BufWriter<std::fs::File>, io: std::io::BufWriter<std::fs::File> }
impl Out {
    fn both(&mut self, l: &str) { writeln!(self.co, "{l}").unwrap(); writeln!(self.io, "{l}").unwrap(); }
    fn case(&mut self, c: &str, i: &str) { writeln!(self.co, "{c}").unwrap(); writeln!(self.io, "{i}").unwrap(); }
}

fn emit_block(out: &mut Out, lib: &[Pkg], progs: &[(String, String, String)], extra: &BTreeSet<String>) {
    let u = build_universe(lib, extra);
    out.both("U reset");
    for (i, p) in lib.iter().enumerate() {
        out.both(&format!("U wat {i} {} {} {} {}", enc(&p.name), p.version.as_deref().map(enc).unwrap_or("-".into()), p.wit as u8, enc(&p.wat)));
    }
    for h in &u.header { out.both(h); }
    let _ = &u.names;
    for (tag, fault, src) in progs {
        let obs = run_impl(src, lib, &u);
        out.case(&format!("P {tag} {fault} {}", enc(src)), &obs);
    }
}

fn main() {
    let args: Vec<String> = std::env::args().collect();
    let tier = args[1].as_str();
    let seed: u64 = args[2].parse().unwrap();
    if std::env::var("C04_TRACE").is_err() { std::panic::set_hook(Box::new(|_| {})); }
    let mut out = Out { co: std::io::BufWriter::new(std::fs::File::create(&args[3]).unwrap()), io: std::io::BufWriter::new(std::fs::File::create(&args[4]).unwrap()) };
    if let (Some(replay), true) = (args.get(5), tier != "witness") {
        // blocks: `U reset`, `U wat` lines, `U name` lines (kept as extra names), `P` lines
        let text = std::fs::read_to_string(replay).unwrap();
        let mut lib: Vec<Pkg> = Vec::new(); let mut extra = BTreeSet::new(); let mut progs = Vec::new();
        let mut flush = |lib: &mut Vec<Pkg>, extra: &mut BTreeSet<String>, progs: &mut Vec<(String, String, String)>, out: &mut Out| {
            if !lib.is_empty() { emit_block(out, lib, progs, extra); }
            lib.clear(); extra.clear(); progs.clear();
        };
        for line in text.lines() {
            let f: Vec<&str> = line.split(' ').collect();
            match (f[0], f.get(1).copied()) {
                ("U", Some("reset")) => flush(&mut lib, &mut extra, &mut progs, &mut out),
                ("U", Some("wat")) => { let name = dec(f[3]); let ver = if f[4] == "-" { None } else { Some(dec(f[4])) }; let wat = dec(f[6]);
                    lib.push(mk_pkg(&name, ver.as_deref(), wat, f[5] == "1", vec![], vec![])); }
                ("U", Some("name")) => { extra.insert(dec(f[3])); }
                ("P", _) => progs.push((f[1].to_string(), f[2].to_string(), dec(f[3]))),
                _ => {}
            }
        }
        flush(&mut lib, &mut extra, &mut progs, &mut out);
        return;
    }
    if tier == "witness" {
        // the fixed part of the library only; programs from a file, separated by lines `---`
        let mut fixed = Rng(u64::MAX);
        let lib = gen_library(&mut fixed);
        let text = std::fs::read_to_string(&args[5]).unwrap();
        let mut extra = BTreeSet::new();
        for n in IFACES.iter().chain(PLAIN.iter()).chain(EXPORT_NAMES.iter()) { extra.insert(n.to_string()); }
        let mut progs = Vec::new();
        for (i, src) in text.split("\n---\n").enumerate() {
            if src.trim().is_empty() { continue; }
            // every identifier-like or quoted word of a witness is a name the oracles must know
            for w in src.split(|c: char| !(c.is_ascii_alphanumeric() || "-:/@.".contains(c))) { if !w.is_empty() { extra.insert(w.trim_matches('.').to_string()); } }
            progs.push((format!("w{i}"), "witness".to_string(), format!("{}\n", src.trim_end())));
        }
        emit_block(&mut out, &lib, &progs, &extra);
        return;
    }
    let mut r = Rng::new(seed);
    let (nlibs, per) = if tier == "thorough" { (50, 100) } else { (6, 50) };
    let mut tag = 0usize;
    for _ in 0..nlibs {
        let lib = gen_library(&mut r);
        let mut progs = Vec::new();
        let mut extra = BTreeSet::new();
        for n in IFACES.iter().chain(PLAIN.iter()).chain(EXPORT_NAMES.iter()) { extra.insert(n.to_string()); }
        for n in ["nope", "zq", "dup", "zz"] { extra.insert(n.to_string()); }
        for _ in 0..per {
            let (p, locals) = gen_program(&lib, &mut r);
            names_of_program(&p, &mut extra);
            progs.push((format!("{tag}"), "none".to_string(), show_program(&p)));
            // one single-fault variant: try the classes in a random rotation until one applies
            let start = r.below(FAULTS.len() as u64) as usize;
            let mut done = false;
            for k in 0..FAULTS.len() {
                let fault = FAULTS[(start + k) % FAULTS.len()];
                if let Some(q) = inject(&p, &locals, fault, &mut r) {
                    names_of_program(&q, &mut extra);
                    progs.push((format!("{tag}f"), fault.to_string(), show_program(&q)));
                    done = true;
                    break;
                }
            }
            if !done { progs.push((format!("{tag}f"), "undefined-name".to_string(), format!("{}let zq = nope;\n", show_program(&p)))); }
            tag += 1;
        }
        emit_block(&mut out, &lib, &progs, &extra);
    }
}
