//! C09 correspondence: type aggregator (crates/wac-types/src/aggregator.rs).
//!
//! usage: c09 <quick|thorough> <seed> <cases_out> <impl_out> [replay_cases_in]
//!
//! A case is a MULTISET of contributors; the harness (and the OCaml driver driver/c09.ml, in the same order) runs
//! it under ALL permutations of the contributor order (lexicographic over indices), each time on a fresh
//! `TypeAggregator::default()` with one shared `SubtypeChecker`.
//!
//! The type universe is described once as small ASTs (`V`, `Func`, `Iface`, `World`, `K`); each contributor's
//! `Types` collection is lowered to a *build program* (text listing `add_*` calls) that both sides interpret.
//!
//! Program text (tokens separated by one space; definitions separated by ` ; `; `.` = empty program):
//!   D tuple n vt.. | D list vt | D fsl vt n | D option vt | D result ovt ovt | D variant n (name ovt).. |
//!   D record n (name vt).. | D flags n name.. | D enum n name.. | D alias vt | D stream ovt | D future ovt
//!   R name (- | rN | rN@iM)                         resource; optional alias source, optional owner interface
//!   F async n (name vt).. ovt
//!   I (id|-) nu (uname iN (ename|-)).. n (name kind)..
//!   W (id|-) nu (uname iN (ename|-)).. ni (name kind).. ne (name kind)..
//!   M ni (mod name extern).. ne (name extern)..
//!   vt = pN | dN | oN | bN     ovt = - | vt
//!   kind = tr:N tf:N tv:vt ti:N tw:N tm:N f:N i:N c:N m:N v:vt
//!   extern = func np ct.. nr ct.. | tag np ct.. nr ct.. | table ref init (max|-) t64 shared |
//!            memory m64 shared init (max|-) (psl|-) | global ct mut shared
//! Case line (tab separated):
//!   agg  k  prog_1 .. prog_k  m  contrib_1 .. contrib_m          contrib = "name tidx kind"
//! Output line (tab separated):
//!   required trees (`;` separated, contributor order)  TAB  one record per permutation (`|` separated)
//!   record = ok~imports~canon~verdicts~meta~canon2[~idem=..]   or   E<pos>.<contributor>:<class>   or   PANIC<pos>.<contributor>
//!     imports  = name=tree;name=tree..          (imports() order, unfolded structural trees)
//!     canon    = canonical_import_name of every contributor's name, `,` separated, contributor order
//!     verdicts = one char per contributor: 1 if a FRESH SubtypeChecker accepts merged <: required, 0 if not,
//!                - if the canonical name is not an import
//!     meta     = for every instance import: name:id[use>id>export+..], `,` separated
//!     canon2   = canonical_import_name of every canonical name (idempotence)
//!     idem     = first permutation only: after aggregating every contributor a second time (same collections, same
//!                order) 1 if imports()/trees/canonical names are unchanged, 0 if not, or the failure of the second round
use std::collections::{HashMap, HashSet};
use std::io::Write;
use std::panic::{catch_unwind, AssertUnwindSafe};
use wac_types::*;
use wacv::Rng;

// ------------------------------------------------------------------------------------------------ ASTs
#[derive(Clone, Debug, PartialEq)]
struct Res { name: String, alias: Option<Box<(Option<Iface>, Res)>> }
#[derive(Clone, Debug, PartialEq)]
enum V {
    P(u8), Own(Res), Borrow(Res), Tuple(Vec<V>), List(Box<V>), Opt(Box<V>), Result(Option<Box<V>>, Option<Box<V>>),
    Variant(Vec<(String, Option<V>)>), Record(Vec<(String, V)>), Flags(Vec<String>), Enum(Vec<String>), Alias(Box<V>),
}
#[derive(Clone, Debug, PartialEq)]
struct Func { is_async: bool, params: Vec<(String, V)>, result: Option<V> }
#[derive(Clone, Debug, PartialEq)]
struct Iface { id: Option<String>, uses: Vec<(String, Iface, Option<String>)>, exports: Vec<(String, K)> }
#[derive(Clone, Debug, PartialEq)]
struct WorldD { id: Option<String>, imports: Vec<(String, K)>, exports: Vec<(String, K)> }
#[derive(Clone, Debug, PartialEq)]
struct Mod { imports: Vec<(String, String, String)>, exports: Vec<(String, String)> }
#[derive(Clone, Debug, PartialEq)]
enum K { TRes(Res), TFunc(Func), TValue(V), TIface(Iface), Func(Func), Inst(Iface), Comp(WorldD), Mod(Mod), Value(V) }

const U8: V = V::P(0);
const U32: V = V::P(4);
const STRING: V = V::P(12);
fn s(x: &str) -> String { x.to_string() }
fn list(v: V) -> V { V::List(Box::new(v)) }
fn opt(v: V) -> V { V::Opt(Box::new(v)) }
fn alias(v: V) -> V { V::Alias(Box::new(v)) }
fn rec(f: &[(&str, V)]) -> V { V::Record(f.iter().map(|(n, v)| (s(n), v.clone())).collect()) }
fn names(f: &[&str]) -> Vec<String> { f.iter().map(|x| s(x)).collect() }
fn res(name: &str) -> Res { Res { name: s(name), alias: None } }
fn func(is_async: bool, p: &[(&str, V)], r: Option<V>) -> Func {
    Func { is_async, params: p.iter().map(|(n, v)| (s(n), v.clone())).collect(), result: r }
}
fn items(f: &[(&str, K)]) -> Vec<(String, K)> { f.iter().map(|(n, k)| (s(n), k.clone())).collect() }
fn iface(id: Option<&str>, e: &[(&str, K)]) -> Iface { Iface { id: id.map(s), uses: vec![], exports: items(e) } }
fn inst(e: &[(&str, K)]) -> K { K::Inst(iface(None, e)) }
fn ninst(id: Option<&str>, e: &[(&str, K)]) -> K { K::Inst(iface(id, e)) }
/// nested instance export: the export sets {a}, {a,b}, {b}, .. (subset / superset / incomparable / conflicting),
/// with or without an interface identifier
fn nested_variant(v: usize, id: Option<&str>) -> K {
    match v % 7 {
        0 => ninst(id, &[("a", f1())]), 1 => ninst(id, &[("a", f1()), ("b", f1())]), 2 => ninst(id, &[("b", f1())]),
        3 => ninst(id, &[("a", f2())]), 4 => ninst(id, &[]), 5 => ninst(id, &[("a", f1()), ("b", f2())]),
        _ => ninst(id, &[("a", f1()), ("m", ninst(id.map(|_| "dep:p/m@1.0.0"), &[("a", f1())]))]),
    }
}
fn f1() -> K { K::Func(func(false, &[], None)) }
fn f2() -> K { K::Func(func(false, &[("x", U8)], None)) }
fn f3() -> K { K::Func(func(false, &[], Some(U8))) }
fn f4() -> K { K::Func(func(false, &[], Some(STRING))) }

// ------------------------------------------------------------------------------------------------ lowering
#[derive(Default)]
struct Lower { defs: Vec<String>, n: HashMap<char, usize>, memo: HashMap<String, usize>, hashcons: bool }
impl Lower {
    fn add(&mut self, arena: char, text: String) -> usize {
        let key = format!("{arena} {text}");
        if self.hashcons { if let Some(i) = self.memo.get(&key) { return *i; } }
        let c = self.n.entry(arena).or_insert(0);
        let i = *c; *c += 1;
        self.defs.push(key.clone());
        self.memo.insert(key, i);
        i
    }
    fn res(&mut self, r: &Res) -> usize {
        match &r.alias {
            None => self.add('R', format!("{} -", r.name)),
            Some(b) => {
                let (owner, src) = &**b;
                let si = self.res(src);
                match owner {
                    None => self.add('R', format!("{} r{si}", r.name)),
                    Some(o) => { let oi = self.iface(o); self.add('R', format!("{} r{si}@i{oi}", r.name)) }
                }
            }
        }
    }
    fn ov(&mut self, v: &Option<Box<V>>) -> String { match v { None => "-".into(), Some(v) => self.v(v) } }
    fn v(&mut self, v: &V) -> String {
        let t = match v {
            V::P(p) => return format!("p{p}"),
            V::Own(r) => return format!("o{}", self.res(r)),
            V::Borrow(r) => return format!("b{}", self.res(r)),
            V::Tuple(l) => { let x: Vec<String> = l.iter().map(|e| self.v(e)).collect(); format!("tuple {} {}", x.len(), x.join(" ")) }
            V::List(e) => format!("list {}", self.v(e)),
            V::Opt(e) => format!("option {}", self.v(e)),
            V::Result(o, e) => { let a = self.ov(o); let b = self.ov(e); format!("result {a} {b}") }
            V::Variant(c) => {
                let x: Vec<String> = c.iter().map(|(n, p)| { let p = p.clone().map(Box::new); format!("{n} {}", self.ov(&p)) }).collect();
                format!("variant {} {}", x.len(), x.join(" "))
            }
            V::Record(f) => { let x: Vec<String> = f.iter().map(|(n, e)| format!("{n} {}", self.v(e))).collect(); format!("record {} {}", x.len(), x.join(" ")) }
            V::Flags(l) => format!("flags {} {}", l.len(), l.join(" ")),
            V::Enum(l) => format!("enum {} {}", l.len(), l.join(" ")),
            V::Alias(e) => format!("alias {}", self.v(e)),
        };
        format!("d{}", self.add('D', t.trim_end().to_string()))
    }
    fn func(&mut self, f: &Func) -> usize {
        let ps: Vec<String> = f.params.iter().map(|(n, v)| format!("{n} {}", self.v(v))).collect();
        let r = match &f.result { None => "-".to_string(), Some(v) => self.v(v) };
        let t = format!("{} {} {} {r}", f.is_async as u8, ps.len(), ps.join(" "));
        self.add('F', t.split_whitespace().collect::<Vec<_>>().join(" "))
    }
    fn itemlist(&mut self, l: &[(String, K)]) -> String {
        let x: Vec<String> = l.iter().map(|(n, k)| format!("{n} {}", self.k(k))).collect();
        format!("{} {}", x.len(), x.join(" ")).trim_end().to_string()
    }
    fn iface(&mut self, i: &Iface) -> usize {
        let us: Vec<String> = i.uses.iter().map(|(n, d, e)| { let di = self.iface(d); format!("{n} i{di} {}", e.clone().unwrap_or(s("-"))) }).collect();
        let u = format!("{} {}", us.len(), us.join(" ")).trim_end().to_string();
        let e = self.itemlist(&i.exports);
        self.add('I', format!("{} {u} {e}", i.id.clone().unwrap_or(s("-"))))
    }
    fn world(&mut self, w: &WorldD) -> usize {
        let a = self.itemlist(&w.imports); let b = self.itemlist(&w.exports);
        self.add('W', format!("{} 0 {a} {b}", w.id.clone().unwrap_or(s("-"))))
    }
    fn module(&mut self, m: &Mod) -> usize {
        let i: Vec<String> = m.imports.iter().map(|(a, b, x)| format!("{a} {b} {x}")).collect();
        let e: Vec<String> = m.exports.iter().map(|(a, x)| format!("{a} {x}")).collect();
        let t = format!("{} {} {} {}", i.len(), i.join(" "), e.len(), e.join(" "));
        self.add('M', t.split_whitespace().collect::<Vec<_>>().join(" "))
    }
    fn k(&mut self, k: &K) -> String {
        match k {
            K::TRes(r) => format!("tr:{}", self.res(r)),
            K::TFunc(f) => format!("tf:{}", self.func(f)),
            K::TValue(v) => format!("tv:{}", self.v(v)),
            K::TIface(e) => format!("ti:{}", self.iface(e)),
            K::Func(f) => format!("f:{}", self.func(f)),
            K::Inst(e) => format!("i:{}", self.iface(e)),
            K::Comp(w) => format!("c:{}", self.world(w)),
            K::Mod(m) => format!("m:{}", self.module(m)),
            K::Value(v) => format!("v:{}", self.v(v)),
        }
    }
    fn program(&self) -> String { if self.defs.is_empty() { ".".into() } else { self.defs.join(" ; ") } }
}

// ------------------------------------------------------------------------------------------------ interpreter: text -> Types
#[derive(Default)]
struct Built { types: Types, d: Vec<DefinedTypeId>, r: Vec<ResourceId>, f: Vec<FuncTypeId>, i: Vec<InterfaceId>, w: Vec<WorldId>, m: Vec<ModuleTypeId> }
struct Toks<'a> { t: Vec<&'a str>, p: usize }
impl<'a> Toks<'a> {
    fn next(&mut self) -> &'a str { let x = self.t[self.p]; self.p += 1; x }
    fn num(&mut self) -> u64 { self.next().parse().unwrap() }
    fn flag(&mut self) -> bool { self.next() == "1" }
    fn onum(&mut self) -> Option<u64> { let x = self.next(); if x == "-" { None } else { Some(x.parse().unwrap()) } }
}
const PRIMS: [PrimitiveType; 14] = [PrimitiveType::U8, PrimitiveType::S8, PrimitiveType::U16, PrimitiveType::S16, PrimitiveType::U32,
    PrimitiveType::S32, PrimitiveType::U64, PrimitiveType::S64, PrimitiveType::F32, PrimitiveType::F64, PrimitiveType::Char,
    PrimitiveType::Bool, PrimitiveType::String, PrimitiveType::ErrorContext];
const PRIM_NAMES: [&str; 14] = ["u8", "s8", "u16", "s16", "u32", "s32", "u64", "s64", "f32", "f64", "char", "bool", "string", "error-context"];
impl Built {
    fn vt(&self, x: &str) -> ValueType {
        let n: usize = x[1..].parse().unwrap();
        match &x[..1] { "p" => ValueType::Primitive(PRIMS[n]), "d" => ValueType::Defined(self.d[n]), "o" => ValueType::Own(self.r[n]),
                        "b" => ValueType::Borrow(self.r[n]), _ => panic!("bad vt {x}") }
    }
    fn ovt(&self, x: &str) -> Option<ValueType> { if x == "-" { None } else { Some(self.vt(x)) } }
    fn kind(&self, x: &str) -> ItemKind {
        let (tag, rest) = x.split_once(':').unwrap();
        let n = || -> usize { rest.parse().unwrap() };
        match tag {
            "tr" => ItemKind::Type(Type::Resource(self.r[n()])), "tf" => ItemKind::Type(Type::Func(self.f[n()])),
            "tv" => ItemKind::Type(Type::Value(self.vt(rest))), "ti" => ItemKind::Type(Type::Interface(self.i[n()])),
            "tw" => ItemKind::Type(Type::World(self.w[n()])), "tm" => ItemKind::Type(Type::Module(self.m[n()])),
            "f" => ItemKind::Func(self.f[n()]), "i" => ItemKind::Instance(self.i[n()]), "c" => ItemKind::Component(self.w[n()]),
            "m" => ItemKind::Module(self.m[n()]), "v" => ItemKind::Value(self.vt(rest)), _ => panic!("bad kind {x}"),
        }
    }
    fn items(&self, t: &mut Toks) -> indexmap::IndexMap<String, ItemKind> {
        let n = t.num(); let mut m = indexmap::IndexMap::new();
        for _ in 0..n { let k = t.next().to_string(); let v = self.kind(t.next()); m.insert(k, v); }
        m
    }
    fn uses(&self, t: &mut Toks) -> indexmap::IndexMap<String, UsedType> {
        let n = t.num(); let mut m = indexmap::IndexMap::new();
        for _ in 0..n {
            let k = t.next().to_string(); let i = t.next(); let e = t.next();
            m.insert(k, UsedType { interface: self.i[i[1..].parse::<usize>().unwrap()], name: if e == "-" { None } else { Some(e.to_string()) } });
        }
        m
    }
}
fn heap(x: &str) -> HeapType {
    match x { "func" => HeapType::Func, "extern" => HeapType::Extern, "any" => HeapType::Any, "none" => HeapType::None,
              "noextern" => HeapType::NoExtern, "nofunc" => HeapType::NoFunc, "eq" => HeapType::Eq, "struct" => HeapType::Struct,
              "array" => HeapType::Array, "i31" => HeapType::I31, "exn" => HeapType::Exn, "noexn" => HeapType::NoExn,
              "cont" => HeapType::Cont, "nocont" => HeapType::NoCont, c => HeapType::Concrete(c[1..].parse().unwrap()) }
}
fn heap_name(h: HeapType) -> String {
    match h { HeapType::Func => "func".into(), HeapType::Extern => "extern".into(), HeapType::Any => "any".into(), HeapType::None => "none".into(),
              HeapType::NoExtern => "noextern".into(), HeapType::NoFunc => "nofunc".into(), HeapType::Eq => "eq".into(), HeapType::Struct => "struct".into(),
              HeapType::Array => "array".into(), HeapType::I31 => "i31".into(), HeapType::Exn => "exn".into(), HeapType::NoExn => "noexn".into(),
              HeapType::Cont => "cont".into(), HeapType::NoCont => "nocont".into(), HeapType::Concrete(c) => format!("c{c}") }
}
fn reft(x: &str) -> CoreRefType { let (n, h) = x[1..].split_once('.').unwrap(); CoreRefType { nullable: n == "1", heap_type: heap(h) } }
fn coret(x: &str) -> CoreType {
    match x { "i32" => CoreType::I32, "i64" => CoreType::I64, "f32" => CoreType::F32, "f64" => CoreType::F64, "v128" => CoreType::V128, r => CoreType::Ref(reft(r)) }
}
fn corefunc(t: &mut Toks) -> CoreFuncType {
    let np = t.num(); let params = (0..np).map(|_| coret(t.next())).collect();
    let nr = t.num(); let results = (0..nr).map(|_| coret(t.next())).collect();
    CoreFuncType { params, results }
}
fn coreextern(t: &mut Toks) -> CoreExtern {
    match t.next() {
        "func" => CoreExtern::Func(corefunc(t)), "tag" => CoreExtern::Tag(corefunc(t)),
        "table" => { let element_type = reft(t.next()); let initial = t.num(); let maximum = t.onum(); let table64 = t.flag(); let shared = t.flag();
                     CoreExtern::Table { element_type, initial, maximum, table64, shared } }
        "memory" => { let memory64 = t.flag(); let shared = t.flag(); let initial = t.num(); let maximum = t.onum(); let p = t.onum();
                      CoreExtern::Memory { memory64, shared, initial, maximum, page_size_log2: p.map(|x| x as u32) } }
        "global" => { let val_type = coret(t.next()); let mutable = t.flag(); let shared = t.flag(); CoreExtern::Global { val_type, mutable, shared } }
        x => panic!("bad extern {x}"),
    }
}
fn build(prog: &str) -> Built {
    let mut b = Built::default();
    if prog.trim() == "." { return b; }
    for def in prog.split(" ; ") {
        let mut t = Toks { t: def.split(' ').filter(|x| !x.is_empty()).collect(), p: 0 };
        match t.next() {
            "D" => {
                let ty = match t.next() {
                    "tuple" => { let n = t.num(); DefinedType::Tuple((0..n).map(|_| b.vt(t.next())).collect()) }
                    "list" => DefinedType::List(b.vt(t.next())),
                    "fsl" => { let v = b.vt(t.next()); DefinedType::FixedSizeList(v, t.num() as u32) }
                    "option" => DefinedType::Option(b.vt(t.next())),
                    "result" => { let ok = b.ovt(t.next()); let err = b.ovt(t.next()); DefinedType::Result { ok, err } }
                    "variant" => { let n = t.num(); let mut cases = indexmap::IndexMap::new();
                                   for _ in 0..n { let k = t.next().to_string(); cases.insert(k, b.ovt(t.next())); } DefinedType::Variant(Variant { cases }) }
                    "record" => { let n = t.num(); let mut fields = indexmap::IndexMap::new();
                                  for _ in 0..n { let k = t.next().to_string(); fields.insert(k, b.vt(t.next())); } DefinedType::Record(Record { fields }) }
                    "flags" => { let n = t.num(); DefinedType::Flags(Flags((0..n).map(|_| t.next().to_string()).collect())) }
                    "enum" => { let n = t.num(); DefinedType::Enum(Enum((0..n).map(|_| t.next().to_string()).collect())) }
                    "alias" => DefinedType::Alias(b.vt(t.next())),
                    "stream" => DefinedType::Stream(b.ovt(t.next())),
                    "future" => DefinedType::Future(b.ovt(t.next())),
                    x => panic!("bad defined {x}"),
                };
                let id = b.types.add_defined_type(ty); b.d.push(id);
            }
            "R" => {
                let name = t.next().to_string(); let a = t.next();
                let alias = if a == "-" { None } else {
                    let (src, owner) = match a.split_once('@') { Some((x, o)) => (x, Some(o)), None => (a, None) };
                    Some(ResourceAlias { owner: owner.map(|o| b.i[o[1..].parse::<usize>().unwrap()]), source: b.r[src[1..].parse::<usize>().unwrap()] })
                };
                let id = b.types.add_resource(Resource { name, alias }); b.r.push(id);
            }
            "F" => {
                let is_async = t.flag(); let n = t.num(); let mut params = indexmap::IndexMap::new();
                for _ in 0..n { let k = t.next().to_string(); params.insert(k, b.vt(t.next())); }
                let result = b.ovt(t.next());
                let id = b.types.add_func_type(FuncType { params, result, is_async }); b.f.push(id);
            }
            "I" => { let idn = t.next(); let uses = b.uses(&mut t); let exports = b.items(&mut t);
                     let id = b.types.add_interface(Interface { id: if idn == "-" { None } else { Some(idn.to_string()) }, uses, exports }); b.i.push(id); }
            "W" => { let idn = t.next(); let uses = b.uses(&mut t); let imports = b.items(&mut t); let exports = b.items(&mut t);
                     let id = b.types.add_world(World { id: if idn == "-" { None } else { Some(idn.to_string()) }, uses, imports, exports }); b.w.push(id); }
            "M" => {
                let ni = t.num(); let mut imports = indexmap::IndexMap::new();
                for _ in 0..ni { let a = t.next().to_string(); let n = t.next().to_string(); imports.insert((a, n), coreextern(&mut t)); }
                let ne = t.num(); let mut exports = indexmap::IndexMap::new();
                for _ in 0..ne { let n = t.next().to_string(); exports.insert(n, coreextern(&mut t)); }
                let id = b.types.add_module_type(ModuleType { imports, exports }); b.m.push(id);
            }
            x => panic!("bad def {x}"),
        }
    }
    b
}

// ------------------------------------------------------------------------------------------------ structural printer
// Mirrors Types.v `unfold`: aliases disappear, identifiers are replaced by what they denote, a resource is the
// name of its alias-resolved definition.
fn res_name(t: &Types, mut id: ResourceId) -> String {
    loop { match t[id].alias { Some(a) => id = a.source, None => return t[id].name.clone() } }
}
fn p_ov(t: &Types, v: &Option<ValueType>) -> String { match v { None => "_".into(), Some(v) => p_v(t, *v) } }
fn p_v(t: &Types, v: ValueType) -> String {
    match v {
        ValueType::Primitive(p) => PRIM_NAMES[PRIMS.iter().position(|x| *x == p).unwrap()].to_string(),
        ValueType::Borrow(r) => format!("borrow<{}>", res_name(t, r)),
        ValueType::Own(r) => format!("own<{}>", res_name(t, r)),
        ValueType::Defined(d) => match &t[d] {
            DefinedType::Tuple(l) => format!("tuple<{}>", l.iter().map(|x| p_v(t, *x)).collect::<Vec<_>>().join(",")),
            DefinedType::List(x) => format!("list<{}>", p_v(t, *x)),
            DefinedType::FixedSizeList(x, n) => format!("list<{},{n}>", p_v(t, *x)),
            DefinedType::Option(x) => format!("option<{}>", p_v(t, *x)),
            DefinedType::Result { ok, err } => format!("result<{}/{}>", p_ov(t, ok), p_ov(t, err)),
            DefinedType::Variant(v) => format!("variant{{{}}}", v.cases.iter().map(|(n, x)| format!("{n}:{}", p_ov(t, x))).collect::<Vec<_>>().join(",")),
            DefinedType::Record(r) => format!("record{{{}}}", r.fields.iter().map(|(n, x)| format!("{n}:{}", p_v(t, *x))).collect::<Vec<_>>().join(",")),
            DefinedType::Flags(f) => format!("flags{{{}}}", f.0.iter().cloned().collect::<Vec<_>>().join(",")),
            DefinedType::Enum(f) => format!("enum{{{}}}", f.0.iter().cloned().collect::<Vec<_>>().join(",")),
            DefinedType::Alias(x) => p_v(t, *x),
            DefinedType::Stream(x) => format!("stream<{}>", p_ov(t, x)),
            DefinedType::Future(x) => format!("future<{}>", p_ov(t, x)),
        },
    }
}
fn p_func(t: &Types, f: FuncTypeId) -> String {
    let f = &t[f];
    format!("({}/{}/{})", f.is_async as u8, f.params.iter().map(|(n, x)| format!("{n}:{}", p_v(t, *x))).collect::<Vec<_>>().join(","), p_ov(t, &f.result))
}
fn p_ct(c: &CoreType) -> String {
    match c { CoreType::I32 => "i32".into(), CoreType::I64 => "i64".into(), CoreType::F32 => "f32".into(), CoreType::F64 => "f64".into(),
              CoreType::V128 => "v128".into(), CoreType::Ref(r) => p_ref(r) }
}
fn p_ref(r: &CoreRefType) -> String { format!("r{}.{}", r.nullable as u8, heap_name(r.heap_type)) }
fn p_cf(f: &CoreFuncType) -> String {
    format!("[{}]>[{}]", f.params.iter().map(p_ct).collect::<Vec<_>>().join(","), f.results.iter().map(p_ct).collect::<Vec<_>>().join(","))
}
fn p_on(x: &Option<u64>) -> String { match x { None => "_".into(), Some(n) => n.to_string() } }
fn p_extern(e: &CoreExtern) -> String {
    match e {
        CoreExtern::Func(f) => format!("func{}", p_cf(f)), CoreExtern::Tag(f) => format!("tag{}", p_cf(f)),
        CoreExtern::Table { element_type, initial, maximum, table64, shared } =>
            format!("table({},{initial},{},{},{})", p_ref(element_type), p_on(maximum), *table64 as u8, *shared as u8),
        CoreExtern::Memory { memory64, shared, initial, maximum, page_size_log2 } =>
            format!("memory({},{},{initial},{},{})", *memory64 as u8, *shared as u8, p_on(maximum), p_on(&page_size_log2.map(|x| x as u64))),
        CoreExtern::Global { val_type, mutable, shared } => format!("global({},{},{})", p_ct(val_type), *mutable as u8, *shared as u8),
    }
}
fn p_mod(t: &Types, m: ModuleTypeId) -> String {
    let m = &t[m];
    format!("{{{}/{}}}", m.imports.iter().map(|((a, b), e)| format!("{a}.{b}={}", p_extern(e))).collect::<Vec<_>>().join(","),
            m.exports.iter().map(|(a, e)| format!("{a}={}", p_extern(e))).collect::<Vec<_>>().join(","))
}
fn p_items(t: &Types, l: &indexmap::IndexMap<String, ItemKind>) -> String {
    l.iter().map(|(n, k)| format!("{n}={}", p_kind(t, *k))).collect::<Vec<_>>().join(",")
}
fn p_inst(t: &Types, i: InterfaceId) -> String { format!("{{{}}}", p_items(t, &t[i].exports)) }
fn p_comp(t: &Types, w: WorldId) -> String { format!("{{{}/{}}}", p_items(t, &t[w].imports), p_items(t, &t[w].exports)) }
fn p_kind(t: &Types, k: ItemKind) -> String {
    match k {
        ItemKind::Func(f) => format!("func{}", p_func(t, f)),
        ItemKind::Instance(i) => format!("inst{}", p_inst(t, i)),
        ItemKind::Component(w) => format!("comp{}", p_comp(t, w)),
        ItemKind::Module(m) => format!("mod{}", p_mod(t, m)),
        ItemKind::Value(v) => format!("value({})", p_v(t, v)),
        ItemKind::Type(Type::Resource(r)) => format!("resource({})", res_name(t, r)),
        ItemKind::Type(Type::Func(f)) => format!("type-func{}", p_func(t, f)),
        ItemKind::Type(Type::Value(v)) => format!("type({})", p_v(t, v)),
        ItemKind::Type(Type::Interface(i)) => format!("type-inst{}", p_inst(t, i)),
        ItemKind::Type(Type::World(w)) => format!("type-comp{}", p_comp(t, w)),
        ItemKind::Type(Type::Module(m)) => format!("type-mod{}", p_mod(t, m)),
    }
}
fn p_meta(t: &Types, name: &str, k: ItemKind) -> Option<String> {
    let i = match k { ItemKind::Instance(i) | ItemKind::Type(Type::Interface(i)) => i, _ => return None };
    let x = &t[i];
    let us: Vec<String> = x.uses.iter().map(|(n, u)| format!("{n}>{}>{}", t[u.interface].id.clone().unwrap_or(s("-")), u.name.clone().unwrap_or(s("-")))).collect();
    Some(format!("{name}:{}[{}]", x.id.clone().unwrap_or(s("-")), us.join("+")))
}

// ------------------------------------------------------------------------------------------------ observation
/// Class = the innermost aggregator-level message of the error chain (contexts "failed to merge interface" are transparent).
fn classify(e: &anyhow::Error) -> &'static str {
    let msgs: Vec<String> = e.chain().map(|c| c.to_string()).collect();
    for m in msgs.iter().rev() {
        if m.contains(" cannot be merged with ") { return "cannot-merge"; }
        if m.starts_with("mismatched type for export `") { return "mismatch-export"; }
        if m.starts_with("mismatched type for import `") { return "mismatch-import"; }
        if m.starts_with("cannot merge used type `") {
            if m.ends_with("as the export names are mismatched") { return "used-name"; }
            if m.contains(" as it is expected to be from interface `") { return "used-iface"; }
        }
        if m == "used type has no interface identifier" { return "used-noid"; }
        if m.starts_with("used type `") && m.ends_with("is from an interface without an identifier") { return "used-noid-remap"; }
    }
    "subtype"
}

struct Case { progs: Vec<String>, contribs: Vec<(String, usize, String)> }
fn parse_case(line: &str) -> Option<Case> {
    let f: Vec<&str> = line.split('\t').collect();
    if f.first() != Some(&"agg") { return None; }
    let k: usize = f.get(1)?.parse().ok()?;
    let progs: Vec<String> = f.get(2..2 + k)?.iter().map(|x| x.to_string()).collect();
    let m: usize = f.get(2 + k)?.parse().ok()?;
    let mut contribs = Vec::new();
    for c in f.get(3 + k..3 + k + m)? {
        let p: Vec<&str> = c.split(' ').collect();
        contribs.push((p[0].to_string(), p[1].parse().ok()?, p[2].to_string()));
    }
    Some(Case { progs, contribs })
}
fn case_line(c: &Case) -> String {
    let cs: Vec<String> = c.contribs.iter().map(|(n, t, k)| format!("{n} {t} {k}")).collect();
    format!("agg\t{}\t{}\t{}\t{}", c.progs.len(), c.progs.join("\t"), c.contribs.len(), cs.join("\t"))
}
fn perms(n: usize) -> Vec<Vec<usize>> {
    fn go(n: usize, cur: &mut Vec<usize>, used: &mut Vec<bool>, out: &mut Vec<Vec<usize>>) {
        if cur.len() == n { out.push(cur.clone()); return; }
        for i in 0..n { if !used[i] { used[i] = true; cur.push(i); go(n, cur, used, out); cur.pop(); used[i] = false; } }
    }
    let mut out = Vec::new(); go(n, &mut Vec::new(), &mut vec![false; n], &mut out); out
}

fn run_perm(built: &[Built], kinds: &[ItemKind], case: &Case, order: &[usize], probe_idem: bool) -> String {
    let mut cache = HashSet::new();
    let mut checker = SubtypeChecker::new(&mut cache);
    let mut agg = TypeAggregator::default();
    for (pos, &ci) in order.iter().enumerate() {
        let (name, ti, _) = &case.contribs[ci];
        let r = catch_unwind(AssertUnwindSafe(|| agg.aggregate(name, &built[*ti].types, kinds[ci], &mut checker)));
        match r {
            Ok(Ok(a)) => agg = a,
            Ok(Err(e)) => return format!("E{pos}.{ci}:{}", classify(&e)),
            Err(_) => return format!("PANIC{pos}.{ci}"),
        }
    }
    let imports: Vec<(String, ItemKind)> = agg.imports().map(|(n, k)| (n.to_string(), k)).collect();
    let imp: Vec<String> = imports.iter().map(|(n, k)| format!("{n}={}", p_kind(agg.types(), *k))).collect();
    let canon: Vec<String> = case.contribs.iter().map(|(n, _, _)| agg.canonical_import_name(n).to_string()).collect();
    let canon2: Vec<String> = canon.iter().map(|n| agg.canonical_import_name(n).to_string()).collect();
    let mut verdicts = String::new();
    for (ci, (_, ti, _)) in case.contribs.iter().enumerate() {
        match imports.iter().find(|(n, _)| *n == canon[ci]) {
            None => verdicts.push('-'),
            Some((_, merged)) => {
                let mut c2 = HashSet::new();
                let mut fresh = SubtypeChecker::new(&mut c2);
                let ok = catch_unwind(AssertUnwindSafe(|| fresh.is_subtype(*merged, agg.types(), kinds[ci], &built[*ti].types).is_ok()));
                verdicts.push(match ok { Ok(true) => '1', Ok(false) => '0', Err(_) => 'P' });
            }
        }
    }
    let meta: Vec<String> = imports.iter().filter_map(|(n, k)| p_meta(agg.types(), n, *k)).collect();
    // idempotence probe (first permutation only): aggregate every contributor once more, observe again
    let mut idem = String::new();
    if probe_idem {
        let snap = |a: &TypeAggregator| -> String {
            let i: Vec<String> = a.imports().map(|(n, k)| format!("{n}={}", p_kind(a.types(), k))).collect();
            let c: Vec<String> = case.contribs.iter().map(|(n, _, _)| a.canonical_import_name(n).to_string()).collect();
            format!("{}~{}", i.join(";"), c.join(","))
        };
        let before = snap(&agg);
        let mut a2 = Some(agg);
        let mut out = String::from("1");
        for (pos, &ci) in order.iter().enumerate() {
            let (name, ti, _) = &case.contribs[ci];
            let a = a2.take().unwrap();
            match catch_unwind(AssertUnwindSafe(|| a.aggregate(name, &built[*ti].types, kinds[ci], &mut checker))) {
                Ok(Ok(a)) => a2 = Some(a),
                Ok(Err(e)) => { out = format!("E{pos}.{ci}:{}", classify(&e)); break; }
                Err(_) => { out = format!("PANIC{pos}.{ci}"); break; }
            }
        }
        if let Some(a) = &a2 { if snap(a) != before { out = s("0"); } }
        idem = format!("~idem={out}");
    }
    format!("ok~{}~{}~{verdicts}~{}~{}{idem}", imp.join(";"), canon.join(","), meta.join(","), canon2.join(","))
}

fn run_case(line: &str) -> String {
    let case = match parse_case(line) { Some(c) => c, None => return "BAD-LINE".into() };
    let built: Vec<Built> = case.progs.iter().map(|p| build(p)).collect();
    let kinds: Vec<ItemKind> = case.contribs.iter().map(|(_, ti, k)| built[*ti].kind(k)).collect();
    let req: Vec<String> = case.contribs.iter().enumerate().map(|(ci, (_, ti, _))| p_kind(&built[*ti].types, kinds[ci])).collect();
    let recs: Vec<String> = perms(case.contribs.len()).iter().enumerate().map(|(pi, o)| run_perm(&built, &kinds, &case, o, pi == 0)).collect();
    format!("{}\t{}", req.join(";"), recs.join("|"))
}

// ------------------------------------------------------------------------------------------------ case generation
/// One contributor before lowering: import name, index of the `Types` it is built in, requirement.
struct Contrib { name: String, tidx: usize, k: K }
fn lower_case(cs: &[Contrib], hashcons: &[bool]) -> Case {
    let nt = cs.iter().map(|c| c.tidx).max().unwrap() + 1;
    let mut ls: Vec<Lower> = (0..nt).map(|i| Lower { hashcons: hashcons[i % hashcons.len()], ..Default::default() }).collect();
    let mut contribs = Vec::new();
    for c in cs { let kt = ls[c.tidx].k(&c.k); contribs.push((c.name.clone(), c.tidx, kt)); }
    Case { progs: ls.iter().map(|l| l.program()).collect(), contribs }
}
fn own_types(v: Vec<(&str, K)>) -> Vec<Contrib> {
    v.into_iter().enumerate().map(|(i, (n, k))| Contrib { name: s(n), tidx: i, k }).collect()
}
fn named(name: &str, e: &[(&str, K)]) -> K { K::Inst(iface(if name.contains(':') { Some(name) } else { None }, e)) }
fn dep_iface(id: &str, rich: bool) -> Iface {
    let t = K::TValue(rec(&[("a", U8)]));
    if rich { iface(Some(id), &[("t", t), ("u", K::TValue(U32))]) } else { iface(Some(id), &[("t", t)]) }
}
/// interface `name` that `use`s type `t` of the dependency `dep` and has a function over it
fn using(name: &str, dep: &Iface, as_name: Option<&str>, extra: &[(&str, K)]) -> K {
    let t = rec(&[("a", U8)]);
    let local = as_name.unwrap_or("t");
    let mut e = vec![(s(local), K::TValue(t.clone())), (s("get"), K::Func(func(false, &[], Some(t))))];
    e.extend(items(extra));
    K::Inst(Iface { id: if name.contains(':') { Some(s(name)) } else { None },
                    uses: vec![(s(local), dep.clone(), as_name.map(|_| s("t")))], exports: e })
}
/// interface that `use`s a RESOURCE of the dependency: alias with owner
fn using_res(name: &str, dep: &Iface) -> K {
    let r = Res { name: s("r"), alias: Some(Box::new((Some(dep.clone()), res("r")))) };
    K::Inst(Iface { id: if name.contains(':') { Some(s(name)) } else { None }, uses: vec![(s("r"), dep.clone(), None)],
                    exports: vec![(s("r"), K::TRes(r.clone())), (s("mk"), K::Func(func(false, &[], Some(V::Own(r)))))] })
}

/// Hand-written multisets: the upstream unit tests' scenarios, boundary shapes, and regression witnesses.
fn fixed_cases() -> Vec<Case> {
    let hc = [true];
    let mut out = Vec::new();
    let mut add = |cs: Vec<Contrib>| out.push(lower_case(&cs, &hc));
    let v = |n: &str| format!("a:b/c@{n}");
    // upstream tests
    add(own_types(vec![(&v("0.2.0"), named(&v("0.2.0"), &[("foo", f1())])), (&v("0.2.1"), named(&v("0.2.1"), &[("foo", f1())]))]));
    add(own_types(vec![(&v("0.2.0"), named(&v("0.2.0"), &[("foo", f1())])), (&v("0.3.0"), named(&v("0.3.0"), &[("foo", f1())]))]));
    add(own_types(vec![(&v("1.0.0"), named(&v("1.0.0"), &[("foo", f1())])), (&v("1.1.0"), named(&v("1.1.0"), &[("foo", f1())]))]));
    { let k = named(&v("0.2.0"), &[("foo", f1())]);
      add(vec![Contrib { name: v("0.2.0"), tidx: 0, k: k.clone() }, Contrib { name: v("0.2.0"), tidx: 0, k }]); }
    let d020 = dep_iface("dep:p/types@0.2.0", false); let d021 = dep_iface("dep:p/types@0.2.1", false);
    let d021r = dep_iface("dep:p/types@0.2.1", true); let d030 = dep_iface("dep:p/types@0.3.0", false);
    add(own_types(vec![("my:p/i@1.0.0", using("my:p/i@1.0.0", &d020, None, &[])), ("my:p/i@1.0.0", using("my:p/i@1.0.0", &d021, None, &[]))]));
    add(own_types(vec![("my:p/i@1.0.0", using("my:p/i@1.0.0", &d020, None, &[])), ("my:p/i@1.0.0", using("my:p/i@1.0.0", &d030, None, &[]))]));
    add(own_types(vec![("my:p/i@1.0.0", using("my:p/i@1.0.0", &d020, None, &[])), ("my:p/i@1.0.0", using("my:p/i@1.0.0", &d020, Some("tt"), &[]))]));
    add(own_types(vec![("dep:p/types@0.2.0", K::Inst(d020.clone())),
                       ("wrap:p/w@1.0.0", named("wrap:p/w@1.0.0", &[("dep", K::Inst(d021r.clone()))]))]));
    // three versions on one track, every arrival order
    add(own_types(vec![(&v("0.2.1"), named(&v("0.2.1"), &[("f", f1())])), (&v("0.2.0"), named(&v("0.2.0"), &[("g", f1())])),
                       (&v("0.2.3"), named(&v("0.2.3"), &[("h", f1())]))]));
    add(own_types(vec![(&v("1.0.0"), named(&v("1.0.0"), &[("f", f1())])), (&v("1.2.3"), named(&v("1.2.3"), &[("f", f1())])),
                       (&v("1.1.0"), named(&v("1.1.0"), &[("g", f2())])), (&v("2.0.0"), named(&v("2.0.0"), &[("f", f2())]))]));
    // build metadata / pre-release / 0.0.x / unversioned
    add(own_types(vec![(&v("1.0.0+b1"), named(&v("1.0.0+b1"), &[("f", f1())])), (&v("1.0.0+b2"), named(&v("1.0.0+b2"), &[("g", f1())])),
                       (&v("1.0.0"), named(&v("1.0.0"), &[("h", f1())]))]));
    add(own_types(vec![(&v("1.0.0-rc.1"), named(&v("1.0.0-rc.1"), &[("f", f1())])), (&v("1.0.0"), named(&v("1.0.0"), &[("f", f2())])),
                       (&v("0.0.1"), named(&v("0.0.1"), &[("f", f3())])), (&v("0.0.2"), named(&v("0.0.2"), &[("f", f4())])),
                       ("a:b/c", named("a:b/c", &[("f", f1())]))]));
    // conflicts
    add(own_types(vec![("foo", inst(&[("f", f1())])), ("foo", inst(&[("f", f2())]))]));
    add(own_types(vec![("foo", inst(&[("f", f1())])), ("foo", f1())]));
    add(own_types(vec![("foo", f1()), ("foo", f1()), ("foo", f3())]));
    add(own_types(vec![("foo", K::Value(U8)), ("foo", K::Value(alias(U8))), ("bar", K::Value(STRING))]));
    // three-way union
    add(own_types(vec![("foo", inst(&[("f", f1())])), ("foo", inst(&[("g", f2())])), ("foo", inst(&[("h", f3()), ("f", f1())]))]));
    // nested instances: equal, wider, disjoint, conflicting
    add(own_types(vec![("foo", inst(&[("n", inst(&[("a", f1())]))])), ("foo", inst(&[("n", inst(&[("a", f1())]))]))]));
    add(own_types(vec![("foo", inst(&[("n", inst(&[("a", f1())]))])), ("foo", inst(&[("n", inst(&[("a", f1()), ("b", f1())]))]))]));
    add(own_types(vec![("foo", inst(&[("n", inst(&[("a", f1())]))])), ("foo", inst(&[("n", inst(&[("b", f1())]))]))]));
    add(own_types(vec![("foo", inst(&[("n", inst(&[("a", f1())]))])), ("foo", inst(&[("n", inst(&[("a", f1()), ("b", f1())]))])),
                       ("foo", inst(&[("n", inst(&[("a", f1()), ("b", f2())]))]))]));
    // the same with NAMED nested interfaces: identifier equal to the export name, different from it, versioned
    // (same version, compatible versions, incompatible versions), and named on one side only
    for (ia, ib) in [(Some("n"), Some("n")), (Some("dep:p/n"), Some("dep:p/n")), (Some("dep:p/n@0.2.0"), Some("dep:p/n@0.2.0")),
                     (Some("dep:p/n@0.2.0"), Some("dep:p/n@0.2.1")), (Some("dep:p/n@0.2.0"), Some("dep:p/n@0.3.0")),
                     (Some("dep:p/n@0.2.0"), None), (Some("n"), Some("other:p/n"))] {
        for (va, vb) in [(0usize, 1usize), (0, 2), (0, 0), (1, 5)] {
            add(own_types(vec![("foo", inst(&[("n", nested_variant(va, ia))])), ("foo", inst(&[("n", nested_variant(vb, ib))]))]));
        }
        add(own_types(vec![("foo", inst(&[("n", nested_variant(0, ia)), ("f", f1())])), ("foo", inst(&[("n", nested_variant(1, ib))])),
                           ("foo", inst(&[("n", nested_variant(2, ia)), ("g", f2())]))]));
    }
    add(own_types(vec![("a:b/c@0.2.0", named("a:b/c@0.2.0", &[("dep", nested_variant(0, Some("dep:p/n@1.0.0")))])),
                       ("a:b/c@0.2.1", named("a:b/c@0.2.1", &[("dep", nested_variant(1, Some("dep:p/n@1.1.0")))])),
                       ("a:b/c@0.2.3", named("a:b/c@0.2.3", &[("dep", nested_variant(2, Some("dep:p/n@1.0.0")))]))]));
    // defined types: equal through aliases; a type export reused by a function of the same interface
    let t = rec(&[("a", U8)]);
    add(own_types(vec![("foo", inst(&[("t", K::TValue(t.clone())), ("f", K::Func(func(false, &[("x", t.clone())], None)))])),
                       ("foo", inst(&[("t", K::TValue(alias(t.clone()))), ("g", K::Func(func(false, &[("x", alias(t.clone()))], None)))]))]));
    add(own_types(vec![("foo", inst(&[("t", K::TValue(U8))])),
                       ("foo", inst(&[("t", K::TValue(alias(U8))), ("g", K::Func(func(false, &[("x", alias(U8))], None)))]))]));
    // resources and owners
    add(own_types(vec![("foo", inst(&[("r", K::TRes(res("r")))])), ("foo", inst(&[("r", K::TRes(res("r"))), ("mk", K::Func(func(false, &[], Some(V::Own(res("r"))))))]))]));
    add(own_types(vec![("foo", inst(&[("r", K::TRes(res("r")))])), ("foo", inst(&[("r", K::TRes(res("q")))]))]));
    add(own_types(vec![("dep:p/types@0.2.0", K::Inst(iface(Some("dep:p/types@0.2.0"), &[("r", K::TRes(res("r")))]))),
                       ("dep:p/types@0.2.1", K::Inst(iface(Some("dep:p/types@0.2.1"), &[("r", K::TRes(res("r")))]))),
                       ("my:p/i@1.0.0", using_res("my:p/i@1.0.0", &iface(Some("dep:p/types@0.2.0"), &[("r", K::TRes(res("r")))]))),
                       ("dep:p/types@0.2.3", K::Inst(iface(Some("dep:p/types@0.2.3"), &[("r", K::TRes(res("r")))])))]));
    // components and modules
    let w = |i: &[(&str, K)], e: &[(&str, K)]| K::Comp(WorldD { id: None, imports: items(i), exports: items(e) });
    add(own_types(vec![("foo", w(&[("i", f1())], &[("e", f1())])), ("foo", w(&[("i", f1())], &[("e", f1()), ("d", f2())]))]));
    add(own_types(vec![("foo", w(&[("i", f1())], &[])), ("foo", w(&[], &[])), ("foo", w(&[("j", f2())], &[]))]));
    let m = |i: &[(&str, &str, &str)], e: &[(&str, &str)]| K::Mod(Mod { imports: i.iter().map(|(a, b, c)| (s(a), s(b), s(c))).collect(), exports: e.iter().map(|(a, b)| (s(a), s(b))).collect() });
    add(own_types(vec![("foo", m(&[("m", "n", "memory 0 0 1 - -")], &[("e", "func 1 i32 0")])), ("foo", m(&[("m", "n", "memory 0 0 2 - -")], &[("d", "func 0 1 i32")])),
                       ("foo", m(&[], &[("e", "func 0 0")]))]));
    // one import name, one interface id reached under another import name
    add(own_types(vec![("x", K::Inst(iface(Some("a:b/c@0.2.0"), &[("f", f1())]))), ("y", K::Inst(iface(Some("a:b/c@0.2.1"), &[("g", f1())])))]));
    out
}

struct Pools { names: Vec<String>, deps: Vec<Iface> }
fn pools() -> Pools {
    let mut names = vec![s("foo"), s("bar")];
    for b in ["a:b/c", "x:y/z"] {
        for v in ["0.2.0", "0.2.1", "0.2.3", "0.3.0", "1.0.0", "1.1.0", "1.2.3", "2.0.0", "0.0.1", "0.0.2", "1.0.0-rc.1", "1.0.0+b1", "0.2.1+m"] {
            names.push(format!("{b}@{v}"));
        }
        names.push(s(b));
    }
    let deps = vec![dep_iface("dep:p/types@0.2.0", false), dep_iface("dep:p/types@0.2.1", false), dep_iface("dep:p/types@0.2.1", true),
                    dep_iface("dep:p/types@0.3.0", false), dep_iface("dep:p/types@1.0.0", false), dep_iface("oth:p/types@0.2.0", false),
                    iface(Some("dep:p/types@0.2.3"), &[("t", K::TValue(rec(&[("a", STRING)])))])];
    Pools { names, deps }
}
/// variants of an export, by export name; variant 0 is the family default
fn export_variant(name: &str, v: usize) -> K {
    let t = rec(&[("a", U8)]);
    match name {
        "f" => [f1(), f2(), f3(), f4(), K::Func(func(true, &[], None)), K::Func(func(false, &[("y", U8)], None))][v % 6].clone(),
        "g" => [f2(), f1(), K::Func(func(false, &[("x", list(U8))], None)), K::Func(func(false, &[("x", list(STRING))], None)),
                K::Func(func(false, &[("x", alias(list(U8)))], None))][v % 5].clone(),
        "h" => [K::Func(func(false, &[("x", t.clone())], Some(opt(t.clone())))), K::Func(func(false, &[("x", alias(t.clone()))], Some(opt(t.clone())))),
                K::Func(func(false, &[("x", t.clone())], None))][v % 3].clone(),
        "t" => [K::TValue(t.clone()), K::TValue(alias(t.clone())), K::TValue(rec(&[("a", STRING)])), K::TValue(rec(&[("b", U8)])), K::TValue(U8)][v % 5].clone(),
        "u" => [K::TValue(V::Enum(names(&["a", "b"]))), K::TValue(V::Enum(names(&["b", "a"]))), K::TValue(V::Flags(names(&["a", "b"]))),
                K::TValue(V::Variant(vec![(s("a"), Some(U8)), (s("b"), None)]))][v % 4].clone(),
        "n" => nested_variant(v, None),
        "v" => [K::Value(U8), K::Value(STRING), K::Value(alias(U8))][v % 3].clone(),
        "r" => [K::TRes(res("r")), K::TRes(res("q")), K::TRes(Res { name: s("r2"), alias: Some(Box::new((None, res("r")))) })][v % 3].clone(),
        "k" => [K::Func(func(false, &[("x", V::Own(res("r")))], None)), K::Func(func(false, &[("x", V::Borrow(res("r")))], None))][v % 2].clone(),
        "w" => [K::Comp(WorldD { id: None, imports: items(&[("i", f1())]), exports: items(&[("e", f1())]) }),
                K::Comp(WorldD { id: None, imports: vec![], exports: items(&[("e", f1())]) })][v % 2].clone(),
        _ => f1(),
    }
}
fn gen_multiset(r: &mut Rng, p: &Pools) -> Case {
    let n = match r.below(100) { 0..=24 => 2, 25..=59 => 3, 60..=84 => 4, _ => 5 };
    // the names of this multiset: mostly one or two tracks
    let focus: Vec<String> = match r.below(5) {
        0 => vec![s("foo")],
        1 => vec![s("foo"), s("bar")],
        2 => { let b = *r.pick(&["a:b/c", "x:y/z"]); ["0.2.0", "0.2.1", "0.2.3", "0.2.1+m"].iter().map(|v| format!("{b}@{v}")).collect() }
        3 => { let b = *r.pick(&["a:b/c", "x:y/z"]); ["1.0.0", "1.1.0", "1.2.3", "1.0.0+b1", "0.2.0", "1.0.0-rc.1", "2.0.0"].iter().map(|v| format!("{b}@{v}")).collect() }
        _ => (0..4).map(|_| r.pick(&p.names).clone()).collect(),
    };
    let family_conflict = r.chance(1, 3);                  // some multisets are conflict-free by construction
    // identifiers of nested instance exports: none / one identifier for all contributors / versions of one track / mixed
    let nested_ids: Vec<Option<&str>> = match r.below(10) {
        0..=3 => vec![None],
        4..=5 => vec![Some(*r.pick(&["n", "dep:p/n", "dep:p/n@0.2.0"]))],
        6..=7 => vec![Some("dep:p/n@0.2.0"), Some("dep:p/n@0.2.1"), Some("dep:p/n@0.2.3")],
        _ => vec![None, Some("n"), Some("dep:p/n@0.2.0"), Some("dep:p/n@0.3.0"), Some("other:p/n")],
    };
    let export_names = ["f", "g", "h", "t", "u", "n", "v", "r", "k", "w"];
    let weights = [5u64, 4, 3, 3, 2, 4, 1, 1, 1, 1];
    let total: u64 = weights.iter().sum();
    let mut cs: Vec<Contrib> = Vec::new();
    let mut nt = 0usize;
    for _ in 0..n {
        // a duplicate of an earlier contributor, in the SAME Types collection (memo paths, idempotence)
        if !cs.is_empty() && r.chance(1, 10) {
            let j = r.below(cs.len() as u64) as usize;
            let name = if r.chance(3, 4) { cs[j].name.clone() } else { r.pick(&focus).clone() };
            let (tidx, k) = (cs[j].tidx, cs[j].k.clone());
            cs.push(Contrib { name, tidx, k });
            continue;
        }
        let name = if r.chance(9, 10) { r.pick(&focus).clone() } else { r.pick(&p.names).clone() };
        let k = match r.below(100) {
            0..=3 => export_variant("f", if family_conflict { r.below(3) as usize } else { 0 }),
            4..=5 => export_variant("v", if family_conflict { r.below(3) as usize } else { 0 }),
            6..=7 => export_variant("w", r.below(2) as usize),
            8 => export_variant("t", if family_conflict { r.below(3) as usize } else { 0 }),
            9..=28 => {
                let d = r.pick(&p.deps).clone();
                let d = if family_conflict || r.chance(1, 2) { d } else { p.deps[r.below(3) as usize].clone() };
                if r.chance(1, 5) { using_res(&name, &iface(d.id.as_deref(), &[("r", K::TRes(res("r")))])) }
                else {
                    let extra: Vec<(&str, K)> = if r.chance(1, 2) { vec![("f", export_variant("f", 0))] } else { vec![] };
                    using(&name, &d, if family_conflict && r.chance(1, 6) { Some("tt") } else { None }, &extra)
                }
            }
            29..=33 => K::Inst(r.pick(&p.deps).clone()),          // a dependency contributed directly (under any name)
            _ => {
                let ne = 1 + r.below(4);
                let mut e: Vec<(String, K)> = Vec::new();
                for _ in 0..ne {
                    let mut x = r.below(total); let mut idx = 0;
                    while x >= weights[idx] { x -= weights[idx]; idx += 1; }
                    let en = export_names[idx];
                    if e.iter().any(|(k, _)| k == en) { continue; }
                    let v = if family_conflict && r.chance(1, 4) { 1 + r.below(6) as usize } else if en == "n" && r.chance(1, 2) { r.below(3) as usize } else { 0 };
                    if en == "n" { e.push((s(en), nested_variant(v, *r.pick(&nested_ids)))); }
                    else { e.push((s(en), export_variant(en, v))); }
                }
                let id = if name.contains(':') && r.chance(9, 10) { Some(name.clone()) } else if r.chance(1, 30) { Some(s("a:b/c@0.2.0")) } else { None };
                K::Inst(Iface { id, uses: vec![], exports: e })
            }
        };
        cs.push(Contrib { name, tidx: nt, k });
        nt += 1;
    }
    let hashcons: Vec<bool> = (0..nt.max(1)).map(|_| r.chance(1, 2)).collect();
    lower_case(&cs, &hashcons)
}

fn generate(tier: &str, seed: u64) -> Vec<String> {
    let mut r = Rng::new(seed);
    let p = pools();
    let mut cases: Vec<String> = fixed_cases().iter().map(case_line).collect();
    let n = if tier == "thorough" { 5000 } else { 300 };
    let mut seen: HashSet<String> = cases.iter().cloned().collect();
    while cases.len() < n + fixed_cases().len() {
        let l = case_line(&gen_multiset(&mut r, &p));
        if seen.insert(l.clone()) { cases.push(l); }
    }
    cases
}

fn main() {
    let args: Vec<String> = std::env::args().collect();
    let tier = args[1].as_str();
    let seed: u64 = args[2].parse().unwrap();
    let cases: Vec<String> = if let Some(replay) = args.get(5) {
        std::fs::read_to_string(replay).unwrap().lines().filter(|l| !l.is_empty()).map(|s| s.to_string()).collect()
    } else { generate(tier, seed) };
    std::panic::set_hook(Box::new(|_| {}));
    let nthreads = std::thread::available_parallelism().map(|x| x.get()).unwrap_or(4).min(16);
    let chunk = (cases.len() + nthreads - 1) / nthreads.max(1);
    let mut results: Vec<Vec<String>> = Vec::new();
    std::thread::scope(|sc| {
        let hs: Vec<_> = cases.chunks(chunk.max(1)).map(|part| sc.spawn(move || {
            part.iter().map(|c| catch_unwind(|| run_case(c)).unwrap_or_else(|_| "PANIC".to_string())).collect::<Vec<String>>()
        })).collect();
        for h in hs { results.push(h.join().unwrap()); }
    });
    let mut co = std::io::BufWriter::new(std::fs::File::create(&args[3]).unwrap());
    let mut io = std::io::BufWriter::new(std::fs::File::create(&args[4]).unwrap());
    for c in &cases { writeln!(co, "{c}").unwrap(); }
    for part in &results { for l in part { writeln!(io, "{l}").unwrap(); } }
}
