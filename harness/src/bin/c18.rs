//! C18 correspondence: enumerate directory layouts x package keys x resolver configurations, build each
//! layout in a fresh temporary directory, run the real `FileSystemPackageResolver::resolve`, and write the
//! cases plus canonical observations.
//! usage: c18 <quick|thorough> <seed> <cases_out> <impl_out> [replay_cases_in]
//!
//! Case line (tab separated; strings are comma separated code points, paths are ';' separated components):
//!   c18 <wat 0|1> <error_on_unknown 0|1> <name> <version|none> <root path> <overrides> <nodes>
//!   overrides: '|' separated  name=path          nodes: '|' separated  <F|D>:<k>:<variant>:<path>
//! Node variants: 0 binary component, 1 valid WAT text, 2 garbage text, 3 valid WIT text (files);
//!                5 directory holding a WIT package, 6 directory without WIT files.
//! The content of node k is unique to k; its id is 10*k+variant.  Observation:
//!   LOADED <bytes-id> <path>    bytes-id = id (the file's bytes), 1000000+id (assembled from it),
//!                               2000000+id (encoding of the WIT directory), 3000000+id (encoding of the WIT file)
//!   SKIPPED | ERR UnknownPackage | ERR PackageResolutionFailure | ERR <other> | PANIC
//!
//! Multi-key case line (several keys in ONE `resolve` call over one merged layout):
//!   c18m <wat> <error_on_unknown> <root> <overrides> <nodes> <keys>      keys: '|' separated  <name>~<version|none>
//! Node variant 7: directory holding a WIT package that VENDORS a dependency (`deps/common/c.wit`, the same WIT
//! package `vendor:common` in every such directory).  Observation:
//!   MULTI OK <o1>;<o2>;...        oi = L:<bytes-id>:<path> | S          (request order)
//!   MULTI ERR <UnknownPackage|PackageResolutionFailure> <index of the key the error names>
use indexmap::IndexMap;
use std::collections::HashMap;
use std::io::Write;
use std::panic::catch_unwind;
use std::path::{Path, PathBuf};
use wac_resolver::{Error, FileSystemPackageResolver};
use wac_types::BorrowedPackageKey;
use wacv::{enc, Rng};

#[derive(Clone, Debug)]
struct Node { dir: bool, k: usize, variant: u8, path: Vec<String> }

#[derive(Clone, Debug)]
struct Case {
    wat: bool,
    error_on_unknown: bool,
    name: String,
    version: Option<String>,
    root: Vec<String>,
    overrides: Vec<(String, Vec<String>)>,
    nodes: Vec<Node>,
}

fn enc_path(p: &[String]) -> String { p.iter().map(|c| enc(c)).collect::<Vec<_>>().join(";") }
fn dec(s: &str) -> String {
    if s == "-" || s.is_empty() { return String::new(); }
    s.split(',').map(|x| char::from_u32(x.parse::<u32>().unwrap()).unwrap()).collect()
}
fn dec_path(s: &str) -> Vec<String> { if s.is_empty() { vec![] } else { s.split(';').map(dec).collect() } }

impl Case {
    fn line(&self) -> String {
        let ov = self.overrides.iter().map(|(n, p)| format!("{}={}", enc(n), enc_path(p))).collect::<Vec<_>>().join("|");
        let nodes = self.nodes.iter()
            .map(|n| format!("{}:{}:{}:{}", if n.dir { "D" } else { "F" }, n.k, n.variant, enc_path(&n.path)))
            .collect::<Vec<_>>().join("|");
        format!("c18\t{}\t{}\t{}\t{}\t{}\t{}\t{}", self.wat as u8, self.error_on_unknown as u8, enc(&self.name),
                self.version.as_ref().map(|v| enc(v)).unwrap_or("none".into()), enc_path(&self.root), ov, nodes)
    }
    fn parse(line: &str) -> Option<Case> {
        let f: Vec<&str> = line.split('\t').collect();
        if f.len() != 8 || f[0] != "c18" { return None; }
        let overrides = if f[6].is_empty() { vec![] } else {
            f[6].split('|').map(|e| { let (n, p) = e.split_once('=').unwrap(); (dec(n), dec_path(p)) }).collect() };
        let nodes = if f[7].is_empty() { vec![] } else {
            f[7].split('|').map(|e| {
                let g: Vec<&str> = e.splitn(4, ':').collect();
                Node { dir: g[0] == "D", k: g[1].parse().unwrap(), variant: g[2].parse().unwrap(), path: dec_path(g[3]) }
            }).collect() };
        Some(Case { wat: f[1] == "1", error_on_unknown: f[2] == "1", name: dec(f[3]),
                    version: if f[4] == "none" { None } else { Some(dec(f[4])) }, root: dec_path(f[5]), overrides, nodes })
    }
}

/// Text/bytes written for node k of a given variant.
fn file_content(k: usize, variant: u8) -> Vec<u8> {
    match variant {
        0 => wat::parse_str(format!("(component (type $t u8) (export \"m{k}\" (type $t)))")).unwrap(),
        1 => format!("(component (type $t u16) (export \"t{k}\" (type $t)))").into_bytes(),
        2 => format!("(component (oops {k}").into_bytes(),
        3 => format!("package mk:w{k};\ninterface i {{ f: func(); }}\n").into_bytes(),
        _ => panic!("bad file variant"),
    }
}
fn dir_wit(k: usize) -> String { format!("package mk:d{k};\ninterface i {{ f: func(); }}\n") }
/// variant 7: a WIT package that uses a type of a dependency vendored in its own `deps/` folder
fn dir_wit_vendoring(k: usize) -> String {
    format!("package mk:v{k};\ninterface i {{ use vendor:common/t.{{x}}; f: func() -> x; }}\n")
}
const VENDORED_DEP: &str = "package vendor:common;\ninterface t { type x = u8; }\n";
fn write_dir_content(p: &Path, k: usize, variant: u8) {
    if variant == 5 { std::fs::write(p.join("a.wit"), dir_wit(k)).unwrap(); }
    if variant == 7 {
        std::fs::write(p.join("a.wit"), dir_wit_vendoring(k)).unwrap();
        std::fs::create_dir_all(p.join("deps").join("common")).unwrap();
        std::fs::write(p.join("deps").join("common").join("c.wit"), VENDORED_DEP).unwrap();
    }
}

/// Library oracles, computed independently of the resolver with the same crates it uses.
struct Oracles { scratch: PathBuf, cache: HashMap<(usize, u8), [Option<Vec<u8>>; 4]> }
impl Oracles {
    /// [raw, assembled, wit-dir encoding, wit-file encoding] for node (k, variant)
    fn get(&mut self, k: usize, variant: u8) -> &[Option<Vec<u8>>; 4] {
        let scratch = self.scratch.clone();
        self.cache.entry((k, variant)).or_insert_with(|| {
            let mut out: [Option<Vec<u8>>; 4] = [None, None, None, None];
            if variant < 5 {
                let raw = file_content(k, variant);
                out[1] = wat::parse_bytes(&raw).ok().map(|c| c.into_owned());
                let f = scratch.join(format!("o{k}_{variant}.wit"));
                std::fs::write(&f, &raw).unwrap();
                let mut r = wit_parser::Resolve::new();
                out[3] = r.push_file(&f).ok().and_then(|p| wit_component::encode(&r, p).ok());
                std::fs::remove_file(&f).unwrap();
                out[0] = Some(raw);
            } else {
                let d = scratch.join(format!("o{k}_{variant}"));
                std::fs::create_dir_all(&d).unwrap();
                write_dir_content(&d, k, variant);
                let mut r = wit_parser::Resolve::new();
                out[2] = r.push_dir(&d).ok().and_then(|(p, _)| wit_component::encode(&r, p).ok());
                std::fs::remove_dir_all(&d).unwrap();
            }
            out
        })
    }
}

fn join(base: &Path, comps: &[String]) -> PathBuf { let mut p = base.to_path_buf(); for c in comps { p.push(c); } p }

fn build_layout(nodes: &[Node], dir: &Path) {
    let _ = std::fs::remove_dir_all(dir);
    std::fs::create_dir_all(dir).unwrap();
    // directories first (shortest path first), then files
    let mut order: Vec<&Node> = nodes.iter().collect();
    order.sort_by_key(|n| (!n.dir, n.path.len()));
    for n in order {
        let p = join(dir, &n.path);
        if n.dir {
            std::fs::create_dir_all(&p).unwrap();
            write_dir_content(&p, n.k, n.variant);
        } else {
            std::fs::create_dir_all(p.parent().unwrap()).unwrap();
            std::fs::write(&p, file_content(n.k, n.variant)).unwrap();
        }
    }
}

/// Which node's content (raw / assembled / encoded) are these bytes?
fn identify(bytes: &[u8], nodes: &[Node], or: &mut Oracles) -> Option<(usize, String)> {
    for n in nodes {
        let id = 10 * n.k + n.variant as usize;
        let o = or.get(n.k, n.variant);
        for (slot, off) in [(0usize, 0usize), (1, 1_000_000), (2, 2_000_000), (3, 3_000_000)] {
            if o[slot].as_deref() == Some(bytes) { return Some((off + id, n.path.join("/"))); }
        }
    }
    None
}

// ---------------------------------------------------------------- several keys in one call

#[derive(Clone, Debug)]
struct Multi {
    wat: bool,
    error_on_unknown: bool,
    root: Vec<String>,
    overrides: Vec<(String, Vec<String>)>,
    nodes: Vec<Node>,
    keys: Vec<(String, Option<String>)>,
}

impl Multi {
    fn line(&self) -> String {
        let ov = self.overrides.iter().map(|(n, p)| format!("{}={}", enc(n), enc_path(p))).collect::<Vec<_>>().join("|");
        let nodes = self.nodes.iter()
            .map(|n| format!("{}:{}:{}:{}", if n.dir { "D" } else { "F" }, n.k, n.variant, enc_path(&n.path)))
            .collect::<Vec<_>>().join("|");
        let keys = self.keys.iter()
            .map(|(n, v)| format!("{}~{}", enc(n), v.as_ref().map(|v| enc(v)).unwrap_or("none".into())))
            .collect::<Vec<_>>().join("|");
        format!("c18m\t{}\t{}\t{}\t{}\t{}\t{}", self.wat as u8, self.error_on_unknown as u8, enc_path(&self.root), ov, nodes, keys)
    }
    fn parse(line: &str) -> Option<Multi> {
        let f: Vec<&str> = line.split('\t').collect();
        if f.len() != 7 || f[0] != "c18m" { return None; }
        let overrides = if f[4].is_empty() { vec![] } else {
            f[4].split('|').map(|e| { let (n, p) = e.split_once('=').unwrap(); (dec(n), dec_path(p)) }).collect() };
        let nodes = if f[5].is_empty() { vec![] } else {
            f[5].split('|').map(|e| {
                let g: Vec<&str> = e.splitn(4, ':').collect();
                Node { dir: g[0] == "D", k: g[1].parse().unwrap(), variant: g[2].parse().unwrap(), path: dec_path(g[3]) }
            }).collect() };
        let keys = f[6].split('|').filter(|e| !e.is_empty()).map(|e| {
            let (n, v) = e.split_once('~').unwrap(); (dec(n), if v == "none" { None } else { Some(dec(v)) }) }).collect();
        Some(Multi { wat: f[1] == "1", error_on_unknown: f[2] == "1", root: dec_path(f[3]), overrides, nodes, keys })
    }
}

/// Merge single-key cases with pairwise different package names into one layout; node ids are made unique, each
/// case's override files move to their own directory, WIT package directories become vendoring ones on request.
fn merge_cases(cases: &[Case], vendoring: &[bool]) -> Multi {
    let mut nodes: Vec<Node> = Vec::new();
    let mut overrides = Vec::new();
    let mut keys = Vec::new();
    let mut have: std::collections::HashSet<Vec<String>> = std::collections::HashSet::new();
    for (i, c) in cases.iter().enumerate() {
        let rename = |p: &Vec<String>| -> Vec<String> {
            let mut q = p.clone();
            if q.first().map(|x| x == "ov").unwrap_or(false) { q[0] = format!("ov{i}"); }
            q
        };
        for n in &c.nodes {
            let path = rename(&n.path);
            if !have.insert(path.clone()) { continue; }      // shared plain parent directories
            let variant = if n.variant == 5 && vendoring[i] { 7 } else { n.variant };
            nodes.push(Node { dir: n.dir, k: 100 * (i + 1) + n.k, variant, path });
        }
        for (n, p) in &c.overrides { overrides.push((n.clone(), rename(p))); }
        keys.push((c.name.clone(), c.version.clone()));
    }
    Multi { wat: cases[0].wat, error_on_unknown: cases[0].error_on_unknown, root: cases[0].root.clone(), overrides, nodes, keys }
}

fn run_multi(m: &Multi, dir: &Path, or: &mut Oracles, wat_built: bool) -> String {
    if m.wat != wat_built { return "SKIP-FEATURE".into(); }
    build_layout(&m.nodes, dir);
    let overrides: HashMap<String, PathBuf> = m.overrides.iter().map(|(n, p)| (n.clone(), join(dir, p))).collect();
    let resolver = FileSystemPackageResolver::new(join(dir, &m.root), overrides, m.error_on_unknown);
    let versions: Vec<Option<semver::Version>> = m.keys.iter()
        .map(|(_, v)| v.as_ref().map(|v| semver::Version::parse(v).expect("case version must be valid semver"))).collect();
    let bkeys: Vec<BorrowedPackageKey> = m.keys.iter().zip(versions.iter())
        .map(|((n, _), v)| BorrowedPackageKey::from_name_and_version(n, v.as_ref())).collect();
    let mut keys = IndexMap::new();
    for (i, k) in bkeys.iter().enumerate() { keys.insert(*k, miette::SourceSpan::from((i, 0usize))); }
    let idx = |name: &str| m.keys.iter().position(|(n, _)| n == name).map(|i| i.to_string()).unwrap_or("?".into());
    let obs = match resolver.resolve(&keys) {
        Ok(map) => {
            if map.keys().any(|k| !bkeys.contains(k)) { "MULTI OK-WRONG-KEY".to_string() } else {
                let parts: Vec<String> = bkeys.iter().map(|k| match map.get(k) {
                    None => "S".to_string(),
                    Some(bytes) => match identify(bytes, &m.nodes, or) {
                        Some((id, p)) => format!("L:{id}:{p}"), None => "L:unknown-bytes".into() },
                }).collect();
                format!("MULTI OK {}", parts.join(";"))
            }
        }
        Err(Error::UnknownPackage { name, .. }) => format!("MULTI ERR UnknownPackage {}", idx(&name)),
        Err(Error::PackageResolutionFailure { name, .. }) => format!("MULTI ERR PackageResolutionFailure {}", idx(&name)),
        Err(e) => format!("MULTI ERR {}", format!("{e:?}").split(|c: char| !c.is_alphanumeric()).next().unwrap_or("?")),
    };
    let _ = std::fs::remove_dir_all(dir);
    obs
}

fn run_case(c: &Case, dir: &Path, or: &mut Oracles, wat_built: bool) -> String {
    // a case recorded for the other feature configuration cannot be observed by this build
    if c.wat != wat_built { return "SKIP-FEATURE".into(); }
    build_layout(&c.nodes, dir);
    let overrides: HashMap<String, PathBuf> = c.overrides.iter().map(|(n, p)| (n.clone(), join(dir, p))).collect();
    let resolver = FileSystemPackageResolver::new(join(dir, &c.root), overrides, c.error_on_unknown);
    let version = c.version.as_ref().map(|v| semver::Version::parse(v).expect("case version must be valid semver"));
    if let (Some(v), Some(t)) = (&version, &c.version) { assert_eq!(&v.to_string(), t, "version text must be canonical"); }
    let key = BorrowedPackageKey::from_name_and_version(&c.name, version.as_ref());
    let mut keys = IndexMap::new();
    keys.insert(key, miette::SourceSpan::from((0usize, 0usize)));
    let res = resolver.resolve(&keys);
    let obs = match res {
        Ok(map) => {
            if map.len() > 1 { "OK-TOO-MANY".to_string() }
            else if let Some(bytes) = map.get(&key) {
                let found = identify(bytes.as_slice(), &c.nodes, or);
                match found { Some((id, p)) => format!("LOADED {id} {p}"), None => "LOADED unknown-bytes".into() }
            } else if map.is_empty() { "SKIPPED".into() } else { "OK-WRONG-KEY".into() }
        }
        Err(Error::UnknownPackage { name, .. }) =>
            if name == c.name { "ERR UnknownPackage".into() } else { "ERR UnknownPackage wrong-name".into() },
        Err(Error::PackageResolutionFailure { name, .. }) =>
            if name == c.name { "ERR PackageResolutionFailure".into() } else { "ERR PackageResolutionFailure wrong-name".into() },
        Err(e) => format!("ERR {}", format!("{e:?}").split(|c: char| !c.is_alphanumeric()).next().unwrap_or("?")),
    };
    let _ = std::fs::remove_dir_all(dir);
    obs
}

// ---------------------------------------------------------------- enumeration

const NAMES: [&str; 3] = ["solo", "foo:bar", "ns:pkg:sub"];
const VERSIONS: [&str; 4] = ["1.2.3", "0.1.0-rc.1", "2.0.0+build.7", "1.0.0-alpha.2+b.9"];
const N_B: usize = 4; const N_WAT: usize = 6; const N_WASM: usize = 5; const N_OV: usize = 11; const N_MODE: usize = 2;
// key variants: 3 unversioned + 3 x 4 versioned x {no decoy, decoy}
const N_KEYV: usize = 3 + 3 * 4 * 2;
const PER_KEY: usize = N_B * N_WAT * N_WASM * N_OV * N_MODE;

fn s(x: &str) -> String { x.to_string() }

fn build_case(idx: usize, wat: bool) -> Case {
    let mut i = idx;
    let mode = i % N_MODE; i /= N_MODE;
    let ov = i % N_OV; i /= N_OV;
    let wasm_st = i % N_WASM; i /= N_WASM;
    let wat_st = i % N_WAT; i /= N_WAT;
    let b_st = i % N_B; i /= N_B;
    let keyv = i;
    let (name, version, decoy) = if keyv < 3 { (NAMES[keyv], None, false) } else {
        let j = keyv - 3; (NAMES[j % 3], Some(VERSIONS[(j / 3) % 4]), j / 12 == 1) };
    let root = vec![s("deps")];
    let mut comps: Vec<String> = name.split(':').map(s).collect();
    if let Some(v) = version { comps.push(s(v)); }
    let last = comps.pop().unwrap();
    let mut front = root.clone(); front.extend(comps);
    let at = |file: String| { let mut p = front.clone(); p.push(file); p };
    let mut nodes: Vec<Node> = Vec::new();
    let add = |dir: bool, variant: u8, path: Vec<String>, nodes: &mut Vec<Node>| {
        let k = nodes.len(); nodes.push(Node { dir, k, variant, path }); };
    match b_st { 1 => add(false, 0, at(last.clone()), &mut nodes), 2 => add(true, 5, at(last.clone()), &mut nodes),
                 3 => add(true, 6, at(last.clone()), &mut nodes), _ => {} }
    let watp = at(format!("{last}.wat"));
    match wat_st { 1 => add(false, 1, watp, &mut nodes), 2 => add(false, 2, watp, &mut nodes), 3 => add(false, 0, watp, &mut nodes),
                   4 => add(true, 5, watp, &mut nodes), 5 => add(true, 6, watp, &mut nodes), _ => {} }
    let wasmp = at(format!("{last}.wasm"));
    match wasm_st { 1 => add(false, 0, wasmp, &mut nodes), 2 => add(false, 1, wasmp, &mut nodes),
                    3 => add(true, 5, wasmp, &mut nodes), 4 => add(true, 6, wasmp, &mut nodes), _ => {} }
    if decoy {
        // what a *replacing* set_extension would look at: "1.2.3" -> "1.2.wasm" / "1.2.wat"
        let stem = Path::new(&last).file_stem().unwrap().to_str().unwrap().to_string();
        if stem != last {
            add(false, 0, at(format!("{stem}.wasm")), &mut nodes);
            add(false, 1, at(format!("{stem}.wat")), &mut nodes);
        }
    }
    let mut overrides = Vec::new();
    let ovp = |f: &str| vec![s("ov"), s(f)];
    match ov {
        1 => { add(false, 0, ovp("o.wasm"), &mut nodes); overrides.push((s("other:pkg"), ovp("o.wasm"))); }
        2 => { add(false, 0, ovp("x.wasm"), &mut nodes); overrides.push((s(name), ovp("x.wasm"))); }
        3 => { add(false, 1, ovp("x.wat"), &mut nodes); overrides.push((s(name), ovp("x.wat"))); }
        4 => { add(false, 2, ovp("x.wat"), &mut nodes); overrides.push((s(name), ovp("x.wat"))); }
        5 => { add(false, 3, ovp("x.wit"), &mut nodes); overrides.push((s(name), ovp("x.wit"))); }
        6 => { add(false, 2, ovp("x.wit"), &mut nodes); overrides.push((s(name), ovp("x.wit"))); }
        7 => { add(false, 0, ovp("noext"), &mut nodes); overrides.push((s(name), ovp("noext"))); }
        8 => { overrides.push((s(name), ovp("missing.wasm"))); }
        9 => { add(true, 5, ovp("d"), &mut nodes); overrides.push((s(name), ovp("d"))); }
        10 => { add(false, 0, ovp("x.wat"), &mut nodes); overrides.push((s(name), ovp("x.wat"))); }
        _ => {}
    }
    // implied parent directories (never WIT packages themselves)
    let mut have: std::collections::HashSet<Vec<String>> = nodes.iter().map(|n| n.path.clone()).collect();
    let listed: Vec<Vec<String>> = nodes.iter().map(|n| n.path.clone()).collect();
    for p in listed {
        for l in 1..p.len() {
            let parent = p[..l].to_vec();
            if have.insert(parent.clone()) { add(true, 6, parent, &mut nodes); }
        }
    }
    Case { wat, error_on_unknown: mode == 1, name: s(name), version: version.map(s), root, overrides, nodes }
}

/// index (mode 0) of the case "key variant keyv, B in state b_st, nothing else"
fn key_case_idx(keyv: usize, b_st: usize) -> usize { ((keyv * N_B + b_st) * (N_WAT * N_WASM * N_OV)) * N_MODE }

fn main() {
    let args: Vec<String> = std::env::args().collect();
    let tier = args[1].as_str();
    let seed: u64 = args[2].parse().unwrap();
    // the harness crate enables wac-resolver's `wat` feature; a build without it sets C18_WAT_FEATURE=0
    let wat_built = std::env::var("C18_WAT_FEATURE").map(|v| v != "0").unwrap_or(true);
    let mut lines: Vec<String> = Vec::new();
    if let Some(replay) = args.get(5) {
        lines = std::fs::read_to_string(replay).unwrap().lines().filter(|l| !l.trim().is_empty()).map(|l| l.to_string()).collect();
    } else {
        let total = N_KEYV * PER_KEY;
        let mut r = Rng::new(seed);
        // quick: a seeded 1-in-8 sample of the exhaustive space (about 8900 layouts); thorough: all of it
        for idx in 0..total {
            if tier == "thorough" || r.chance(1, 8) { lines.push(build_case(idx, wat_built).line()); }
        }
        // several keys in one call: 1-3 cases with pairwise different names (so that the layouts do not overlap),
        // biased towards WIT package directories, half of them vendoring the same dependency
        let n_multi = if tier == "thorough" { 4000 } else { 600 };
        let mut fixed: Vec<(Vec<usize>, Vec<bool>)> = vec![
            // two / three unversioned keys whose B is a WIT package directory vendoring the same dependency
            (vec![key_case_idx(0, 2), key_case_idx(1, 2)], vec![true, true]),
            (vec![key_case_idx(0, 2), key_case_idx(1, 2), key_case_idx(2, 2)], vec![true, true, true]),
            (vec![key_case_idx(1, 2), key_case_idx(0, 2)], vec![false, true]),
        ];
        for _ in 0..n_multi {
            let n = 1 + r.below(3) as usize;
            let mut names: Vec<usize> = vec![0, 1, 2];
            for i in (1..3).rev() { let j = r.below((i + 1) as u64) as usize; names.swap(i, j); }
            let mut idxs = Vec::new(); let mut vend = Vec::new();
            for &nm in names.iter().take(n) {
                // key variant with this name: unversioned, or one of the 8 versioned variants
                let keyv = if r.chance(1, 2) { nm } else { 3 + nm + 3 * (r.below(8) as usize) };
                let b_st = if r.chance(2, 3) { 2 } else { r.below(N_B as u64) as usize };
                let rest = r.below((N_WAT * N_WASM * N_OV) as u64) as usize;
                idxs.push(((keyv * N_B + b_st) * (N_WAT * N_WASM * N_OV) + rest) * N_MODE);
                vend.push(r.chance(1, 2));
            }
            fixed.push((idxs, vend));
        }
        for (idxs, vend) in fixed {
            let mode = r.below(2) as usize;
            let cases: Vec<Case> = idxs.iter().map(|&i| build_case(i + mode, wat_built)).collect();
            lines.push(merge_cases(&cases, &vend).line());
        }
    }
    let base = std::env::temp_dir().join(format!("wacv-c18-{}-{}", std::process::id(), seed));
    let _ = std::fs::remove_dir_all(&base);
    std::fs::create_dir_all(base.join("oracle")).unwrap();
    let mut or = Oracles { scratch: base.join("oracle"), cache: HashMap::new() };
    // sanity of the content templates against the real libraries (what the model-side oracle table assumes)
    for (v, want) in [(0u8, [true, true, false, false]), (1, [true, true, false, false]), (2, [true, false, false, false]),
                      (3, [true, false, false, true]), (5, [false, false, true, false]), (6, [false, false, false, false]),
                      (7, [false, false, true, false])] {
        let got = or.get(0, v);
        let got = [got[0].is_some(), got[1].is_some(), got[2].is_some(), got[3].is_some()];
        assert_eq!(got, want, "content template variant {v} does not behave as tabulated");
    }
    { let o = or.get(0, 0); assert_eq!(o[0], o[1], "binary input must pass through wat::parse_bytes unchanged"); }
    // the declared feature configuration must be the one the resolver was really built with
    {
        let probe = Case { wat: wat_built, error_on_unknown: true, name: s("probe"), version: None, root: vec![s("deps")],
                           overrides: vec![], nodes: vec![Node { dir: false, k: 0, variant: 1, path: vec![s("deps"), s("probe.wat")] }] };
        let got = run_case(&probe, &base.join("probe"), &mut or, wat_built);
        // (with the feature off the text file is simply not looked at: not found, in whichever way)
        let want = if wat_built { "LOADED 1000001 deps/probe.wat" } else { "ERR UnknownPackage" };
        if got != want && !(!wat_built && got == "SKIPPED") {
            eprintln!("feature probe: declared wat={wat_built} but a lone `probe.wat` gives `{got}` (expected `{want}`)");
            let _ = std::fs::remove_dir_all(&base);
            std::process::exit(3);
        }
    }
    let mut co = std::io::BufWriter::new(std::fs::File::create(&args[3]).unwrap());
    let mut io = std::io::BufWriter::new(std::fs::File::create(&args[4]).unwrap());
    std::panic::set_hook(Box::new(|_| {}));
    let case_dir = base.join("case");
    for l in &lines {
        writeln!(co, "{l}").unwrap();
        let out = match Case::parse(l) {
            None => match Multi::parse(l) {
                None => "BAD-LINE".to_string(),
                Some(m) => {
                    let r = catch_unwind(std::panic::AssertUnwindSafe(|| run_multi(&m, &case_dir, &mut or, wat_built)));
                    r.unwrap_or_else(|_| "MULTI PANIC".to_string())
                }
            },
            Some(c) => {
                let r = catch_unwind(std::panic::AssertUnwindSafe(|| run_case(&c, &case_dir, &mut or, wat_built)));
                r.unwrap_or_else(|_| "PANIC".to_string())
            }
        };
        writeln!(io, "{out}").unwrap();
    }
    let _ = std::fs::remove_dir_all(&base);
}
