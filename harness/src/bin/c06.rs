//! C06 correspondence: graph-API operation histories.
//! usage: c06 <quick|thorough> <seed> <cases_out> <impl_out> [replay_cases_in]
//!
//! cases file: universe header lines (`U ...`) followed by one history per line (`H op;op;...`).
//! impl file: one line per history: for every op `result|state-dump`, joined by `;;`.
use std::collections::{BTreeMap, HashMap};
use std::fmt::Write as _;
use std::io::Write;
use std::panic::{catch_unwind, AssertUnwindSafe};
use wac_graph::{types::*, CompositionGraph, EncodeOptions, NodeId, NodeKind, PackageId};
use wacv::Rng;

pub const NAMES: &[&str] = &["f", "g", "i", "x", "inst", "h", "foo", "bar", "a:b/c@1.0.0", "", "BAD NAME", "y"];

struct PkgDesc { name: &'static str, version: Option<&'static str>, wat: &'static str }
const PKGS: &[PkgDesc] = &[
    PkgDesc { name: "test:a", version: None, wat: r#"(component
        (import "f" (func))
        (import "i" (instance (export "x" (func))))
        (alias export 0 "x" (func))
        (instance (export "h" (func 0)) (export "x" (func 1)))
        (export "g" (func 0))
        (export "inst" (instance 1)))"# },
    PkgDesc { name: "test:b", version: Some("1.0.0"), wat: r#"(component
        (import "f" (func))
        (export "g" (func 0)))"# },
    PkgDesc { name: "test:b", version: Some("2.0.0"), wat: r#"(component
        (import "g" (func (param "a" u32)))
        (import "f" (func))
        (export "f" (func 1)))"# },
    PkgDesc { name: "test:c", version: None, wat: r#"(component
        (import "i" (instance (export "x" (func)) (export "y" (func))))
        (export "i" (instance 0)))"# },
    PkgDesc { name: "test:d", version: None, wat: r#"(component
        (import "f" (func))
        (import "g" (func))
        (import "h" (func))
        (export "x" (func 0))
        (export "y" (func 1)))"# },
];

struct Local { defs: Vec<Type>, kinds: Vec<ItemKind> }

fn mk_graph() -> (CompositionGraph, Local) {
    let mut g = CompositionGraph::new();
    let t = g.types_mut();
    let t0 = t.add_defined_type(DefinedType::Alias(ValueType::Primitive(PrimitiveType::U32)));
    let t1 = t.add_defined_type(DefinedType::List(ValueType::Defined(t0)));
    let t2 = t.add_defined_type(DefinedType::Tuple(vec![ValueType::Defined(t0), ValueType::Defined(t1)]));
    let t3 = t.add_defined_type(DefinedType::Option(ValueType::Defined(t0)));
    let r0 = t.add_resource(Resource { name: "r".into(), alias: None });
    let f0 = t.add_func_type(FuncType { params: Default::default(), result: None, is_async: false });
    let mut p = indexmap::IndexMap::new();
    p.insert("a".to_string(), ValueType::Primitive(PrimitiveType::U32));
    let f1 = t.add_func_type(FuncType { params: p, result: None, is_async: false });
    let mut e0 = indexmap::IndexMap::new();
    e0.insert("x".to_string(), ItemKind::Func(f0));
    let if0 = t.add_interface(Interface { id: None, uses: Default::default(), exports: e0.clone() });
    e0.insert("y".to_string(), ItemKind::Func(f0));
    let if1 = t.add_interface(Interface { id: None, uses: Default::default(), exports: e0 });
    let d = |id| Type::Value(ValueType::Defined(id));
    let defs = vec![d(t0), d(t1), d(t2), d(t3), Type::Resource(r0), Type::Func(f0)];
    let kinds = vec![ItemKind::Func(f0), ItemKind::Func(f1), ItemKind::Instance(if0), ItemKind::Instance(if1),
                     ItemKind::Type(d(t0)), ItemKind::Type(d(t1))];
    (g, Local { defs, kinds })
}

/// structural, arena-free rendering of an item kind (resource-free universe)
fn canon(types: &Types, k: ItemKind) -> String {
    fn vt(types: &Types, v: ValueType) -> String {
        match v {
            ValueType::Primitive(p) => format!("{p:?}"),
            ValueType::Borrow(_) => "borrow".into(),
            ValueType::Own(_) => "own".into(),
            ValueType::Defined(id) => match &types[id] {
                DefinedType::Alias(a) => format!("alias({})", vt(types, *a)),
                DefinedType::List(a) => format!("list({})", vt(types, *a)),
                DefinedType::Option(a) => format!("option({})", vt(types, *a)),
                DefinedType::Tuple(ts) => format!("tuple({})", ts.iter().map(|t| vt(types, *t)).collect::<Vec<_>>().join(",")),
                other => format!("{other:?}"),
            },
        }
    }
    fn ty(types: &Types, t: Type) -> String {
        match t {
            Type::Resource(_) => "resource".into(),
            Type::Func(id) => {
                let f = &types[id];
                format!("func({}){}{}", f.params.iter().map(|(n, t)| format!("{n}:{}", vt(types, *t))).collect::<Vec<_>>().join(","),
                    f.result.map(|r| format!("->{}", vt(types, r))).unwrap_or_default(), if f.is_async { "async" } else { "" })
            }
            Type::Value(v) => vt(types, v),
            Type::Interface(id) => format!("{{{}}}", types[id].exports.iter().map(|(n, k)| format!("{n}={}", canon(types, *k))).collect::<Vec<_>>().join(";")),
            Type::World(id) => format!("world<{}|{}>", types[id].imports.iter().map(|(n, k)| format!("{n}={}", canon(types, *k))).collect::<Vec<_>>().join(";"),
                types[id].exports.iter().map(|(n, k)| format!("{n}={}", canon(types, *k))).collect::<Vec<_>>().join(";")),
            Type::Module(_) => "module".into(),
        }
    }
    match k {
        ItemKind::Type(t) => format!("type:{}", ty(types, t)),
        ItemKind::Func(id) => format!("func:{}", ty(types, Type::Func(id))),
        ItemKind::Instance(id) => format!("instance:{}", ty(types, Type::Interface(id))),
        ItemKind::Component(id) => format!("component:{}", ty(types, Type::World(id))),
        ItemKind::Module(_) => "module".into(),
        ItemKind::Value(v) => format!("value:{}", vt(types, v)),
    }
}

struct Universe { kinds: Vec<String>, kid: HashMap<String, usize>, header: Vec<String> }

fn pkg_bytes(i: usize) -> Vec<u8> { wat::parse_str(PKGS[i].wat).expect("wat") }
fn mk_pkg(g: &mut CompositionGraph, i: usize) -> Package {
    let v = PKGS[i].version.map(|v| semver::Version::parse(v).unwrap());
    Package::from_bytes(PKGS[i].name, v.as_ref(), pkg_bytes(i), g.types_mut()).expect("package")
}

fn build_universe() -> Universe {
    let (mut g, local) = mk_graph();
    let mut reps: Vec<ItemKind> = Vec::new();
    let mut kinds: Vec<String> = Vec::new();
    let mut kid: HashMap<String, usize> = HashMap::new();
    let mut header = Vec::new();
    fn intern(types: &Types, k: ItemKind, reps: &mut Vec<ItemKind>, kinds: &mut Vec<String>, kid: &mut HashMap<String, usize>) -> usize {
        let s = canon(types, k);
        if let Some(i) = kid.get(&s) { return *i; }
        let i = kinds.len(); kinds.push(s.clone()); kid.insert(s, i); reps.push(k);
        if let ItemKind::Instance(id) = k {
            for (_, e) in types[id].exports.clone() { intern(types, e, reps, kinds, kid); }
        }
        i
    }
    for k in &local.kinds { intern(g.types(), *k, &mut reps, &mut kinds, &mut kid); }
    for d in &local.defs { intern(g.types(), ItemKind::Type(*d), &mut reps, &mut kinds, &mut kid); }
    let mut pk = Vec::new();
    for i in 0..PKGS.len() {
        let p = mk_pkg(&mut g, i);
        let w = g.types()[p.ty()].clone();
        let inst = intern(g.types(), ItemKind::Instance(p.instance_type()), &mut reps, &mut kinds, &mut kid);
        let imps: Vec<String> = w.imports.iter().map(|(n, k)| format!("{}={}", nidx(n), intern(g.types(), *k, &mut reps, &mut kinds, &mut kid))).collect();
        pk.push(format!("U pkg {i} inst={inst} imports={}", imps.join(",")));
    }
    for (i, k) in reps.iter().enumerate() {
        let class = match k { ItemKind::Type(_) => "type", ItemKind::Func(_) => "func", ItemKind::Instance(_) => "instance",
            ItemKind::Component(_) => "component", ItemKind::Module(_) => "module", ItemKind::Value(_) => "value" };
        let ex = if let ItemKind::Instance(id) = k {
            g.types()[*id].exports.iter().map(|(n, e)| format!("{}={}", nidx(n), kid[&canon(g.types(), *e)])).collect::<Vec<_>>().join(",")
        } else { String::new() };
        header.push(format!("U kind {i} {class} {ex}"));
    }
    header.extend(pk);
    // definable types: resource flag, visited defined-type ids mapped to local def indexes, kind id
    for (i, d) in local.defs.iter().enumerate() {
        let mut deps = Vec::new();
        let _ = d.visit_defined_types::<()>(g.types(), &mut |_, id| {
            let t = Type::Value(ValueType::Defined(id));
            if let Some(j) = local.defs.iter().position(|x| *x == t) { deps.push(j.to_string()); } else { deps.push("99".into()); }
            Ok(())
        });
        header.push(format!("U ty {i} res={} kind={} deps={}", matches!(d, Type::Resource(_)) as u8,
            kid[&canon(g.types(), ItemKind::Type(*d))], deps.join(",")));
    }
    for (i, k) in local.kinds.iter().enumerate() { header.push(format!("U lk {i} {}", kid[&canon(g.types(), *k)])); }
    // subtype oracle (fresh memo per pair)
    let mut subs = Vec::new();
    for (a, ka) in reps.iter().enumerate() { for (b, kb) in reps.iter().enumerate() {
        let mut cache = Default::default();
        let mut c = SubtypeChecker::new(&mut cache);
        if c.is_subtype(*ka, g.types(), *kb, g.types()).is_ok() { subs.push(format!("{a}<{b}")); }
    }}
    header.push(format!("U sub {}", subs.join(",")));
    // name validity oracles (wasmparser's ComponentName), probed through the API on a scratch graph
    let mut nv = Vec::new();
    for (i, n) in NAMES.iter().enumerate() {
        let (mut g2, l2) = mk_graph();
        let imp_ok = !matches!(g2.import(*n, l2.kinds[0]), Err(wac_graph::ImportError::InvalidImportName { .. }));
        let (mut g3, l3) = mk_graph();
        let nd = g3.import("zz", l3.kinds[0]).unwrap();
        let exp_ok = g3.export(nd, *n).is_ok();
        nv.push(format!("{i}:{}{}", imp_ok as u8, exp_ok as u8));
    }
    header.push(format!("U names {}", nv.join(",")));
    Universe { kinds, kid, header }
}

fn nidx(n: &str) -> usize { NAMES.iter().position(|x| *x == n).unwrap_or_else(|| panic!("name {n} not in pool")) }

#[derive(Clone, Debug)]
enum Op { Reg(usize), Unreg(usize, usize), Def(usize, usize), Imp(usize, usize), Inst(usize, usize), Alias(usize, usize),
    SetArg(usize, usize, usize), UnsetArg(usize, usize, usize), Export(usize, usize), Unexport(usize), Name(usize, usize), Rm(usize), Enc }

fn show_op(o: &Op) -> String {
    match o {
        Op::Reg(p) => format!("reg {p}"), Op::Unreg(i, g) => format!("unreg {i} {g}"), Op::Def(n, t) => format!("def {n} {t}"),
        Op::Imp(n, k) => format!("imp {n} {k}"), Op::Inst(i, g) => format!("inst {i} {g}"), Op::Alias(n, e) => format!("alias {n} {e}"),
        Op::SetArg(i, a, n) => format!("setarg {i} {a} {n}"), Op::UnsetArg(i, a, n) => format!("unsetarg {i} {a} {n}"),
        Op::Export(n, e) => format!("export {n} {e}"), Op::Unexport(n) => format!("unexport {n}"), Op::Name(n, s) => format!("name {n} {s}"),
        Op::Rm(n) => format!("rm {n}"), Op::Enc => "enc".into(),
    }
}
fn parse_op(s: &str) -> Op {
    let f: Vec<&str> = s.split(' ').collect();
    let n = |i: usize| f[i].parse::<usize>().unwrap();
    match f[0] {
        "reg" => Op::Reg(n(1)), "unreg" => Op::Unreg(n(1), n(2)), "def" => Op::Def(n(1), n(2)), "imp" => Op::Imp(n(1), n(2)),
        "inst" => Op::Inst(n(1), n(2)), "alias" => Op::Alias(n(1), n(2)), "setarg" => Op::SetArg(n(1), n(2), n(3)),
        "unsetarg" => Op::UnsetArg(n(1), n(2), n(3)), "export" => Op::Export(n(1), n(2)), "unexport" => Op::Unexport(n(1)),
        "name" => Op::Name(n(1), n(2)), "rm" => Op::Rm(n(1)), "enc" => Op::Enc, _ => panic!("bad op {s}"),
    }
}

struct Run { g: CompositionGraph, local: Local, pkgs: BTreeMap<(usize, usize), PackageId>, stale: std::collections::BTreeSet<(usize, usize)>, dead: bool }

fn pid_pair(p: PackageId) -> (usize, usize) {
    let s = format!("{p:?}");
    let nums: Vec<usize> = s.split(|c: char| !c.is_ascii_digit()).filter(|x| !x.is_empty()).map(|x| x.parse().unwrap()).collect();
    (nums[0], nums[1])
}

impl Run {
    fn new() -> Self { let (g, local) = mk_graph(); Run { g, local, pkgs: BTreeMap::new(), stale: Default::default(), dead: false } }
    fn node(&self, n: usize) -> Option<NodeId> { self.g.node_ids().find(|i| i.to_string() == n.to_string()) }
    fn live_nodes(&self) -> Vec<usize> { self.g.node_ids().map(|i| i.to_string().parse().unwrap()).collect() }

    fn apply(&mut self, u: &Universe, op: &Op) -> String {
        let r = catch_unwind(AssertUnwindSafe(|| self.apply_inner(op)));
        match r { Ok(s) => s, Err(e) => { self.dead = true;
            let msg = e.downcast_ref::<String>().cloned().or_else(|| e.downcast_ref::<&str>().map(|s| s.to_string())).unwrap_or_default();
            let _ = u; format!("PANIC({})", msg.replace([';', '|', '\n', '\t'], " ")) } }
    }
    fn apply_inner(&mut self, op: &Op) -> String {
        use wac_graph::*;
        let nid = |s: &Self, n: usize| s.node(n).unwrap_or_else(|| panic!("harness: dead node id {n}"));
        match op {
            Op::Reg(p) => { let pk = mk_pkg(&mut self.g, *p); match self.g.register_package(pk) {
                Ok(id) => { let pr = pid_pair(id); self.pkgs.insert(pr, id); format!("pkg{}.{}", pr.0, pr.1) }
                Err(RegisterPackageError::PackageAlreadyRegistered { .. }) => "E:PackageAlreadyRegistered".into() } }
            Op::Unreg(i, gen) => { let id = self.pkgs[&(*i, *gen)]; self.g.unregister_package(id); self.stale.insert((*i, *gen)); "ok".into() }
            Op::Def(n, t) => match self.g.define_type(NAMES[*n], self.local.defs[*t]) {
                Ok(id) => format!("n{id}"),
                Err(DefineTypeError::TypeAlreadyDefined) => "E:TypeAlreadyDefined".into(),
                Err(DefineTypeError::CannotDefineResource) => "E:CannotDefineResource".into(),
                Err(DefineTypeError::ExportConflict { .. }) => "E:ExportConflict".into(),
                Err(DefineTypeError::InvalidExternName { .. }) => "E:InvalidExternName".into() },
            Op::Imp(n, k) => match self.g.import(NAMES[*n], self.local.kinds[*k]) {
                Ok(id) => format!("n{id}"),
                Err(ImportError::ImportAlreadyExists { node, .. }) => format!("E:ImportAlreadyExists({node})"),
                Err(ImportError::InvalidImportName { .. }) => "E:InvalidImportName".into() },
            Op::Inst(i, gen) => { let id = self.pkgs[&(*i, *gen)]; format!("n{}", self.g.instantiate(id)) }
            Op::Alias(n, e) => match self.g.alias_instance_export(nid(self, *n), NAMES[*e]) {
                Ok(id) => format!("n{id}"),
                Err(AliasError::NodeIsNotAnInstance { .. }) => "E:NodeIsNotAnInstance".into(),
                Err(AliasError::InstanceMissingExport { .. }) => "E:InstanceMissingExport".into() },
            Op::SetArg(i, a, n) => match self.g.set_instantiation_argument(nid(self, *i), NAMES[*a], nid(self, *n)) {
                Ok(()) => "ok".into(), Err(e) => format!("E:{}", argerr(&e)) },
            Op::UnsetArg(i, a, n) => match self.g.unset_instantiation_argument(nid(self, *i), NAMES[*a], nid(self, *n)) {
                Ok(()) => "ok".into(), Err(e) => format!("E:{}", argerr(&e)) },
            Op::Export(n, e) => match self.g.export(nid(self, *n), NAMES[*e]) {
                Ok(()) => "ok".into(),
                Err(ExportError::ExportAlreadyExists { node, .. }) => format!("E:ExportAlreadyExists({node})"),
                Err(ExportError::InvalidExportName { .. }) => "E:InvalidExportName".into() },
            Op::Unexport(n) => match self.g.unexport(nid(self, *n)) { Ok(()) => "ok".into(), Err(UnexportError::MustExportDefinition) => "E:MustExportDefinition".into() },
            Op::Name(n, s) => { self.g.set_node_name(nid(self, *n), NAMES[*s]); "ok".into() }
            Op::Rm(n) => { self.g.remove_node(nid(self, *n)); "ok".into() }
            Op::Enc => match self.g.encode(EncodeOptions { define_components: true, validate: true, processor: None }) {
                Ok(_) => "enc:ok".into(),
                Err(EncodeError::ValidationFailure { source }) => format!("enc:E:ValidationFailure({})", source.to_string().replace([';', '|', '\n', '\r'], " ")),
                Err(EncodeError::GraphContainsCycle { .. }) => "enc:E:GraphContainsCycle".into(),
                Err(EncodeError::ImplicitImportConflict { .. }) => "enc:E:ImplicitImportConflict".into(),
                Err(EncodeError::ImportTypeMergeConflict { .. }) => "enc:E:ImportTypeMergeConflict".into() },
        }
    }

    /// canonical dump of everything the public queries (and the guarded hook) report
    fn dump(&self, u: &Universe) -> String {
        let r = catch_unwind(AssertUnwindSafe(|| self.dump_inner(u)));
        r.unwrap_or_else(|_| "DUMP-PANIC".into())
    }
    fn dump_inner(&self, u: &Universe) -> String {
        let g = &self.g;
        let kid = |k: ItemKind| -> String { let s = canon(g.types(), k); u.kid.get(&s).map(|i| i.to_string()).unwrap_or_else(|| format!("?{s}")) };
        let opt_name = |s: Option<&str>| s.map(|x| nidx(x).to_string()).unwrap_or("-".into());
        let mut o = String::new();
        o.push_str("N[");
        for id in g.node_ids() {
            let n = &g[id];
            let tag = match n.kind() { NodeKind::Definition => "D", NodeKind::Import(_) => "I", NodeKind::Instantiation(_) => "S", NodeKind::Alias => "A" };
            let pk = n.package().map(|p| { let (a, b) = pid_pair(p); format!("{a}.{b}") }).unwrap_or("-".into());
            write!(o, "{id}:{tag}:{pk}:{}:{}:{}:{},", kid(n.item_kind()), opt_name(n.export_name()), opt_name(n.name()), opt_name(n.import_name())).unwrap();
        }
        o.push_str("]A[");
        for id in g.node_ids() {
            let args: Vec<String> = g.get_instantiation_arguments(id).map(|(n, s)| format!("{}={s}", nidx(n))).collect();
            if !args.is_empty() { write!(o, "{id}:({}),", args.join(",")).unwrap(); }
        }
        o.push_str("]L[");
        for id in g.node_ids() {
            if let Some((s, e)) = g.get_alias_source(id) { write!(o, "{id}:{s}.{},", nidx(e)).unwrap(); }
        }
        o.push_str("]I[");
        for (n, k, nd) in g.imports() { write!(o, "({},{},{}),", nidx(n), kid(k), nd.map(|x| x.to_string()).unwrap_or("-".into())).unwrap(); }
        o.push_str("]E[");
        for (i, n) in NAMES.iter().enumerate() { if let Some(x) = g.get_export(n) { write!(o, "{i}={x},").unwrap(); } }
        o.push_str("]P[");
        for (i, p) in PKGS.iter().enumerate() {
            let v = p.version.map(|v| semver::Version::parse(v).unwrap());
            if let Some((id, _)) = g.get_package_by_name(p.name, v.as_ref()) { let (a, b) = pid_pair(id); write!(o, "{i}={a}.{b},").unwrap(); }
        }
        o.push(']');
        // internal bookkeeping through the guarded hook: satisfied sets, export order, edges in adjacency order
        let d = g.verif_dump();
        let d = NAMES.iter().enumerate().fold(d, |acc, _| acc);
        // export names -> pool indexes
        let (pre, rest) = d.split_once("]X[").unwrap();
        let (xs, post) = rest.split_once("]G[").unwrap();
        let xs2: String = xs.split(',').filter(|e| !e.is_empty()).map(|e| { let (n, i) = e.rsplit_once('=').unwrap(); format!("{}={},", nidx(n), i) }).collect();
        write!(o, "{pre}]X[{xs2}]G[{post}").unwrap();
        let bad = g.verif_invariants();
        if !bad.is_empty() { write!(o, "V[{}]", bad.join(" / ").replace([';', '|'], " ")).unwrap(); }
        o
    }
}

fn argerr(e: &wac_graph::InstantiationArgumentError) -> &'static str {
    use wac_graph::InstantiationArgumentError::*;
    match e { NodeIsNotAnInstantiation { .. } => "NodeIsNotAnInstantiation", InvalidArgumentName { .. } => "InvalidArgumentName",
        ArgumentTypeMismatch { .. } => "ArgumentTypeMismatch", ArgumentAlreadyPassed { .. } => "ArgumentAlreadyPassed" }
}

/// all ops applicable with live identifiers in the current state (finite alphabet for exhaustive enumeration)
fn alphabet(run: &Run, small: bool) -> Vec<Op> {
    let mut v = Vec::new();
    let nodes = run.live_nodes();
    let names: &[usize] = if small { &[0, 1, 2, 6] } else { &[0, 1, 2, 3, 4, 5, 6, 7, 8, 9, 10, 11] };
    for p in 0..PKGS.len() { if !small || p < 3 || p == 4 { v.push(Op::Reg(p)); } }
    for (k, _) in run.pkgs.iter().filter(|(k, _)| !run.stale.contains(k)) { v.push(Op::Unreg(k.0, k.1)); v.push(Op::Inst(k.0, k.1)); }
    for t in 0..run.local.defs.len() { if !small || t < 3 { for n in names.iter().take(if small { 2 } else { 12 }) { v.push(Op::Def(*n + if small { 6 } else { 0 }, t)); } } }
    for k in 0..run.local.kinds.len() { if !small || k < 3 { for n in names.iter().take(if small { 2 } else { 12 }) { v.push(Op::Imp(*n, k)); } } }
    for n in &nodes {
        for e in names { v.push(Op::Alias(*n, *e)); v.push(Op::Export(*n, *e)); }
        v.push(Op::Unexport(*n)); v.push(Op::Rm(*n)); v.push(Op::Name(*n, 6));
        for m in &nodes { for a in names.iter().take(3) { v.push(Op::SetArg(*n, *a, *m)); v.push(Op::UnsetArg(*n, *a, *m)); } }
    }
    v.retain(|o| match o { Op::Def(n, _) => *n < NAMES.len(), _ => true });
    v
}

fn random_op(run: &Run, r: &mut Rng) -> Op {
    let nodes = run.live_nodes();
    let pk: Vec<(usize, usize)> = run.pkgs.keys().filter(|k| !run.stale.contains(k)).cloned().collect();
    let nm = |r: &mut Rng| -> usize { if r.chance(1, 12) { r.below(NAMES.len() as u64) as usize } else { *r.pick(&[0usize, 1, 2, 3, 4, 5, 6, 7, 8, 11]) } };
    loop {
        let c = r.below(100);
        if c < 10 { return Op::Reg(r.below(PKGS.len() as u64) as usize); }
        if c < 14 && !pk.is_empty() { let k = *r.pick(&pk); return Op::Unreg(k.0, k.1); }
        if c < 26 && !pk.is_empty() { let k = *r.pick(&pk); return Op::Inst(k.0, k.1); }
        if c < 34 { return Op::Def(nm(r), r.below(run.local.defs.len() as u64) as usize); }
        if c < 44 { return Op::Imp(nm(r), r.below(run.local.kinds.len() as u64) as usize); }
        if nodes.is_empty() { continue; }
        let n = *r.pick(&nodes);
        if c < 56 { return Op::Alias(n, nm(r)); }
        if c < 72 { return Op::SetArg(*r.pick(&nodes), *r.pick(&[0usize, 1, 2, 2, 0, 3, 5, 1]), n); }
        if c < 76 { return Op::UnsetArg(*r.pick(&nodes), *r.pick(&[0usize, 1, 2, 5]), n); }
        if c < 84 { return Op::Export(n, nm(r)); }
        if c < 88 { return Op::Unexport(n); }
        if c < 90 { return Op::Name(n, nm(r)); }
        if c < 98 { return Op::Rm(n); }
        return Op::Enc;
    }
}

fn main() {
    let args: Vec<String> = std::env::args().collect();
    let tier = args[1].as_str();
    let seed: u64 = args[2].parse().unwrap();
    if std::env::var("C06_TRACE").is_err() { std::panic::set_hook(Box::new(|_| {})); }
    let u = build_universe();
    let mut co = std::io::BufWriter::new(std::fs::File::create(&args[3]).unwrap());
    let mut io = std::io::BufWriter::new(std::fs::File::create(&args[4]).unwrap());
    for h in &u.header { writeln!(co, "{h}").unwrap(); writeln!(io, "{h}").unwrap(); }
    for (i, k) in u.kinds.iter().enumerate() { writeln!(co, "U kindtext {i} {k}").unwrap(); writeln!(io, "U kindtext {i} {k}").unwrap(); }
    let mut emit = |ops: &[Op], obs: &[String]| {
        writeln!(co, "H {}", ops.iter().map(show_op).collect::<Vec<_>>().join(";")).unwrap();
        writeln!(io, "{}", obs.join(";;").replace(['\n', '\r'], " ")).unwrap();
    };
    let exec = |ops: &[Op]| -> Vec<String> {
        let mut run = Run::new(); let mut obs = Vec::new();
        for o in ops {
            if run.dead { obs.push("SKIPPED".into()); continue; }
            let r = run.apply(&u, o);
            let d = if run.dead { "DEAD".to_string() } else { run.dump(&u) };
            obs.push(format!("{r}|{d}"));
        }
        obs
    };
    if tier == "extend" {
        // search mode: every continuation of length 1 and 2 (full alphabet over live identifiers) of each given prefix
        let mut budget = 60_000usize;
        for line in std::fs::read_to_string(&args[5]).unwrap().lines() {
            if let Some(h) = line.strip_prefix("H ") {
                let prefix: Vec<Op> = h.split(';').filter(|s| !s.is_empty() && *s != "enc").map(parse_op).collect();
                let mut run = Run::new();
                for o in prefix.iter() { if run.dead { break; } run.apply(&u, o); }
                if run.dead { let obs = exec(&prefix); emit(&prefix, &obs); continue; }
                for o1 in alphabet(&run, false) {
                    let mut p1 = prefix.clone(); p1.push(o1);
                    let mut run1 = Run::new();
                    for o in p1.iter() { if run1.dead { break; } run1.apply(&u, o); }
                    let mut p1e = p1.clone(); p1e.push(Op::Enc);
                    let obs = exec(&p1e); emit(&p1e, &obs);
                    if run1.dead || budget == 0 { continue; }
                    for o2 in alphabet(&run1, true) {
                        if budget == 0 { break; } budget -= 1;
                        let mut p2 = p1.clone(); p2.push(o2); p2.push(Op::Enc);
                        let obs = exec(&p2); emit(&p2, &obs);
                    }
                }
            }
        }
        return;
    }
    if let Some(replay) = args.get(5) {
        for line in std::fs::read_to_string(replay).unwrap().lines() {
            if let Some(h) = line.strip_prefix("H ") {
                let ops: Vec<Op> = h.split(';').filter(|s| !s.is_empty()).map(parse_op).collect();
                let obs = exec(&ops); emit(&ops, &obs);
            }
        }
        return;
    }
    let mut r = Rng::new(seed);
    // 1. exhaustive short histories over the small alphabet: a fixed prefix that creates a little state, then
    //    every sequence of `depth` ops over the (state-dependent) alphabet.
    let depth = if tier == "thorough" { 3 } else { 2 };
    let prefixes: Vec<Vec<Op>> = vec![
        vec![],
        vec![Op::Reg(0), Op::Inst(0, 0), Op::Imp(0, 0)],
        vec![Op::Reg(0), Op::Reg(1), Op::Inst(0, 0), Op::Inst(1, 0), Op::Alias(0, 1), Op::SetArg(1, 0, 2)],
        vec![Op::Def(6, 0), Op::Def(7, 2)],
        vec![Op::Reg(4), Op::Inst(0, 0), Op::Imp(3, 0), Op::SetArg(0, 0, 1), Op::SetArg(0, 1, 1)],
    ];
    fn rec(prefix: &mut Vec<Op>, depth: usize, exec: &dyn Fn(&[Op]) -> Vec<String>, emit: &mut dyn FnMut(&[Op], &[String]), u: &Universe, limit: &mut usize) {
        if *limit == 0 { return; }
        // rebuild the state for this prefix to learn the alphabet
        let mut run = Run::new();
        for o in prefix.iter() { if run.dead { break; } run.apply(u, o); }
        if depth == 0 || run.dead { let obs = exec(prefix); emit(prefix, &obs); *limit -= 1; return; }
        for o in alphabet(&run, true) { prefix.push(o); rec(prefix, depth - 1, exec, emit, u, limit); prefix.pop(); }
    }
    let mut limit = if tier == "thorough" { 400_000 } else { 12_000 };
    for p in prefixes { let mut p = p.clone(); rec(&mut p, depth, &exec, &mut emit, &u, &mut limit); }
    // 2. random long histories (adaptive: ops are chosen from the identifiers live in the implementation)
    let (nrand, maxlen) = if tier == "thorough" { (30_000, 120) } else { (2_500, 40) };
    for _ in 0..nrand {
        let len = 3 + r.below(maxlen) as usize;
        let mut run = Run::new(); let mut ops = Vec::new(); let mut obs = Vec::new();
        for _ in 0..len {
            if run.dead { break; }
            let o = random_op(&run, &mut r);
            let res = run.apply(&u, &o);
            let d = if run.dead { "DEAD".to_string() } else { run.dump(&u) };
            obs.push(format!("{res}|{d}")); ops.push(o);
        }
        if !run.dead { let res = run.apply(&u, &Op::Enc); let d = if run.dead { "DEAD".to_string() } else { run.dump(&u) }; obs.push(format!("{res}|{d}")); ops.push(Op::Enc); }
        emit(&ops, &obs);
    }
}
