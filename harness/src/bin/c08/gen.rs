//! Case generators for C08: WIT packages (turned into components by wit-component) and shaped WAT.
//! Every random choice derives from the one seeded PRNG.
use wacv::Rng;

// ------------------------------------------------------------------------------------------------ WIT
#[derive(Clone, Debug)]
struct Named { name: String, res: bool, has_res: bool }

#[derive(Clone, Debug)]
struct Iface { path: String, local: String, types: Vec<Named>, inline_pkg: bool }

const PRIMS: &[&str] = &["bool", "u8", "s8", "u16", "s16", "u32", "s32", "u64", "s64", "f32", "f64", "char", "string"];

struct Wit<'a> { r: &'a mut Rng, rich: bool }

impl<'a> Wit<'a> {
    /// A type expression over the named types in scope.  `borrow_ok`: a `borrow<r>` may appear (parameter position).
    /// Returns (text, mentions a resource).
    fn ty(&mut self, depth: u32, scope: &[Named], borrow_ok: bool, res_ok: bool) -> (String, bool) {
        let pick = self.r.below(if depth == 0 { 4 } else { 14 });
        match pick {
            0 | 1 => (self.r.pick(PRIMS).to_string(), false),
            2 | 3 | 4 => {
                let c: Vec<&Named> = scope.iter().filter(|n| res_ok || !n.has_res).collect();
                if c.is_empty() { return (self.r.pick(PRIMS).to_string(), false); }
                let n = (*self.r.pick(&c)).clone();
                if n.res && borrow_ok && self.r.chance(1, 2) { (format!("borrow<{}>", n.name), true) } else { (n.name.clone(), n.has_res) }
            }
            5 => { let (t, h) = self.ty(depth - 1, scope, false, res_ok); (format!("list<{t}>"), h) }
            6 => { let (t, h) = self.ty(depth - 1, scope, false, res_ok); (format!("option<{t}>"), h) }
            7 => {
                let k = self.r.below(4);
                match k {
                    0 => ("result".into(), false),
                    1 => { let (t, h) = self.ty(depth - 1, scope, false, res_ok); (format!("result<{t}>"), h) }
                    2 => { let (t, h) = self.ty(depth - 1, scope, false, res_ok); (format!("result<_, {t}>"), h) }
                    _ => {
                        let (a, h1) = self.ty(depth - 1, scope, false, res_ok);
                        let (b, h2) = self.ty(depth - 1, scope, false, res_ok);
                        (format!("result<{a}, {b}>"), h1 || h2)
                    }
                }
            }
            8 => {
                let n = 1 + self.r.below(3);
                let mut h = false;
                let v: Vec<String> = (0..n).map(|_| { let (t, x) = self.ty(depth - 1, scope, false, res_ok); h |= x; t }).collect();
                (format!("tuple<{}>", v.join(", ")), h)
            }
            9 if self.rich => { let (t, h) = self.ty(depth - 1, scope, false, res_ok); (format!("list<{t}, {}>", 1 + self.r.below(4)), h) }
            10 if self.rich => {
                // stream payloads: absent, primitive, named, or an ANONYMOUS compound type first met at this point
                // (wit-component rejects exactly `stream<char>`)
                if self.r.chance(1, 4) { ("stream".into(), false) } else {
                    let (t, h) = self.ty(depth - 1, scope, false, res_ok);
                    if t == "char" { ("stream<u8>".into(), false) } else { (format!("stream<{t}>"), h) }
                }
            }
            11 if self.rich => {
                if self.r.chance(1, 4) { ("future".into(), false) } else { let (t, h) = self.ty(depth - 1, scope, false, res_ok); (format!("future<{t}>"), h) }
            }
            12 if self.rich => ("error-context".into(), false),
            _ => (self.r.pick(PRIMS).to_string(), false),
        }
    }

    fn func_sig(&mut self, scope: &[Named], extra_params: &str) -> String {
        let n = self.r.below(4);
        let names = ["a", "b", "c", "x-y"];
        let mut ps: Vec<String> = Vec::new();
        if !extra_params.is_empty() { ps.push(extra_params.to_string()); }
        for i in 0..n { let (t, _) = self.ty(2, scope, true, true); ps.push(format!("{}: {t}", names[i as usize])); }
        let res = if self.r.chance(2, 3) { let (t, _) = self.ty(2, scope, false, true); format!(" -> {t}") } else { String::new() };
        let a = if self.rich && self.r.chance(1, 5) { "async " } else { "" };
        format!("{a}func({}){res}", ps.join(", "))
    }

    /// Type definitions, resources and functions of one interface / inline interface body.
    fn body(&mut self, tag: &str, scope: &mut Vec<Named>, indent: &str, max_defs: u64, max_funcs: u64) -> String {
        let mut o = String::new();
        let pool = ["t", "u", "item", "r", "res", "e", "data"];
        let ndefs = self.r.below(max_defs + 1);
        for k in 0..ndefs {
            let mut name = if self.r.chance(1, 2) { self.r.pick(&pool).to_string() } else { format!("{tag}x{k}") };
            if scope.iter().any(|n| n.name == name) { name = format!("{tag}y{k}"); }
            if scope.iter().any(|n| n.name == name) { continue; }
            match self.r.below(7) {
                0 => {
                    let n = 1 + self.r.below(3);
                    let mut h = false;
                    let f: Vec<String> = (0..n).map(|i| { let (t, x) = self.ty(2, scope, false, true); h |= x; format!("f{i}: {t}") }).collect();
                    o += &format!("{indent}record {name} {{ {} }}\n", f.join(", "));
                    scope.push(Named { name, res: false, has_res: h });
                }
                1 => {
                    let n = 1 + self.r.below(3);
                    let mut h = false;
                    let f: Vec<String> = (0..n).map(|i| {
                        if self.r.chance(1, 3) { format!("c{i}") } else { let (t, x) = self.ty(2, scope, false, true); h |= x; format!("c{i}({t})") }
                    }).collect();
                    o += &format!("{indent}variant {name} {{ {} }}\n", f.join(", "));
                    scope.push(Named { name, res: false, has_res: h });
                }
                2 => { o += &format!("{indent}enum {name} {{ one, two, three }}\n"); scope.push(Named { name, res: false, has_res: false }); }
                3 => { o += &format!("{indent}flags {name} {{ fa, fb }}\n"); scope.push(Named { name, res: false, has_res: false }); }
                4 => {
                    let (t, h) = self.ty(2, scope, false, true);
                    o += &format!("{indent}type {name} = {t};\n");
                    // an alias of a resource is itself usable as a resource handle
                    let is_res = scope.iter().any(|n| n.res && n.name == t);
                    scope.push(Named { name, res: is_res, has_res: h || is_res });
                }
                _ => {
                    // resource with optional constructor / method / static
                    let me = Named { name: name.clone(), res: true, has_res: true };
                    scope.push(me);
                    let mut items = Vec::new();
                    if self.r.chance(1, 2) { let (t, _) = self.ty(1, scope, true, true); items.push(format!("constructor(a: {t});")); }
                    if self.r.chance(1, 2) { let s = self.func_sig(scope, ""); items.push(format!("m: {s};")); }
                    if self.r.chance(1, 3) { let s = self.func_sig(scope, ""); items.push(format!("s: static {s};")); }
                    if items.is_empty() { o += &format!("{indent}resource {name};\n"); } else { o += &format!("{indent}resource {name} {{ {} }}\n", items.join(" ")); }
                }
            }
        }
        let nf = self.r.below(max_funcs + 1);
        for k in 0..nf { let s = self.func_sig(scope, ""); o += &format!("{indent}{tag}f{k}: {s};\n"); }
        o
    }

    fn use_line(&mut self, from: &Iface, scope: &mut Vec<Named>, indent: &str, tag: &str) -> String {
        if from.types.is_empty() { return String::new(); }
        let n = 1 + self.r.below(2.min(from.types.len() as u64));
        let mut items = Vec::new();
        for j in 0..n {
            let t = self.r.pick(&from.types).clone();
            let rename = self.r.chance(1, 3) || scope.iter().any(|x| x.name == t.name);
            let local = if rename { format!("{}{tag}u{j}", t.name) } else { t.name.clone() };
            if scope.iter().any(|x| x.name == local) { continue; }
            items.push(if rename { format!("{} as {local}", t.name) } else { t.name.clone() });
            scope.push(Named { name: local, res: t.res, has_res: t.has_res });
        }
        if items.is_empty() { return String::new(); }
        format!("{indent}use {}.{{{}}};\n", from.path, items.join(", "))
    }
}

fn gen_wit(r: &mut Rng) -> String {
    let rich = r.chance(1, 2);
    let version = match r.below(4) { 0 => "", 1 => "@1.2.0", 2 => "@0.3.1", _ => "@2.0.0-rc.1" };
    let mut w = Wit { r, rich };
    let mut text = format!("package test:gen{version};\n");
    let mut ifaces: Vec<Iface> = Vec::new();
    // an optional second package with its own version track
    if w.r.chance(1, 3) {
        let dv = *w.r.pick(&["@0.2.0", "@0.2.1", "@1.0.0", ""]);
        text += &format!("package dep:other{dv} {{\n");
        let n = 1 + w.r.below(2);
        let mut local: Vec<Iface> = Vec::new();
        for k in 0..n {
            let mut scope = Vec::new();
            let mut b = String::new();
            if k > 0 && w.r.chance(2, 3) { let f = local[0].clone(); let f = Iface { path: f.local.clone(), ..f }; b += &w.use_line(&f, &mut scope, "    ", &format!("d{k}")); }
            b += &w.body(&format!("d{k}"), &mut scope, "    ", 3, 2);
            text += &format!("  interface dt{k} {{\n{b}  }}\n");
            local.push(Iface { path: format!("dep:other/dt{k}{dv}"), local: format!("dt{k}"), types: scope, inline_pkg: true });
        }
        text += "}\n";
        ifaces.extend(local);
    }
    let n = 1 + w.r.below(5);
    for k in 0..n {
        let mut scope = Vec::new();
        let mut b = String::new();
        // use chains and diamonds: up to two earlier interfaces
        let nu = if ifaces.is_empty() { 0 } else { w.r.below(3) };
        let mut used = Vec::new();
        for _ in 0..nu {
            let j = w.r.below(ifaces.len() as u64) as usize;
            if used.contains(&j) { continue; }
            used.push(j);
            let f = ifaces[j].clone();
            b += &w.use_line(&f, &mut scope, "  ", &format!("i{k}"));
        }
        b += &w.body(&format!("i{k}"), &mut scope, "  ", 4, 3);
        text += &format!("interface i{k} {{\n{b}}}\n");
        ifaces.push(Iface { path: format!("i{k}"), local: format!("i{k}"), types: scope, inline_pkg: false });
    }
    // the world
    let mut wb = String::new();
    let mut wscope: Vec<Named> = Vec::new();
    let mut imported: Vec<usize> = Vec::new();
    for (k, i) in ifaces.iter().enumerate() {
        if w.r.chance(1, 2) { wb += &format!("  import {};\n", i.path); imported.push(k); }
    }
    if w.r.chance(1, 3) {
        let mut scope = Vec::new();
        let mut b = String::new();
        if !ifaces.is_empty() && w.r.chance(1, 2) { let f = w.r.pick(&ifaces).clone(); b += &w.use_line(&f, &mut scope, "    ", "n"); }
        b += &w.body("n", &mut scope, "    ", 2, 2);
        wb += &format!("  import inl: interface {{\n{b}  }}\n");
    }
    // world-level uses, type definitions and functions
    let nu = if ifaces.is_empty() { 0 } else { w.r.below(3) };
    for j in 0..nu { let f = w.r.pick(&ifaces).clone(); wb += &w.use_line(&f, &mut wscope, "  ", &format!("w{j}")); }
    if w.r.chance(1, 3) {
        let n = wscope.len();
        let b = w.body("w", &mut wscope, "  ", 2, 0);
        if wscope.len() > n { wb += &b; }
    }
    let nf = w.r.below(3);
    for k in 0..nf { let s = w.func_sig(&wscope, ""); wb += &format!("  import wi{k}: {s};\n"); }
    let mut any_export = false;
    for i in ifaces.iter() {
        if i.inline_pkg { continue; }
        if w.r.chance(2, 5) { wb += &format!("  export {};\n", i.path); any_export = true; }
    }
    if w.r.chance(1, 4) {
        let mut scope = Vec::new();
        let mut b = String::new();
        if !ifaces.is_empty() && w.r.chance(1, 2) { let f = w.r.pick(&ifaces).clone(); b += &w.use_line(&f, &mut scope, "    ", "o"); }
        b += &w.body("o", &mut scope, "    ", 2, 2);
        wb += &format!("  export outl: interface {{\n{b}  }}\n");
        any_export = true;
    }
    let ne = w.r.below(3);
    for k in 0..ne { let s = w.func_sig(&wscope, ""); wb += &format!("  export we{k}: {s};\n"); any_export = true; }
    let _ = any_export;
    text += &format!("world w {{\n{wb}}}\n");
    text
}

// ------------------------------------------------------------------------------------------------ shaped WAT
struct Wat<'a> { r: &'a mut Rng, n: usize }

impl<'a> Wat<'a> {
    fn fresh(&mut self, p: &str) -> String { self.n += 1; format!("{p}{}", self.n) }
    fn prim(&mut self) -> String { self.r.pick(&["bool", "u8", "s16", "u32", "s64", "f32", "f64", "char", "string"]).to_string() }
    /// an anonymous value type expression (records, variants, enums and flags must be named: see `defty`)
    fn valty(&mut self, depth: u32) -> String {
        match self.r.below(if depth == 0 { 2 } else { 9 }) {
            0 | 1 => self.prim(),
            2 => format!("(list {})", self.valty(depth - 1)),
            3 => format!("(option {})", self.valty(depth - 1)),
            4 => format!("(tuple {} {})", self.valty(depth - 1), self.valty(depth - 1)),
            5 => match self.r.below(4) {
                0 => "(result)".into(),
                1 => format!("(result {})", self.valty(depth - 1)),
                2 => format!("(result (error {}))", self.valty(depth - 1)),
                _ => format!("(result {} (error {}))", self.valty(depth - 1), self.valty(depth - 1)),
            },
            6 => format!("(list {} {})", self.valty(depth - 1), 1 + self.r.below(5)),
            _ => match self.r.below(6) {
                0 => "(stream u8)".into(), 1 => "(future string)".into(), 2 => "error-context".into(),
                3 => format!("(stream {})", self.valty(depth - 1)).replace("(stream char)", "(stream u8)"),
                4 => format!("(future {})", self.valty(depth - 1)),
                _ => "(stream)".into(),
            },
        }
    }
    /// the body of a type definition that is about to be named by an import / export
    fn defty(&mut self) -> String {
        match self.r.below(6) {
            0 => format!("(record (field \"a\" {}) (field \"b-c\" {}))", self.valty(1), self.valty(1)),
            1 => format!("(variant (case \"x\") (case \"y\" {}))", self.valty(1)),
            2 => "(enum \"p\" \"q\")".into(),
            3 => "(flags \"f1\" \"f2\" \"f3\")".into(),
            _ => self.valty(2),
        }
    }
    fn functy(&mut self) -> String {
        let n = self.r.below(3);
        let mut s = String::from("(func");
        if self.r.chance(1, 6) { s += " async"; }
        for i in 0..n { s += &format!(" (param \"p{i}\" {})", self.valty(2)); }
        if self.r.chance(1, 2) { s += &format!(" (result {})", self.valty(2)); }
        s + ")"
    }
    fn modulety(&mut self) -> String {
        let mut s = String::from("(core module");
        let imports = ["(import \"env\" \"f\" (func (param i32 i64) (result f32)))", "(import \"env\" \"m\" (memory 1 4))",
            "(import \"\" \"g\" (global (mut i64)))", "(import \"env\" \"t\" (table 2 funcref))", "(import \"e\" \"tag\" (tag (param i32)))"];
        let exports = ["(export \"run\" (func (param f64)))", "(export \"mem\" (memory 2))", "(export \"g\" (global i32))",
            "(export \"tab\" (table 1 8 externref))", "(export \"v\" (func (result v128)))"];
        for i in imports { if self.r.chance(1, 3) { s += " "; s += i; } }
        for e in exports { if self.r.chance(1, 3) { s += " "; s += e; } }
        s + ")"
    }
    /// declarations inside an instance type (`export`s only) ; returns the declarations text
    fn instance_decls(&mut self, depth: u32) -> String {
        let n = 1 + self.r.below(4);
        let mut s = String::new();
        let mut types: Vec<(String, bool)> = Vec::new(); // ($name, is resource)
        for _ in 0..n {
            match self.r.below(if depth == 0 { 5 } else { 8 }) {
                0 => { let t = self.fresh("$t"); let nm = self.fresh("ty"); s += &format!(" (type {t}' {}) (export \"{nm}\" (type {t} (eq {t}')))", self.defty()); types.push((t, false)); }
                1 => { let t = self.fresh("$r"); let nm = self.fresh("res"); s += &format!(" (export \"{nm}\" (type {t} (sub resource)))"); types.push((t, true)); }
                2 => {
                    // a function over the named types exported so far
                    let nm = self.fresh("fn");
                    let mut f = String::from("(func");
                    let mut pre = String::new();
                    for (i, (t, res)) in types.clone().iter().enumerate().take(2) {
                        if *res { let h = self.fresh("$h"); let k = if self.r.chance(1, 2) { "own" } else { "borrow" }; pre += &format!(" (type {h} ({k} {t}))"); f += &format!(" (param \"q{i}\" {h})"); }
                        else { f += &format!(" (param \"q{i}\" {t})"); }
                    }
                    if self.r.chance(1, 2) { f += &format!(" (result {})", self.valty(1)); }
                    f += ")";
                    s += &format!("{pre} (export \"{nm}\" {f})");
                }
                3 => {
                    // re-export of an earlier named type under another name (alias of a type / resource)
                    if let Some((t, res)) = types.last().cloned() { let t2 = self.fresh("$a"); let nm = self.fresh("al"); s += &format!(" (export \"{nm}\" (type {t2} (eq {t})))"); types.push((t2, res)); }
                }
                4 => { let nm = self.fresh("fn"); s += &format!(" (export \"{nm}\" {})", self.functy()); }
                5 => { let nm = self.fresh("in"); s += &format!(" (export \"{nm}\" (instance{}))", self.instance_decls(depth - 1)); }
                6 => { let nm = self.fresh("ft"); let t = self.fresh("$f"); s += &format!(" (type {t}' {}) (export \"{nm}\" (type {t} (eq {t}')))", self.functy()); }
                _ => { let nm = self.fresh("it"); let t = self.fresh("$i"); s += &format!(" (type {t}' (instance{})) (export \"{nm}\" (type {t} (eq {t}')))", self.instance_decls(depth - 1)); }
            }
        }
        s
    }
    /// declarations inside a component type (imports and exports)
    fn component_decls(&mut self, depth: u32) -> String {
        let mut s = String::new();
        let ni = self.r.below(3);
        let mut types: Vec<String> = Vec::new();
        for _ in 0..ni {
            match self.r.below(if depth == 0 { 3 } else { 5 }) {
                0 => { let t = self.fresh("$t"); let nm = self.fresh("ity"); s += &format!(" (type {t}' {}) (import \"{nm}\" (type {t} (eq {t}')))", self.defty()); types.push(t); }
                1 => { let nm = self.fresh("ifn"); s += &format!(" (import \"{nm}\" {})", self.functy()); }
                2 => { let nm = self.fresh("ires"); let t = self.fresh("$r"); s += &format!(" (import \"{nm}\" (type {t} (sub resource)))"); }
                3 => { let nm = self.fresh("iin"); s += &format!(" (import \"{nm}\" (instance{}))", self.instance_decls(depth - 1)); }
                _ => { let nm = self.fresh("imod"); s += &format!(" (import \"{nm}\" {})", self.modulety()); }
            }
        }
        let ne = self.r.below(3);
        for _ in 0..ne {
            match self.r.below(if depth == 0 { 2 } else { 4 }) {
                0 => { let nm = self.fresh("efn"); let p = types.last().map(|t| format!(" (param \"v\" {t})")).unwrap_or_default(); s += &format!(" (export \"{nm}\" (func{p}))"); }
                1 => { let t = self.fresh("$t"); let nm = self.fresh("ety"); s += &format!(" (type {t}' {}) (export \"{nm}\" (type {t} (eq {t}')))", self.defty()); }
                2 => { let nm = self.fresh("ein"); s += &format!(" (export \"{nm}\" (instance{}))", self.instance_decls(depth - 1)); }
                _ => { let nm = self.fresh("eco"); s += &format!(" (export \"{nm}\" (component{}))", self.component_decls(depth - 1)); }
            }
        }
        s
    }
}

/// A component built only from imports and re-exports (every export forwards an import or a type definition), so that
/// it needs no core code: nested component / instance / module / value / type imports and exports.
fn gen_wat(r: &mut Rng) -> String {
    let mut w = Wat { r, n: 0 };
    let mut s = String::from("(component\n");
    let mut exports = String::new();
    let n = 1 + w.r.below(5);
    let mut named_types: Vec<(String, bool)> = Vec::new();
    let mut instances: Vec<String> = Vec::new();
    for _ in 0..n {
        match w.r.below(11) {
            0 => { let i = w.fresh("$i"); let nm = w.fresh("inst"); s += &format!("  (import \"{nm}\" (instance {i}{}))\n", w.instance_decls(2)); instances.push(i.clone());
                   if w.r.chance(1, 2) { let e = w.fresh("xi"); exports += &format!("  (export \"{e}\" (instance {i}))\n"); } }
            1 => { let i = w.fresh("$i"); let v = *w.r.pick(&["", "@1.0.0", "@0.4.2"]); let k = w.fresh("k"); s += &format!("  (import \"ns:pkg/{k}{v}\" (instance {i}{}))\n", w.instance_decls(1)); instances.push(i.clone());
                   if w.r.chance(1, 3) { exports += &format!("  (export \"ns:pkg/{k}x{v}\" (instance {i}))\n"); } }
            2 => { let c = w.fresh("$c"); let nm = w.fresh("comp"); s += &format!("  (import \"{nm}\" (component {c}{}))\n", w.component_decls(2));
                   if w.r.chance(1, 2) { let e = w.fresh("xc"); exports += &format!("  (export \"{e}\" (component {c}))\n"); } }
            3 => { let m = w.fresh("$m"); let nm = w.fresh("mod"); s += &format!("  (import \"{nm}\" {})\n", w.modulety().replacen("(core module", &format!("(core module {m}"), 1));
                   if w.r.chance(1, 2) { let e = w.fresh("xm"); exports += &format!("  (export \"{e}\" (core module {m}))\n"); } }
            4 => { let v = w.fresh("$v"); let nm = w.fresh("val"); s += &format!("  (import \"{nm}\" (value {v} {}))\n", w.valty(2));
                   let e = w.fresh("xv"); exports += &format!("  (export \"{e}\" (value {v}))\n"); }
            5 => { let t = w.fresh("$t"); let nm = w.fresh("ty"); s += &format!("  (type {t}' {})\n  (import \"{nm}\" (type {t} (eq {t}')))\n", w.defty()); named_types.push((t.clone(), false));
                   if w.r.chance(1, 2) { let e = w.fresh("xt"); exports += &format!("  (export \"{e}\" (type {t}))\n"); } }
            6 => { let t = w.fresh("$r"); let nm = w.fresh("res"); s += &format!("  (import \"{nm}\" (type {t} (sub resource)))\n"); named_types.push((t.clone(), true));
                   if w.r.chance(1, 2) { let e = w.fresh("xr"); exports += &format!("  (export \"{e}\" (type {t}))\n"); } }
            7 => {
                // a function over named types imported so far
                let f = w.fresh("$f"); let nm = w.fresh("fn");
                let mut pre = String::new(); let mut sig = String::from("(func ") + &f;
                for (i, (t, res)) in named_types.clone().iter().enumerate().take(3) {
                    if *res { let h = w.fresh("$h"); let k = if w.r.chance(1, 2) { "own" } else { "borrow" }; pre += &format!("  (type {h} ({k} {t}))\n"); sig += &format!(" (param \"a{i}\" {h})"); }
                    else { sig += &format!(" (param \"a{i}\" {t})"); }
                }
                if w.r.chance(1, 2) { sig += &format!(" (result {})", w.valty(1)); }
                s += &format!("{pre}  (import \"{nm}\" {sig}))\n");
                if w.r.chance(1, 2) { let e = w.fresh("xf"); exports += &format!("  (export \"{e}\" (func {f}))\n"); }
            }
            8 => { let t = w.fresh("$ct"); let nm = w.fresh("cty"); s += &format!("  (type {t} (component{}))\n", w.component_decls(2)); exports += &format!("  (export \"{nm}\" (type {t}))\n"); }
            9 => {
                // the shape `find_definitions` looks for: a component type with a single interface-named export
                let t = w.fresh("$d"); let k = w.fresh("d"); let inner = if w.r.chance(2, 3) { format!("(instance{})", w.instance_decls(1)) } else { format!("(component{})", w.component_decls(1)) };
                s += &format!("  (type {t} (component (export \"ns:defs/{k}\" {inner})))\n"); exports += &format!("  (export \"{k}\" (type {t}))\n");
            }
            _ => { let t = w.fresh("$it"); let nm = w.fresh("ity"); s += &format!("  (type {t} (instance{}))\n", w.instance_decls(2));
                   if w.r.chance(1, 2) { exports += &format!("  (export \"{nm}\" (type {t}))\n"); } else { let nm2 = w.fresh("inst"); s += &format!("  (import \"{nm2}\" (instance (type {t})))\n  (import \"{nm2}b\" (instance (type {t})))\n"); } }
        }
    }
    // aliases of instance exports used by later imports: a type of an imported instance referenced by a later function
    if let Some(i) = instances.first() { let _ = i; }
    s += &exports;
    s += ")\n";
    s
}

/// Hand-written shapes that exercise particular paths of the converter.
fn fixed_cases() -> Vec<(String, String)> {
    let wit = |s: &str| ("wit".to_string(), s.to_string());
    let wat = |s: &str| ("wat".to_string(), s.to_string());
    vec![
        wit("package test:gen@1.2.0;\ninterface types { record r { a: u8, b: string } type t = r; resource res { constructor(x: u32); m: func() -> r; s: static func(a: borrow<res>) -> res; } enum e { x, y } }\ninterface api { use types.{r, res, e as ee}; f: func(x: r, y: res) -> result<ee, string>; }\ninterface third { use api.{r}; g: func() -> list<r>; }\nworld w { import api; import third; use types.{t}; import h: func(x: t); export api; export k: func() -> option<u8>; }\n"),
        wit("package test:gen;\ninterface i0 { type fl = list<u8, 4>; type st = stream<u8>; type fu = future<string>; type ec = error-context; flags fg { a, b } variant v { x, y(u8), z(list<string>) } f: async func(x: fl) -> st; g: func(a: fu, b: ec, c: fg, d: v) -> tuple<u8, char>; }\nworld w { import i0; export i0; export h: async func() -> result; }\n"),
        wit("package test:gen@1.0.0;\npackage dep:other@0.2.0 { interface types { resource r { m: func(); } record t { a: u8 } } interface types2 { use types.{r, t}; f: func(x: borrow<r>) -> t; } }\ninterface i0 { use dep:other/types@0.2.0.{r, t as tt}; resource r2 { constructor(a: r); } f: func(x: r, y: tt) -> r2; }\nworld w { import dep:other/types2@0.2.0; import i0; use i0.{r2}; use dep:other/types@0.2.0.{r as rr}; resource wr; import k: func(a: r2, c: rr); export i0; export m: func() -> r2; }\n"),
        wit("package test:gen;\ninterface i0 { record rec { a: u8 } f1: func(a: stream<list<u8>>) -> stream<tuple<u32, string>>; f2: func(a: future<list<string>>, b: stream<rec>, c: future<option<rec>>) -> future<result<u8, string>>; f3: async func(a: list<list<u8>, 3>, b: stream<string>, c: stream<bool>) -> list<stream<u8>>; f4: func(a: stream<option<u16>>, b: future<tuple<rec, rec>>) -> stream<result<rec>>; f5: func(a: error-context, b: list<error-context, 2>) -> option<future<stream<list<u8, 4>>>>; }\nworld w { import i0; export i0; export g: func(a: stream<list<u8>>) -> future<list<u32>>; import h: async func(a: future<tuple<u8, list<char>>>) -> stream<option<string>>; }\n"),
        // diamond: two interfaces use the same type of a third, a fourth uses it through both
        wit("package test:gen;\ninterface base { record p { x: u32 } resource h; }\ninterface left { use base.{p, h}; lf: func(a: p) -> h; }\ninterface right { use base.{p as q, h as hh}; rf: func(a: q, b: borrow<hh>); }\ninterface top { use left.{p}; use right.{q, hh}; tf: func(a: p, b: q) -> hh; }\nworld w { import top; export left; export right; }\n"),
        wat("(component (type $t' (record (field \"a\" u8))) (import \"t\" (type $t (eq $t'))) (import \"f\" (func $f (param \"x\" $t) (result $t))) (export \"g\" (func $f)) (export \"t2\" (type $t)))"),
        wat("(component (import \"r\" (type $r (sub resource))) (import \"r2\" (type $r2 (eq $r))) (type $o (own $r2)) (type $b (borrow $r)) (import \"f\" (func $f (param \"x\" $b) (result $o))) (export \"r3\" (type $r2)) (export \"g\" (func $f)))"),
        wat("(component (type $it (instance (export \"f\" (func (param \"a\" u8))))) (import \"a\" (instance $a (type $it))) (import \"b\" (instance $b (type $it))) (export \"c\" (instance $a)))"),
        wat("(component (import \"m\" (core module $m (import \"env\" \"mem\" (memory 1)) (export \"run\" (func (param i32))))) (import \"v\" (value $v string)) (export \"m2\" (core module $m)) (export \"v2\" (value $v)))"),
        wat("(component (type $c (component (type $r' (record (field \"x\" u8))) (import \"ty\" (type $r (eq $r'))) (import \"f\" (func (param \"p\" $r))) (export \"g\" (func (result $r))))) (import \"c\" (component $x (type $c))) (export \"ct\" (type $c)) (export \"c2\" (component $x)))"),
        wat("(component (type $d (component (export \"ns:defs/iface\" (instance (type $r' (enum \"a\" \"b\")) (export \"e\" (type $r (eq $r'))) (export \"f\" (func (param \"x\" $r))))))) (export \"iface\" (type $d)) (type $w (component (export \"ns:defs/world\" (component (import \"i\" (func)) (export \"o\" (func)))))) (export \"world\" (type $w)))"),
        wat("(component (import \"a:b/c@1.0.0\" (instance $i (type $t' (record (field \"k\" string))) (export \"t\" (type $t (eq $t'))) (export \"r\" (type $r (sub resource))) (type $o (own $r)) (export \"mk\" (func (param \"x\" $t) (result $o))))) (alias export $i \"t\" (type $t)) (alias export $i \"r\" (type $r)) (type $b (borrow $r)) (import \"use-it\" (func $u (param \"a\" $t) (param \"b\" $b))) (import \"d:e/f\" (instance $j (alias outer 1 $t (type $t0)) (export \"t\" (type $t1 (eq $t0))) (alias outer 1 $r (type $r0)) (export \"r\" (type $r1 (eq $r0))) (type $o1 (own $r1)) (export \"g\" (func (param \"a\" $t1) (result $o1))))) (export \"x\" (instance $j)) (export \"y\" (func $u)))"),
    ]
}

pub fn generate(tier: &str, seed: u64) -> Vec<(String, String)> {
    let (nwit, nwat) = if tier == "thorough" { (6000, 2500) } else { (150, 60) };
    let mut out = fixed_cases();
    let mut r = Rng::new(seed);
    for _ in 0..nwit { out.push(("wit".into(), gen_wit(&mut r))); }
    for _ in 0..nwat { out.push(("wat".into(), gen_wat(&mut r))); }
    out
}
