//! C08 correspondence: `Package::from_bytes` (crates/wac-types/src/package.rs) and the component type written for an
//! imported dependency (`TypeEncoder::component`, crates/wac-graph/src/encoding.rs).
//!
//! usage: c08 <quick|thorough> <seed> <cases_out> <impl_out> [replay_in]
//!        c08 probe <file.wit|file.wat>          (prints everything for one source; debugging aid)
//!
//! Every case is one valid component, produced either from generated WIT (wit-parser + `dummy_module` +
//! `ComponentEncoder`) or from generated WAT text.  For each component:
//!  (a) INDEPENDENT reading with wasmparser: the component is validated, its import/export names are read in section
//!      order with `Parser`, and the validator's type information is walked from `component_entity_type_of_{import,export}`
//!      into an abstract type graph (every distinct validator type id is one node; `peel_alias` links are kept);
//!  (b) the real `Package::from_bytes` into an empty `Types`; all six arenas are dumped through the public API;
//!  (c) re-encoding: the package is registered in a `CompositionGraph`, instantiated, its first export (if any) exported,
//!      and `encode`d with `define_components: false`; an outer component is assembled which repeats the output's own
//!      leading type/import/alias sections, embeds the output and the ORIGINAL component and instantiates the output with
//!      the original component as its `unlocked-dep` argument; wasmparser validates the outer component.
//!
//! cases_out line:  c08 TAB <id> TAB <wit|wat> TAB <escaped source> TAB <graph>
//! impl_out line:   <arenas | PANIC:msg | ERR:msg> TAB <reencode status>
//! replay_in line:  <wit|wat> TAB <escaped source>      (or a full cases_out line)
//!
//! Graph text (tokens separated by one space, items separated by " ; "):
//!   G <n> ; <node 0> ; ... ; <node n-1> ; IM k (name ent).. ; EX k (name ent).. ; IF k name..
//!   node = <peel|-> body
//!   body = D prim pK | D record k (name val).. | D variant k (name oval).. | D list val | D fsl val N | D tuple k val.. |
//!          D flags k name.. | D enum k name.. | D option val | D result oval oval | D own N | D borrow N |
//!          D future oval | D stream oval | D map val val
//!        | F async k (name val).. oval | I k (name ent).. | C ki (name ent).. ke (name ent).. | R rid
//!        | M ki (mod name extern).. ke (name extern)..  | M !      (module type wac cannot represent)
//!   val = pK | tN      oval = - | val      ent = m:N | f:N | v:val | t:REF:CREATED | i:N | c:N
//!   IF = the names (among all names of the graph) that wasmparser's `ComponentName` classifies as interface names
//! Arena text (same token conventions):
//!   D ... (c07 syntax) ; R name - | R name a<src> <owner|-> ; F async k (name vt).. ovt ;
//!   I <id|-> ku (name iface orig|-).. k (name kind).. ; W <id|-> ku (..).. ki (name kind).. ke (name kind).. ; M ... ;
//!   P <world> <instance interface> k (name kind)..
use std::collections::{BTreeSet, HashMap};
use std::fmt::Write as _;
use std::io::Write;
use std::panic::{catch_unwind, AssertUnwindSafe};
use wac_graph::{CompositionGraph, EncodeOptions};
use wac_types::{
    CoreExtern, CoreFuncType, CoreRefType, CoreType, DefinedType, HeapType, ItemKind, Package, PrimitiveType, Type,
    Types, ValueType,
};

use wasmparser::component_types as wt;
use wasmparser::{Parser, Payload, Validator, WasmFeatures};

// ------------------------------------------------------------------------------------------------ text helpers
fn esc_name(s: &str) -> String {
    if s.is_empty() { return "%".into(); }
    let mut o = String::new();
    for b in s.bytes() {
        if b.is_ascii_graphic() && b != b';' && b != b'%' { o.push(b as char); } else { write!(o, "%{b:02X}").unwrap(); }
    }
    o
}
fn esc_src(s: &str) -> String { s.replace('\\', "\\\\").replace('\n', "\\n").replace('\t', "\\t") }
fn unesc_src(s: &str) -> String {
    let mut o = String::new();
    let mut it = s.chars();
    while let Some(c) = it.next() {
        if c == '\\' { match it.next() { Some('n') => o.push('\n'), Some('t') => o.push('\t'), Some(x) => o.push(x), None => {} } } else { o.push(c); }
    }
    o
}
fn one_line(s: &str) -> String { s.replace(['\n', '\t'], " ") }

// ------------------------------------------------------------------------------------------------ (a) validator graph
fn prim_idx_wp(p: wasmparser::PrimitiveValType) -> u8 {
    use wasmparser::PrimitiveValType as P;
    match p {
        P::U8 => 0, P::S8 => 1, P::U16 => 2, P::S16 => 3, P::U32 => 4, P::S32 => 5, P::U64 => 6, P::S64 => 7,
        P::F32 => 8, P::F64 => 9, P::Char => 10, P::Bool => 11, P::String => 12, P::ErrorContext => 13,
    }
}

struct Dumper<'a> {
    types: &'a wasmparser::types::Types,
    ids: HashMap<wt::AnyTypeId, usize>,
    nodes: Vec<String>,
    rids: HashMap<wt::ResourceId, usize>,
    names: BTreeSet<String>,
}

impl<'a> Dumper<'a> {
    fn new(types: &'a wasmparser::types::Types) -> Self {
        Dumper { types, ids: HashMap::new(), nodes: Vec::new(), rids: HashMap::new(), names: BTreeSet::new() }
    }
    fn name(&mut self, n: &str) -> String { self.names.insert(n.to_string()); esc_name(n) }
    fn val(&mut self, v: &wt::ComponentValType) -> String {
        match v {
            wt::ComponentValType::Primitive(p) => format!("p{}", prim_idx_wp(*p)),
            wt::ComponentValType::Type(id) => format!("t{}", self.any(wt::ComponentAnyTypeId::Defined(*id))),
        }
    }
    fn oval(&mut self, v: &Option<wt::ComponentValType>) -> String { match v { None => "-".into(), Some(v) => self.val(v) } }
    fn ent(&mut self, e: &wt::ComponentEntityType) -> String {
        use wt::ComponentEntityType as E;
        match e {
            E::Module(id) => format!("m:{}", self.module(*id)),
            E::Func(id) => format!("f:{}", self.any(wt::ComponentAnyTypeId::Func(*id))),
            E::Value(v) => format!("v:{}", self.val(v)),
            E::Type { referenced, created } => { let r = self.any(*referenced); let c = self.any(*created); format!("t:{r}:{c}") }
            E::Instance(id) => format!("i:{}", self.any(wt::ComponentAnyTypeId::Instance(*id))),
            E::Component(id) => format!("c:{}", self.any(wt::ComponentAnyTypeId::Component(*id))),
        }
    }
    fn items<'b>(&mut self, l: impl Iterator<Item = (&'b String, &'b wt::ComponentEntityType)>) -> String {
        let v: Vec<String> = l.map(|(n, e)| { let n = self.name(n); format!("{n} {}", self.ent(e)) }).collect();
        if v.is_empty() { "0".into() } else { format!("{} {}", v.len(), v.join(" ")) }
    }
    fn any(&mut self, id: wt::ComponentAnyTypeId) -> usize {
        let key = wt::AnyTypeId::Component(id);
        if let Some(i) = self.ids.get(&key) { return *i; }
        let idx = self.nodes.len();
        self.ids.insert(key, idx);
        self.nodes.push(String::new());
        let peel = match self.types.peel_alias(id) { Some(n) => self.any(n).to_string(), None => "-".into() };
        let types = self.types;
        let body = match id {
            wt::ComponentAnyTypeId::Resource(r) => {
                let n = self.rids.len();
                format!("R {}", *self.rids.entry(r.resource()).or_insert(n))
            }
            wt::ComponentAnyTypeId::Defined(d) => {
                use wt::ComponentDefinedType as D;
                let t = match &types[d] {
                    D::Primitive(p) => format!("prim p{}", prim_idx_wp(*p)),
                    D::Record(r) => {
                        let v: Vec<String> = r.fields.iter().map(|(n, t)| format!("{} {}", esc_name(n.as_str()), self.val(t))).collect();
                        format!("record {} {}", v.len(), v.join(" "))
                    }
                    D::Variant(r) => {
                        let v: Vec<String> = r.cases.iter().map(|(n, c)| format!("{} {}", esc_name(n.as_str()), self.oval(&c.ty))).collect();
                        format!("variant {} {}", v.len(), v.join(" "))
                    }
                    D::List(t) => format!("list {}", self.val(t)),
                    D::Map(k, v) => { let k = self.val(k); format!("map {k} {}", self.val(v)) }
                    D::FixedLengthList(t, n) => format!("fsl {} {n}", self.val(t)),
                    D::Tuple(t) => { let v: Vec<String> = t.types.iter().map(|t| self.val(t)).collect(); format!("tuple {} {}", v.len(), v.join(" ")) }
                    D::Flags(f) => { let v: Vec<String> = f.iter().map(|n| esc_name(n.as_str())).collect(); format!("flags {} {}", v.len(), v.join(" ")) }
                    D::Enum(f) => { let v: Vec<String> = f.iter().map(|n| esc_name(n.as_str())).collect(); format!("enum {} {}", v.len(), v.join(" ")) }
                    D::Option(t) => format!("option {}", self.val(t)),
                    D::Result { ok, err } => { let o = self.oval(ok); format!("result {o} {}", self.oval(err)) }
                    D::Own(r) => format!("own {}", self.any(wt::ComponentAnyTypeId::Resource(*r))),
                    D::Borrow(r) => format!("borrow {}", self.any(wt::ComponentAnyTypeId::Resource(*r))),
                    D::Future(t) => format!("future {}", self.oval(t)),
                    D::Stream(t) => format!("stream {}", self.oval(t)),
                };
                format!("D {}", t.trim_end())
            }
            wt::ComponentAnyTypeId::Func(f) => {
                let ft = &types[f];
                let ps: Vec<String> = ft.params.iter().map(|(n, t)| format!("{} {}", esc_name(n.as_str()), self.val(t))).collect();
                let r = self.oval(&ft.result);
                format!("F {} {} {} {r}", ft.async_ as u8, ps.len(), ps.join(" ")).split_whitespace().collect::<Vec<_>>().join(" ")
            }
            wt::ComponentAnyTypeId::Instance(i) => format!("I {}", self.items(types[i].exports.iter())),
            wt::ComponentAnyTypeId::Component(c) => {
                let im = self.items(types[c].imports.iter());
                format!("C {im} {}", self.items(types[c].exports.iter()))
            }
        };
        self.nodes[idx] = format!("{peel} {body}");
        idx
    }
    fn module(&mut self, id: wt::ComponentCoreModuleTypeId) -> usize {
        let key = wt::AnyTypeId::Core(wt::ComponentCoreTypeId::Module(id));
        if let Some(i) = self.ids.get(&key) { return *i; }
        let idx = self.nodes.len();
        self.ids.insert(key, idx);
        let m = &self.types[id];
        let mut ok = true;
        let mut im = Vec::new();
        for ((a, b), e) in m.imports.iter() {
            match self.core_extern(e) { Some(x) => im.push(format!("{} {} {x}", esc_name(a), esc_name(b))), None => ok = false }
        }
        let mut ex = Vec::new();
        for (a, e) in m.exports.iter() {
            match self.core_extern(e) { Some(x) => ex.push(format!("{} {x}", esc_name(a))), None => ok = false }
        }
        let body = if ok { format!("M {} {} {} {}", im.len(), im.join(" "), ex.len(), ex.join(" ")).split_whitespace().collect::<Vec<_>>().join(" ") } else { "M !".into() };
        self.nodes.push(format!("- {body}"));
        idx
    }
    fn heap(h: wasmparser::HeapType) -> Option<String> {
        use wasmparser::AbstractHeapType as A;
        match h {
            wasmparser::HeapType::Abstract { shared: false, ty } => Some(match ty {
                A::Any => "any", A::Func => "func", A::Extern => "extern", A::Eq => "eq", A::I31 => "i31", A::None => "none",
                A::NoExtern => "noextern", A::NoFunc => "nofunc", A::Struct => "struct", A::Array => "array", A::Exn => "exn",
                A::NoExn => "noexn", A::Cont => "cont", A::NoCont => "nocont",
            }.to_string()),
            _ => None, // shared / concrete / exact heap types are not generated by this harness
        }
    }
    fn reft(r: wasmparser::RefType) -> Option<String> { Some(format!("r{}.{}", r.is_nullable() as u8, Self::heap(r.heap_type())?)) }
    fn coret(v: wasmparser::ValType) -> Option<String> {
        use wasmparser::ValType as V;
        Some(match v { V::I32 => "i32".into(), V::I64 => "i64".into(), V::F32 => "f32".into(), V::F64 => "f64".into(), V::V128 => "v128".into(), V::Ref(r) => Self::reft(r)? })
    }
    fn corefunc(&self, id: wasmparser::types::CoreTypeId) -> Option<String> {
        let f = self.types[id].unwrap_func();
        let p: Option<Vec<String>> = f.params().iter().map(|v| Self::coret(*v)).collect();
        let r: Option<Vec<String>> = f.results().iter().map(|v| Self::coret(*v)).collect();
        let (p, r) = (p?, r?);
        Some(format!("{} {} {} {}", p.len(), p.join(" "), r.len(), r.join(" ")).split_whitespace().collect::<Vec<_>>().join(" "))
    }
    fn core_extern(&self, e: &wasmparser::types::EntityType) -> Option<String> {
        use wasmparser::types::EntityType as E;
        let on = |x: Option<u64>| x.map(|v| v.to_string()).unwrap_or("-".into());
        Some(match e {
            E::Func(id) => format!("func {}", self.corefunc(*id)?),
            E::Tag(id) => format!("tag {}", self.corefunc(*id)?),
            E::Table(t) => format!("table {} {} {} {} {}", Self::reft(t.element_type)?, t.initial, on(t.maximum), t.table64 as u8, t.shared as u8),
            E::Memory(m) => format!("memory {} {} {} {} {}", m.memory64 as u8, m.shared as u8, m.initial, on(m.maximum), on(m.page_size_log2.map(|x| x as u64))),
            E::Global(g) => format!("global {} {} {}", Self::coret(g.content_type)?, g.mutable as u8, g.shared as u8),
            _ => return None,
        })
    }
}

/// Import and export names of the top-level component, in section order (independent of `Package::from_bytes`).
fn top_level_names(bytes: &[u8]) -> anyhow::Result<(Vec<String>, Vec<String>)> {
    let (mut im, mut ex, mut depth) = (Vec::new(), Vec::new(), 0usize);
    for p in Parser::new(0).parse_all(bytes) {
        match p? {
            Payload::ModuleSection { .. } | Payload::ComponentSection { .. } => depth += 1,
            Payload::End(_) => depth = depth.saturating_sub(1),
            Payload::ComponentImportSection(s) if depth == 0 => for i in s { im.push(i?.name.0.to_string()); },
            Payload::ComponentExportSection(s) if depth == 0 => for e in s { ex.push(e?.name.0.to_string()); },
            _ => {}
        }
    }
    Ok((im, ex))
}

fn graph_of(bytes: &[u8]) -> anyhow::Result<String> {
    let types = Validator::new_with_features(WasmFeatures::all()).validate_all(bytes)?;
    let (im, ex) = top_level_names(bytes)?;
    let mut d = Dumper::new(&types);
    let mut ims = Vec::new();
    for n in &im {
        let e = types.component_entity_type_of_import(n).ok_or_else(|| anyhow::anyhow!("no import {n}"))?;
        let n = d.name(n);
        ims.push(format!("{n} {}", d.ent(&e)));
    }
    let mut exs = Vec::new();
    for n in &ex {
        let e = types.component_entity_type_of_export(n).ok_or_else(|| anyhow::anyhow!("no export {n}"))?;
        let n = d.name(n);
        exs.push(format!("{n} {}", d.ent(&e)));
    }
    let ifn: Vec<String> = d.names.iter().filter(|n| {
        matches!(wasmparser::names::ComponentName::new_with_features(n, 0, WasmFeatures::all()).map(|c| matches!(c.kind(), wasmparser::names::ComponentNameKind::Interface(_))), Ok(true))
    }).map(|n| esc_name(n)).collect();
    let mut o = format!("G {}", d.nodes.len());
    for n in &d.nodes { o.push_str(" ; "); o.push_str(n); }
    let cnt = |v: &Vec<String>| if v.is_empty() { "0".to_string() } else { format!("{} {}", v.len(), v.join(" ")) };
    write!(o, " ; IM {} ; EX {} ; IF {}", cnt(&ims), cnt(&exs), cnt(&ifn)).unwrap();
    Ok(o)
}

// ------------------------------------------------------------------------------------------------ (b) wac arenas
fn prim_idx(p: PrimitiveType) -> u8 {
    use PrimitiveType as P;
    match p {
        P::U8 => 0, P::S8 => 1, P::U16 => 2, P::S16 => 3, P::U32 => 4, P::S32 => 5, P::U64 => 6, P::S64 => 7,
        P::F32 => 8, P::F64 => 9, P::Char => 10, P::Bool => 11, P::String => 12, P::ErrorContext => 13,
    }
}
fn vt(v: &ValueType) -> String {
    match v { ValueType::Primitive(p) => format!("p{}", prim_idx(*p)), ValueType::Defined(d) => format!("d{d}"), ValueType::Own(r) => format!("o{r}"), ValueType::Borrow(r) => format!("b{r}") }
}
fn ovt(v: &Option<ValueType>) -> String { v.as_ref().map(vt).unwrap_or("-".into()) }
fn kind(k: &ItemKind) -> String {
    match k {
        ItemKind::Type(Type::Resource(r)) => format!("tr:{r}"), ItemKind::Type(Type::Func(f)) => format!("tf:{f}"),
        ItemKind::Type(Type::Value(v)) => format!("tv:{}", vt(v)), ItemKind::Type(Type::Interface(i)) => format!("ti:{i}"),
        ItemKind::Type(Type::World(w)) => format!("tw:{w}"), ItemKind::Type(Type::Module(m)) => format!("tm:{m}"),
        ItemKind::Func(f) => format!("f:{f}"), ItemKind::Instance(i) => format!("i:{i}"), ItemKind::Component(w) => format!("c:{w}"),
        ItemKind::Module(m) => format!("m:{m}"), ItemKind::Value(v) => format!("v:{}", vt(v)),
    }
}
fn squeeze(s: String) -> String { s.split_whitespace().collect::<Vec<_>>().join(" ") }
fn kitems(m: &indexmap::IndexMap<String, ItemKind>) -> String {
    let v: Vec<String> = m.iter().map(|(n, k)| format!("{} {}", esc_name(n), kind(k))).collect();
    format!("{} {}", v.len(), v.join(" "))
}
fn uses(m: &indexmap::IndexMap<String, wac_types::UsedType>) -> String {
    let v: Vec<String> = m.iter().map(|(n, u)| format!("{} {} {}", esc_name(n), u.interface, u.name.as_deref().map(esc_name).unwrap_or("-".into()))).collect();
    format!("{} {}", v.len(), v.join(" "))
}
fn heap_w(h: &HeapType) -> String {
    match h {
        HeapType::Concrete(i) => format!("c{i}"), HeapType::Func => "func".into(), HeapType::Extern => "extern".into(), HeapType::Any => "any".into(),
        HeapType::None => "none".into(), HeapType::NoExtern => "noextern".into(), HeapType::NoFunc => "nofunc".into(), HeapType::Eq => "eq".into(),
        HeapType::Struct => "struct".into(), HeapType::Array => "array".into(), HeapType::I31 => "i31".into(), HeapType::Exn => "exn".into(),
        HeapType::NoExn => "noexn".into(), HeapType::Cont => "cont".into(), HeapType::NoCont => "nocont".into(),
    }
}
fn reft_w(r: &CoreRefType) -> String { format!("r{}.{}", r.nullable as u8, heap_w(&r.heap_type)) }
fn coret_w(c: &CoreType) -> String {
    match c { CoreType::I32 => "i32".into(), CoreType::I64 => "i64".into(), CoreType::F32 => "f32".into(), CoreType::F64 => "f64".into(), CoreType::V128 => "v128".into(), CoreType::Ref(r) => reft_w(r) }
}
fn corefunc_w(f: &CoreFuncType) -> String {
    let p: Vec<String> = f.params.iter().map(coret_w).collect();
    let r: Vec<String> = f.results.iter().map(coret_w).collect();
    squeeze(format!("{} {} {} {}", p.len(), p.join(" "), r.len(), r.join(" ")))
}
fn extern_w(e: &CoreExtern) -> String {
    let on = |x: &Option<u64>| x.map(|v| v.to_string()).unwrap_or("-".into());
    match e {
        CoreExtern::Func(f) => format!("func {}", corefunc_w(f)),
        CoreExtern::Tag(f) => format!("tag {}", corefunc_w(f)),
        CoreExtern::Table { element_type, initial, maximum, table64, shared } => format!("table {} {initial} {} {} {}", reft_w(element_type), on(maximum), *table64 as u8, *shared as u8),
        CoreExtern::Memory { memory64, shared, initial, maximum, page_size_log2 } => format!("memory {} {} {initial} {} {}", *memory64 as u8, *shared as u8, on(maximum), on(&page_size_log2.map(|x| x as u64))),
        CoreExtern::Global { val_type, mutable, shared } => format!("global {} {} {}", coret_w(val_type), *mutable as u8, *shared as u8),
    }
}

fn arenas(types: &Types, pkg: &Package) -> String {
    let mut o: Vec<String> = Vec::new();
    for d in types.defined_types() {
        let t = match d {
            DefinedType::Tuple(l) => format!("tuple {} {}", l.len(), l.iter().map(vt).collect::<Vec<_>>().join(" ")),
            DefinedType::List(v) => format!("list {}", vt(v)),
            DefinedType::FixedSizeList(v, n) => format!("fsl {} {n}", vt(v)),
            DefinedType::Option(v) => format!("option {}", vt(v)),
            DefinedType::Result { ok, err } => format!("result {} {}", ovt(ok), ovt(err)),
            DefinedType::Variant(v) => format!("variant {} {}", v.cases.len(), v.cases.iter().map(|(n, t)| format!("{} {}", esc_name(n), ovt(t))).collect::<Vec<_>>().join(" ")),
            DefinedType::Record(r) => format!("record {} {}", r.fields.len(), r.fields.iter().map(|(n, t)| format!("{} {}", esc_name(n), vt(t))).collect::<Vec<_>>().join(" ")),
            DefinedType::Flags(f) => format!("flags {} {}", f.0.len(), f.0.iter().map(|n| esc_name(n)).collect::<Vec<_>>().join(" ")),
            DefinedType::Enum(f) => format!("enum {} {}", f.0.len(), f.0.iter().map(|n| esc_name(n)).collect::<Vec<_>>().join(" ")),
            DefinedType::Alias(v) => format!("alias {}", vt(v)),
            DefinedType::Stream(v) => format!("stream {}", ovt(v)),
            DefinedType::Future(v) => format!("future {}", ovt(v)),
        };
        o.push(squeeze(format!("D {t}")));
    }
    for r in types.resources() {
        o.push(match &r.alias {
            None => format!("R {} -", esc_name(&r.name)),
            Some(a) => format!("R {} a{} {}", esc_name(&r.name), a.source, a.owner.map(|x| x.to_string()).unwrap_or("-".into())),
        });
    }
    for f in types.func_types() {
        let ps: Vec<String> = f.params.iter().map(|(n, t)| format!("{} {}", esc_name(n), vt(t))).collect();
        o.push(squeeze(format!("F {} {} {} {}", f.is_async as u8, ps.len(), ps.join(" "), ovt(&f.result))));
    }
    for i in types.interfaces() {
        o.push(squeeze(format!("I {} {} {}", i.id.as_deref().map(esc_name).unwrap_or("-".into()), uses(&i.uses), kitems(&i.exports))));
    }
    for w in types.worlds() {
        o.push(squeeze(format!("W {} {} {} {}", w.id.as_deref().map(esc_name).unwrap_or("-".into()), uses(&w.uses), kitems(&w.imports), kitems(&w.exports))));
    }
    for m in types.modules() {
        let im: Vec<String> = m.imports.iter().map(|((a, b), e)| format!("{} {} {}", esc_name(a), esc_name(b), extern_w(e))).collect();
        let ex: Vec<String> = m.exports.iter().map(|(a, e)| format!("{} {}", esc_name(a), extern_w(e))).collect();
        o.push(squeeze(format!("M {} {} {} {}", im.len(), im.join(" "), ex.len(), ex.join(" "))));
    }
    o.push(squeeze(format!("P {} {} {}", pkg.ty(), pkg.instance_type(), kitems(pkg.definitions()))));
    o.join(" ; ")
}

fn panic_msg(e: Box<dyn std::any::Any + Send>) -> String {
    if let Some(s) = e.downcast_ref::<&str>() { s.to_string() } else if let Some(s) = e.downcast_ref::<String>() { s.clone() } else { "?".into() }
}

fn run_from_bytes(bytes: &[u8]) -> String {
    let r = catch_unwind(AssertUnwindSafe(|| {
        let mut types = Types::default();
        match Package::from_bytes("test:pkg", None, bytes.to_vec(), &mut types) {
            Ok(p) => arenas(&types, &p),
            Err(e) => format!("ERR:{}", one_line(&format!("{e:#}"))),
        }
    }));
    match r { Ok(s) => s, Err(e) => format!("PANIC:{}", one_line(&panic_msg(e))) }
}

// ------------------------------------------------------------------------------------------------ (c) re-encoding
/// Encode a composition that instantiates the package with the component imported (`define_components: false`).
fn reencode(bytes: &[u8], versioned: bool, define: bool) -> Result<Vec<u8>, String> {
    let r = catch_unwind(AssertUnwindSafe(|| -> Result<Vec<u8>, String> {
        let mut g = CompositionGraph::new();
        let v = semver::Version::new(1, 2, 3);
        let p = Package::from_bytes("test:pkg", if versioned { Some(&v) } else { None }, bytes.to_vec(), g.types_mut()).map_err(|e| format!("from_bytes:{e:#}"))?;
        let first_export = g.types()[p.ty()].exports.keys().next().cloned();
        let pid = g.register_package(p).map_err(|e| format!("register:{e:#}"))?;
        let inst = g.instantiate(pid);
        if let Some(name) = first_export {
            let a = g.alias_instance_export(inst, &name).map_err(|e| format!("alias:{e:#}"))?;
            g.export(a, "out").map_err(|e| format!("export:{e:#}"))?;
        }
        g.encode(EncodeOptions { define_components: define, validate: false, processor: None }).map_err(|e| format!("encode:{e:#}"))
    }));
    match r { Ok(x) => x, Err(e) => Err(format!("PANIC:{}", panic_msg(e))) }
}

/// Assemble the outer component around `out` (the encoded composition) and `orig` (the real component).
fn wrap(out: &[u8], orig: &[u8]) -> Result<Vec<u8>, String> {
    use wasm_encoder::{Component, ComponentExportKind, ComponentInstanceSection, RawSection};
    use wasmparser::{ComponentAlias, ComponentExternalKind, ComponentOuterAliasKind, ComponentTypeRef};
    let mut outer = Component::new();
    // index spaces: core module, func, value, type, instance, component
    let mut counts = [0u32; 6];
    let mut args: Vec<(String, ComponentExportKind, u32)> = Vec::new();
    let mut found = false;
    let mut depth = 0usize;
    let slot = |k: ComponentExternalKind| match k {
        ComponentExternalKind::Module => 0, ComponentExternalKind::Func => 1, ComponentExternalKind::Value => 2,
        ComponentExternalKind::Type => 3, ComponentExternalKind::Instance => 4, ComponentExternalKind::Component => 5,
    };
    let ekind = [ComponentExportKind::Module, ComponentExportKind::Func, ComponentExportKind::Value, ComponentExportKind::Type, ComponentExportKind::Instance, ComponentExportKind::Component];
    'sections: for p in Parser::new(0).parse_all(out) {
        let p = p.map_err(|e| format!("parse-output:{e}"))?;
        match &p {
            Payload::ModuleSection { .. } | Payload::ComponentSection { .. } => { depth += 1; continue; }
            Payload::End(_) => { depth = depth.saturating_sub(1); continue; }
            _ => {}
        }
        if depth > 0 { continue; }
        match p {
            Payload::Version { .. } | Payload::CustomSection(_) => {}
            Payload::ComponentTypeSection(s) => {
                counts[3] += s.count();
                outer.section(&RawSection { id: 7, data: &out[s.range()] });
            }
            Payload::CoreTypeSection(s) => { outer.section(&RawSection { id: 3, data: &out[s.range()] }); }
            Payload::ComponentAliasSection(s) => {
                for a in s.clone() {
                    match a.map_err(|e| format!("parse-alias:{e}"))? {
                        ComponentAlias::InstanceExport { kind, .. } => counts[slot(kind)] += 1,
                        ComponentAlias::Outer { kind, .. } => match kind {
                            ComponentOuterAliasKind::Type => counts[3] += 1,
                            ComponentOuterAliasKind::Component => counts[5] += 1,
                            ComponentOuterAliasKind::CoreModule => counts[0] += 1,
                            ComponentOuterAliasKind::CoreType => {}
                        },
                        ComponentAlias::CoreInstanceExport { .. } => {}
                    }
                }
                outer.section(&RawSection { id: 6, data: &out[s.range()] });
            }
            Payload::ComponentImportSection(s) => {
                let mut here = Vec::new();
                for i in s.clone() {
                    let i = i.map_err(|e| format!("parse-import:{e}"))?;
                    let k = match i.ty {
                        ComponentTypeRef::Module(_) => 0, ComponentTypeRef::Func(_) => 1, ComponentTypeRef::Value(_) => 2,
                        ComponentTypeRef::Type(_) => 3, ComponentTypeRef::Instance(_) => 4, ComponentTypeRef::Component(_) => 5,
                    };
                    here.push((i.name.0.to_string(), k));
                }
                if here.iter().any(|(n, _)| n.starts_with("unlocked-dep=")) {
                    if here.len() != 1 { return Err("wrap:dependency import shares a section".into()); }
                    found = true;
                    break 'sections;
                }
                for (n, k) in here { args.push((n, ekind[k], counts[k])); counts[k] += 1; }
                outer.section(&RawSection { id: 10, data: &out[s.range()] });
            }
            other => return Err(format!("wrap:unexpected section before the dependency import: {other:?}").chars().take(160).collect()),
        }
    }
    if !found { return Err("wrap:no unlocked-dep import in the output".into()); }
    let dep_name = {
        let mut n = None;
        for p in Parser::new(0).parse_all(out) {
            if let Ok(Payload::ComponentImportSection(s)) = p { for i in s { if let Ok(i) = i { if i.name.0.starts_with("unlocked-dep=") && n.is_none() { n = Some(i.name.0.to_string()); } } } }
        }
        n.unwrap()
    };
    let c_out = counts[5];
    outer.section(&RawSection { id: 4, data: out });
    outer.section(&RawSection { id: 4, data: orig });
    args.push((dep_name, ComponentExportKind::Component, c_out + 1));
    let mut is = ComponentInstanceSection::new();
    is.instantiate(c_out, args.iter().map(|(n, k, i)| (n.as_str(), *k, *i)));
    outer.section(&is);
    Ok(outer.finish())
}

/// wasmparser can itself panic on some (invalid) inputs: an observation, never a crash of the harness.
fn validate(bytes: &[u8]) -> Result<(), String> {
    match catch_unwind(AssertUnwindSafe(|| Validator::new_with_features(WasmFeatures::all()).validate_all(bytes).map(|_| ()))) {
        Ok(Ok(())) => Ok(()),
        Ok(Err(e)) => Err(format!("{e}")),
        Err(e) => Err(format!("validator panicked: {}", panic_msg(e))),
    }
}

fn reencode_status(bytes: &[u8], versioned: bool) -> String {
    // the same composition with the component embedded: tells a defect of the dependency's component type from a
    // defect of the encoder that does not depend on how the dependency is supplied
    let embedded = match reencode(bytes, versioned, true) {
        Ok(o) => match validate(&o) { Ok(_) => "embedded-ok", Err(_) => "embedded-invalid" },
        Err(_) => "embedded-fails",
    };
    let out = match reencode(bytes, versioned, false) { Ok(o) => o, Err(e) => return format!("REENC-FAIL [{embedded}] {}", one_line(&e)) };
    if let Err(e) = validate(&out) {
        return format!("OUTPUT-INVALID [{embedded}] {}", one_line(&e));
    }
    let outer = match catch_unwind(AssertUnwindSafe(|| wrap(&out, bytes))) { Ok(Ok(o)) => o, Ok(Err(e)) => return format!("WRAP-FAIL {}", one_line(&e)), Err(e) => return format!("WRAP-FAIL panic {}", one_line(&panic_msg(e))) };
    match validate(&outer) {
        Ok(_) => "ok".into(),
        Err(e) => format!("UNSATISFIED {}", one_line(&e)),
    }
}

// ------------------------------------------------------------------------------------------------ sources -> components
fn component_of_wit(wit: &str) -> anyhow::Result<Vec<u8>> {
    let mut resolve = wit_parser::Resolve::default();
    resolve.all_features = true;
    let id = resolve.push_str("c08.wit", wit)?;
    let world = resolve.select_world(&[id], None)?;
    let mut module = wit_component::dummy_module(&resolve, world, wit_parser::ManglingAndAbi::Legacy(wit_parser::LiftLowerAbi::Sync));
    wit_component::embed_component_metadata(&mut module, &resolve, world, wit_component::StringEncoding::default())?;
    wit_component::ComponentEncoder::default().validate(true).module(&module)?.encode()
}
fn component_of(kind: &str, src: &str) -> anyhow::Result<Vec<u8>> {
    match kind {
        "wit" => component_of_wit(src),
        "wat" => Ok(wat::parse_str(src)?),
        _ => anyhow::bail!("unknown source kind {kind}"),
    }
}

mod gen;
use gen::generate;

fn main() {
    let a: Vec<String> = std::env::args().collect();
    if std::env::var("C08_DEBUG").is_err() { std::panic::set_hook(Box::new(|_| {})); }
    if a.len() >= 3 && a[1] == "probe" {
        let src = std::fs::read_to_string(&a[2]).unwrap();
        let kind = if a[2].ends_with(".wit") { "wit" } else { "wat" };
        let bytes = match component_of(kind, &src) { Ok(b) => b, Err(e) => { println!("SOURCE-ERROR {e:#}"); return; } };
        if a.len() >= 4 { std::fs::write(&a[3], &bytes).unwrap(); }
        println!("{}", wasmprinter::print_bytes(&bytes).unwrap_or_default());
        match graph_of(&bytes) { Ok(g) => println!("GRAPH\n{}", g.replace(" ; ", "\n  ")), Err(e) => println!("GRAPH-ERROR {e:#}") }
        println!("ARENAS\n{}", run_from_bytes(&bytes).replace(" ; ", "\n  "));
        println!("REENC {}", reencode_status(&bytes, false));
        if let Ok(o) = reencode(&bytes, false, false) { println!("{}", wasmprinter::print_bytes(&o).unwrap_or_default()); }
        return;
    }
    if a.len() < 5 { eprintln!("usage: c08 <quick|thorough> <seed> <cases_out> <impl_out> [replay_in]"); std::process::exit(2); }
    let tier = a[1].as_str();
    let seed: u64 = a[2].parse().unwrap_or(1);
    let sources: Vec<(String, String)> = if a.len() >= 6 {
        std::fs::read_to_string(&a[5]).unwrap().lines().filter(|l| !l.trim().is_empty()).map(|l| {
            let f: Vec<&str> = l.split('\t').collect();
            if f[0] == "c08" { (f[2].to_string(), unesc_src(f[3])) } else { (f[0].to_string(), unesc_src(f[1])) }
        }).collect()
    } else { generate(tier, seed) };
    let mut cases = std::io::BufWriter::new(std::fs::File::create(&a[3]).unwrap());
    let mut imp = std::io::BufWriter::new(std::fs::File::create(&a[4]).unwrap());
    let mut rejected = 0usize;
    let mut id = 0usize;
    for (kind, src) in sources {
        let bytes = match catch_unwind(AssertUnwindSafe(|| component_of(&kind, &src))) {
            Ok(Ok(b)) => b,
            Ok(Err(e)) => { rejected += 1; if std::env::var("C08_SHOW_REJECTED").is_ok() { eprintln!("REJECTED {kind}: {e:#}\n{src}"); } continue; }
            Err(e) => { rejected += 1; if std::env::var("C08_SHOW_REJECTED").is_ok() { eprintln!("REJECTED {kind}: panic {}\n{src}", panic_msg(e)); } continue; }
        };
        let graph = match catch_unwind(AssertUnwindSafe(|| graph_of(&bytes))) {
            Ok(Ok(g)) => g,
            Ok(Err(e)) => { rejected += 1; if std::env::var("C08_SHOW_REJECTED").is_ok() { eprintln!("REJECTED {kind}: graph {e:#}\n{src}"); } continue; }
            Err(e) => { rejected += 1; if std::env::var("C08_SHOW_REJECTED").is_ok() { eprintln!("REJECTED {kind}: graph panic {}\n{src}", panic_msg(e)); } continue; }
        };
        let obs = run_from_bytes(&bytes);
        let re = reencode_status(&bytes, id % 3 == 1);
        writeln!(cases, "c08\t{id}\t{kind}\t{}\t{graph}", esc_src(&src)).unwrap();
        writeln!(imp, "{obs}\t{re}").unwrap();
        id += 1;
    }
    eprintln!("c08: {id} components, {rejected} generated sources rejected by the reference tools");
}
