use indexmap::IndexMap;
use wac_parser::Document;
fn main() {
    let docs = [
        "package c:d targets c:d/w;\ninterface big { f: func(); g: func(); }\ninterface small { f: func(); }\nworld w { import foo: big; export foo: big; }\nimport foo: small;\nexport foo;\n",
        "package c:d targets c:d/w;\ninterface big { f: func(); g: func(); }\nworld w { import foo: big; export foo: big; }\nimport foo: big;\nexport foo;\n",
        "package c:d targets c:d/w;\ninterface handler { f: func(); }\nworld w { export handler: handler; }\n",
        "package c:d targets c:d/w;\ninterface handler { f: func(); }\nworld w { export handler: handler; }\nimport h: handler;\nexport h as handler;\n",
        "package c:d targets c:d/w;\ninterface handler { f: func(); }\nworld w { export svc: handler; }\nimport h: handler;\nexport h as svc;\n",
        "package c:d targets c:d/w;\ninterface handler { f: func(); }\nworld w { import handler; export svc: handler; }\nimport h: c:d/handler;\nexport h as svc;\n",
    ];
    for d in docs {
        println!("---\n{d}");
        match Document::parse(d) {
            Err(e) => println!("PARSE {e:?}"),
            Ok(doc) => match doc.resolve(IndexMap::new()) {
                Err(e) => println!("RESOLVE ERR {e:?}"),
                Ok(r) => {
                    let g = r.graph();
                    println!("imports {:?}", g.imports().map(|(n, k, _)| (n.to_string(), k)).collect::<Vec<_>>());
                    println!("exports {:?}", g.exports().map(|(n, id)| (n.to_string(), g[id].item_kind())).collect::<Vec<_>>());
                    match r.encode(Default::default()) {
                        Ok(b) => println!("ENC {} bytes\n{}", b.len(), wasmprinter::print_bytes(&b).unwrap()),
                        Err(e) => println!("ENC ERR {e:?}"),
                    }
                }
            },
        }
    }
}
