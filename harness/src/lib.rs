//! Shared helpers for the verification harness binaries.

/// SplitMix64 PRNG: every random choice in the harness derives from one seed.
pub struct Rng(pub u64);
impl Rng {
    pub fn new(seed: u64) -> Self { Rng(seed.wrapping_mul(0x9E3779B97F4A7C15) ^ 0xD1B54A32D192ED03) }
    pub fn next(&mut self) -> u64 {
        self.0 = self.0.wrapping_add(0x9E3779B97F4A7C15);
        let mut z = self.0;
        z = (z ^ (z >> 30)).wrapping_mul(0xBF58476D1CE4E5B9);
        z = (z ^ (z >> 27)).wrapping_mul(0x94D049BB133111EB);
        z ^ (z >> 31)
    }
    pub fn below(&mut self, n: u64) -> u64 { if n == 0 { 0 } else { self.next() % n } }
    pub fn pick<'a, T>(&mut self, xs: &'a [T]) -> &'a T { &xs[self.below(xs.len() as u64) as usize] }
    pub fn chance(&mut self, num: u64, den: u64) -> bool { self.below(den) < num }
}

/// Encode a string as space-separated decimal Unicode scalar values ("-" when empty).
pub fn enc(s: &str) -> String {
    if s.is_empty() { return "-".into(); }
    s.chars().map(|c| (c as u32).to_string()).collect::<Vec<_>>().join(",")
}
