From Coq Require Import List Arith Bool Lia.
Import ListNotations.

Inductive tok := TU8 | TList | TTuple | TLt | TGt | TComma | TSemi.
Inductive ty := U8 | ListT (t:ty) | TupleT (ts:list ty).
Definition is_type_start (t:tok) := match t with TU8 | TList | TTuple => true | _ => false end.

Fixpoint parse_ty (fuel:nat) (ts:list tok) : option (ty * list tok) :=
  match fuel with O => None | S f =>
  match ts with
  | TU8 :: r => Some (U8, r)
  | TList :: TLt :: r =>
      match parse_ty f r with
      | Some (t, TGt :: r') => Some (ListT t, r')
      | _ => None end
  | TTuple :: TLt :: r =>
      match r with
      | x :: _ => if is_type_start x then
          match parse_delim f r with
          | Some (items, TGt :: r') => Some (TupleT items, r')
          | _ => None end else None
      | [] => None end
  | _ => None end end
with parse_delim (fuel:nat) (ts:list tok) : option (list ty * list tok) :=
  match fuel with O => None | S f =>
  match ts with
  | TGt :: _ => Some ([], ts)
  | x :: _ => if is_type_start x then
       match parse_ty f ts with
       | Some (t, rest) =>
           match rest with
           | TGt :: _ => Some ([t], rest)
           | TComma :: rest' =>
               match parse_delim f rest' with
               | Some (items, r'') => Some (t :: items, r'')
               | None => None end
           | _ => None end
       | None => None end
     else None
  | [] => None end end.

Inductive D : list tok -> ty -> Prop :=
| D_u8 : D [TU8] U8
| D_list ts t : D ts t -> D (TList :: TLt :: ts ++ [TGt]) (ListT t)
| D_tuple ts items : items <> [] -> Ds ts items -> D (TTuple :: TLt :: ts ++ [TGt]) (TupleT items)
with Ds : list tok -> list ty -> Prop :=
| Ds_nil : Ds [] []
| Ds_one ts t : D ts t -> Ds ts [t]
| Ds_trail ts t : D ts t -> Ds (ts ++ [TComma]) [t]
| Ds_cons ts t rest items : D ts t -> items <> [] -> Ds rest items -> Ds (ts ++ TComma :: rest) (t :: items).

Scheme D_ind2 := Induction for D Sort Prop with Ds_ind2 := Induction for Ds Sort Prop.
Combined Scheme D_Ds_ind from D_ind2, Ds_ind2.

(* every derivation starts with a type-start token *)
Lemma D_starts ts t : D ts t -> exists x r, ts = x :: r /\ is_type_start x = true.
Proof. destruct 1; eauto. Qed.


(* unfolding equations *)
Lemma parse_ty_S f ts : parse_ty (S f) ts =
  match ts with
  | TU8 :: r => Some (U8, r)
  | TList :: TLt :: r => match parse_ty f r with Some (t, TGt :: r') => Some (ListT t, r') | _ => None end
  | TTuple :: TLt :: r => match r with
      | x :: _ => if is_type_start x then match parse_delim f r with Some (items, TGt :: r') => Some (TupleT items, r') | _ => None end else None
      | [] => None end
  | _ => None end.
Proof. reflexivity. Qed.
Lemma parse_delim_S f ts : parse_delim (S f) ts =
  match ts with
  | TGt :: _ => Some ([], ts)
  | x :: _ => if is_type_start x then
      match parse_ty f ts with
      | Some (t, rest) => match rest with
          | TGt :: _ => Some ([t], rest)
          | TComma :: rest' => match parse_delim f rest' with Some (items, r'') => Some (t :: items, r'') | None => None end
          | _ => None end
      | None => None end else None
  | [] => None end.
Proof. reflexivity. Qed.

(* inversion lemmas *)
Lemma delim_inv f ts its r : parse_delim (S f) ts = Some (its, r) ->
  (exists r0, ts = TGt :: r0 /\ its = [] /\ r = ts) \/
  (exists t rest, parse_ty f ts = Some (t, rest) /\
     ((exists r0, rest = TGt :: r0 /\ its = [t] /\ r = rest) \/
      (exists rest' its', rest = TComma :: rest' /\ parse_delim f rest' = Some (its', r) /\ its = t :: its'))).
Proof.
  rewrite parse_delim_S. destruct ts as [|x ts]; [discriminate|].
  destruct x; cbn [is_type_start]; try discriminate.
  4:{ intros H; inversion H; subst; left; eauto. }
  all: destruct (parse_ty f _) as [[t rest]|]; try discriminate.
  all: destruct rest as [|[] rest]; try discriminate.
  all: try (intros H; inversion H; subst; right; do 2 eexists; split; [reflexivity|left; eauto]; fail).
  all: destruct (parse_delim f rest) as [[its' r'']|] eqn:E; try discriminate.
  all: intros H; inversion H; subst; right; do 2 eexists; split; [reflexivity|right; eauto].
Qed.

Lemma ty_inv f ts t r : parse_ty (S f) ts = Some (t, r) ->
  (exists r0, ts = TU8 :: r0 /\ t = U8 /\ r = r0) \/
  (exists r0 t0, ts = TList :: TLt :: r0 /\ parse_ty f r0 = Some (t0, TGt :: r) /\ t = ListT t0) \/
  (exists x r0 its, ts = TTuple :: TLt :: x :: r0 /\ is_type_start x = true /\ parse_delim f (x :: r0) = Some (its, TGt :: r) /\ t = TupleT its).
Proof.
  rewrite parse_ty_S. destruct ts as [|[] ts]; try discriminate.
  - intros H; inversion H; subst; left; eauto.
  - destruct ts as [|[] ts]; try discriminate.
    destruct (parse_ty f ts) as [[t0 [|[] r']]|] eqn:E; try discriminate.
    intros H; inversion H; subst. right; left; eauto.
  - destruct ts as [|[] ts]; try discriminate. destruct ts as [|x ts]; try discriminate.
    destruct (is_type_start x) eqn:Ex; try discriminate.
    destruct (parse_delim f (x::ts)) as [[its [|[] r']]|] eqn:E; try discriminate.
    intros H; inversion H; subst. right; right. do 3 eexists; eauto.
Qed.

(* ---- soundness ---- *)
Lemma sound : forall f,
  (forall ts t r, parse_ty f ts = Some (t, r) -> exists pre, ts = pre ++ r /\ D pre t) /\
  (forall ts its r, parse_delim f ts = Some (its, r) ->
      exists pre, ts = pre ++ r /\ Ds pre its /\ (exists r0, r = TGt :: r0)).
Proof.
  induction f as [|f [IHt IHd]]; split; intros; try discriminate.
  - apply ty_inv in H. destruct H as [(r0 & -> & -> & ->)|[(r0 & t0 & -> & E & ->)|(x & r0 & its & -> & Ex & E & ->)]].
    + exists [TU8]; split; [reflexivity|constructor].
    + destruct (IHt _ _ _ E) as (pre & -> & Hd).
      exists (TList :: TLt :: pre ++ [TGt]); split; [cbn; rewrite <- app_assoc; reflexivity| now constructor].
    + destruct (IHd _ _ _ E) as (pre & Hpre & Hds & _).
      exists (TTuple :: TLt :: pre ++ [TGt]); split.
      * cbn. rewrite Hpre, <- app_assoc. reflexivity.
      * constructor; [|assumption]. intros ->. inversion Hds; subst.
        cbn in Hpre. inversion Hpre; subst. discriminate.
  - apply delim_inv in H. destruct H as [(r0 & -> & -> & ->)|(t & rest & E & [(r0 & -> & -> & ->)|(rest' & its' & -> & E2 & ->)])].
    + exists []; split; [reflexivity|split;[constructor|eauto]].
    + destruct (IHt _ _ _ E) as (pre & Hpre & Hd). exists pre; split; [assumption|split;[now constructor|eauto]].
    + destruct (IHt _ _ _ E) as (pre & Hpre & Hd). destruct (IHd _ _ _ E2) as (pre2 & -> & Hds & Hr).
      destruct its' as [|i its''].
      * inversion Hds; subst. exists (pre ++ [TComma]); split;
          [try rewrite Hpre; rewrite <- app_assoc; reflexivity | split; [now constructor|assumption]].
      * exists (pre ++ TComma :: pre2); split;
          [try rewrite Hpre; rewrite <- app_assoc; reflexivity | split; [constructor; [assumption|discriminate|assumption]|assumption]].
Qed.

(* ---- fuel monotonicity ---- *)
Lemma mono : forall f,
  (forall ts r, parse_ty f ts = Some r -> parse_ty (S f) ts = Some r) /\
  (forall ts r, parse_delim f ts = Some r -> parse_delim (S f) ts = Some r).
Proof.
  induction f as [|f [IHt IHd]]; split; intros ts r H; try discriminate.
  - destruct r as [t r]. rewrite parse_ty_S. apply ty_inv in H.
    destruct H as [(r0 & -> & -> & ->)|[(r0 & t0 & -> & E & ->)|(x & r0 & its & -> & Ex & E & ->)]].
    + reflexivity.
    + rewrite (IHt _ _ E). reflexivity.
    + rewrite Ex, (IHd _ _ E). reflexivity.
  - destruct r as [its r]. rewrite parse_delim_S. apply delim_inv in H.
    destruct H as [(r0 & -> & -> & ->)|(t & rest & E & [(r0 & -> & -> & ->)|(rest' & its' & -> & E2 & ->)])].
    + reflexivity.
    + destruct (proj1 (sound _) _ _ _ E) as (pre & Hpre & Hd). destruct (D_starts _ _ Hd) as (x & r1 & -> & Hx).
      cbn in Hpre. subst ts. destruct x; cbn in Hx; try discriminate; cbn [is_type_start]; rewrite (IHt _ _ E); reflexivity.
    + destruct (proj1 (sound _) _ _ _ E) as (pre & Hpre & Hd). destruct (D_starts _ _ Hd) as (x & r1 & -> & Hx).
      cbn in Hpre. subst ts. destruct x; cbn in Hx; try discriminate; cbn [is_type_start]; rewrite (IHt _ _ E), (IHd _ _ E2); reflexivity.
Qed.

Lemma mono_le f f' : f <= f' ->
  (forall ts r, parse_ty f ts = Some r -> parse_ty f' ts = Some r) /\
  (forall ts r, parse_delim f ts = Some r -> parse_delim f' ts = Some r).
Proof. induction 1; [tauto|]. destruct IHle as [A B]. split; intros; apply mono; auto. Qed.

(* ---- completeness ---- *)
Lemma complete :
  (forall pre t, D pre t -> forall r, exists f, parse_ty f (pre ++ r) = Some (t, r)) /\
  (forall pre its, Ds pre its -> its <> [] -> forall r, exists f, parse_delim f (pre ++ TGt :: r) = Some (its, TGt :: r)).
Proof.
  apply D_Ds_ind; intros.
  - exists 1. reflexivity.
  - destruct (H (TGt :: r)) as [f Hf]. exists (S f). rewrite parse_ty_S. cbn [app].
    rewrite <- app_assoc. cbn [app]. rewrite Hf. reflexivity.
  - destruct (H n r) as [f Hf]. exists (S f). rewrite parse_ty_S. cbn [app]. rewrite <- app_assoc. cbn [app].
    assert (exists x r0, ts = x :: r0 /\ is_type_start x = true) as (x & r0 & -> & Hx).
    { inversion d; subst; try congruence;
      match goal with Hd : D _ _ |- _ => destruct (D_starts _ _ Hd) as (x & r0 & -> & Hx) end; cbn; eauto. }
    cbn [app] in *. rewrite Hx, Hf. reflexivity.
  - congruence.
  - destruct (H (TGt :: r)) as [f Hf]. destruct (D_starts _ _ d) as (x & r0 & -> & Hx).
    exists (S f). rewrite parse_delim_S. cbn [app] in *.
    destruct x; cbn [is_type_start] in *; try discriminate; rewrite Hf; reflexivity.
  - destruct (H (TComma :: TGt :: r)) as [f Hf]. destruct (D_starts _ _ d) as (x & r0 & -> & Hx).
    exists (S (S f)). rewrite <- app_assoc. rewrite parse_delim_S. cbn [app] in *.
    destruct x; cbn [is_type_start] in *; try discriminate;
    rewrite (proj1 (mono f) _ _ Hf); reflexivity.
  - destruct (H (TComma :: rest ++ TGt :: r)) as [f1 Hf1]. destruct (H0 n r) as [f2 Hf2].
    destruct (D_starts _ _ d) as (x & r0 & -> & Hx).
    exists (S (Nat.max f1 f2)). rewrite <- app_assoc. rewrite parse_delim_S. cbn [app] in *.
    pose proof (proj1 (mono_le f1 (Nat.max f1 f2) (Nat.le_max_l _ _)) _ _ Hf1) as Hf1'.
    pose proof (proj2 (mono_le f2 (Nat.max f1 f2) (Nat.le_max_r _ _)) _ _ Hf2) as Hf2'.
    destruct x; cbn [is_type_start] in *; try discriminate; rewrite Hf1', Hf2'; reflexivity.
Qed.

Theorem exact : forall ts t, (exists f, parse_ty f ts = Some (t, [])) <-> D ts t.
Proof.
  split.
  - intros [f H]. destruct (proj1 (sound f) _ _ _ H) as (pre & -> & Hd). now rewrite app_nil_r.
  - intros H. destruct (proj1 complete _ _ H []) as [f Hf]. rewrite app_nil_r in Hf. eauto.
Qed.
Print Assumptions exact.
