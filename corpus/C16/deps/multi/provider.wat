(component
  (import "z" (func))
  (export "a" (func 0))
  (export "b" (func 0))
  (export "c" (func 0))
  (export "d" (func 0))
  (export "e" (func 0))
  (export "g" (func 0)))
