(component
  (import "a" (func))
  (import "b" (func))
  (import "c" (func))
  (import "d" (func))
  (import "e" (func))
  (import "g" (func))
  (export "out" (func 0)))
