(component
  (import "hello" (func $h))
  (import "b" (func $b))
  (import "c" (func $c))
  (import "d" (func $d))
  (export "greet" (func $h))
  (export "greet-b" (func $b))
)
