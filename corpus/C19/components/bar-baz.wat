(component
  (import "foo"
    (instance
      (export "foo" (func))
    )
  )
)
