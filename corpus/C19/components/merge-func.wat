(component
  (import "foo" (func))
)
