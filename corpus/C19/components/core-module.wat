(module)
