(component
  (import "hello" (func $h))
  (export "greet" (func $h))
)
