(component
  (import "foo" (instance))
)
