(component
  (import "baz" (func))
  (export "foo" (func 0))
)
