(component
  (core module $m (func (export "f")))
  (core instance $i (instantiate $m))
  (func $f (canon lift (core func $i "f")))
  (export "c" (func $f))
)
