//! C20 correspondence: the real `RegistryPackageResolver::resolve` against an in-process Warg server.
//! usage: c20 <quick|thorough> <seed> <cases_out> <impl_out> [replay_cases_in]
//!
//! The server is started once and a fixed universe of packages x releases is published once.  Every
//! case then resolves one ordered key set with a fresh client (fresh log + content cache, so every
//! download really happens) on a runtime with 1, 2 or 8 worker threads.
//!
//! cases.txt:  `reg\t<name>\t<ver>=<marker|Y>;...`       one line per published package log
//!             `rs\t<threads>\t<name>|<ver or ->|<span>|<valid>;...`   one line per key set
//! impl.txt:   `ok` for reg lines; for rs lines
//!             `OK\t<key position>:<marker>;...`  in the iteration order of the returned map
//!             `ERR\t<Variant>\t<name>\t<version or ->\t<span offset>` | `ERR\tOther\t<text>` | `PANIC\t<text>`
//! Strings are comma separated decimal code points ("-" = none).
use anyhow::{Context, Result};
use indexmap::IndexMap;
use miette::SourceSpan;
use semver::Version;
use std::collections::HashMap;
use std::io::Write;
use std::panic::{catch_unwind, AssertUnwindSafe};
use std::path::Path;
use std::time::Duration;
use tokio::task::JoinHandle;
use tokio_util::sync::CancellationToken;
use wac_resolver::{Error, RegistryPackageResolver};
use wac_types::BorrowedPackageKey;
use warg_client::{
    storage::{ContentStorage, PublishEntry, PublishInfo},
    FileSystemClient,
};
use warg_crypto::signing::PrivateKey;
use warg_protocol::{operator::NamespaceState, registry::PackageName};
use warg_server::{policy::content::WasmContentPolicy, Config, Server};

// ---------------------------------------------------------------- PRNG / encoding (same as harness/src/lib.rs)
struct Rng(u64);
impl Rng {
    fn new(seed: u64) -> Self { Rng(seed.wrapping_mul(0x9E3779B97F4A7C15) ^ 0xD1B54A32D192ED03) }
    fn next(&mut self) -> u64 {
        self.0 = self.0.wrapping_add(0x9E3779B97F4A7C15);
        let mut z = self.0;
        z = (z ^ (z >> 30)).wrapping_mul(0xBF58476D1CE4E5B9);
        z = (z ^ (z >> 27)).wrapping_mul(0x94D049BB133111EB);
        z ^ (z >> 31)
    }
    fn below(&mut self, n: u64) -> u64 { if n == 0 { 0 } else { self.next() % n } }
    fn chance(&mut self, num: u64, den: u64) -> bool { self.below(den) < num }
}
fn enc(s: &str) -> String {
    if s.is_empty() { return "-".into(); }
    s.chars().map(|c| (c as u32).to_string()).collect::<Vec<_>>().join(",")
}
fn dec(s: &str) -> String {
    if s == "-" || s.is_empty() { return String::new(); }
    s.split(',').map(|x| char::from_u32(x.parse().unwrap()).unwrap()).collect()
}

// ---------------------------------------------------------------- server support (adapted from
// /repo/crates/wac-resolver/tests/support/mod.rs)
fn test_operator_key() -> &'static str { "ecdsa-p256:I+UlDo0HxyBBFeelhPPWmD+LnklOpqZDkrFP5VduASk=" }
fn test_signing_key() -> &'static str { "ecdsa-p256:2CV1EpLaSYEn4In4OAEDAj5O4Hzu8AFAxgHXuG310Ew=" }

struct ServerInstance { task: Option<JoinHandle<()>>, shutdown: CancellationToken }

async fn spawn_server(root: &Path) -> Result<(ServerInstance, String)> {
    let shutdown = CancellationToken::new();
    let config = Config::new(
        PrivateKey::decode(test_operator_key().to_string())?,
        Some(vec![("test".to_string(), NamespaceState::Defined)]),
        root.join("server"),
    )
    .with_addr(([127, 0, 0, 1], 0))
    .with_shutdown(shutdown.clone().cancelled_owned())
    .with_checkpoint_interval(Duration::from_millis(100))
    .with_content_policy(WasmContentPolicy::default());
    let server = Server::new(config).initialize().await?;
    let addr = server.local_addr()?;
    let task = tokio::spawn(async move { server.serve().await.unwrap(); });
    Ok((ServerInstance { task: Some(task), shutdown }, format!("http://{addr}")))
}

fn client_config(url: &str, dir: &Path) -> warg_client::Config {
    warg_client::Config {
        home_url: Some(url.to_string()),
        registries_dir: Some(dir.join("registries")),
        content_dir: Some(dir.join("content")),
        namespace_map_path: Some(dir.join("namespaces")),
        keyring_auth: false,
        keyring_backend: None,
        keys: Default::default(),
        ignore_federation_hints: false,
        disable_auto_accept_federation_hints: false,
        disable_auto_package_init: false,
        disable_interactive: true,
    }
}

async fn publish_entries(config: &warg_client::Config, name: &PackageName, entries: Vec<PublishEntry>) -> Result<()> {
    let client = FileSystemClient::new_with_config(None, config, None).await?;
    let record_id = client
        .publish_with_info(
            &PrivateKey::decode(test_signing_key().to_string()).unwrap(),
            PublishInfo { name: name.clone(), head: None, entries },
        )
        .await
        .context("failed to publish")?;
    client.wait_for_publish(name, &record_id, Duration::from_millis(50)).await?;
    Ok(())
}

async fn store(config: &warg_client::Config, content: Vec<u8>) -> Result<warg_crypto::hash::AnyHash> {
    let client = FileSystemClient::new_with_config(None, config, None).await?;
    client
        .content()
        .store_content(Box::pin(futures::stream::once(async move { Ok(content.into()) })), None)
        .await
        .context("failed to store content")
}

// ---------------------------------------------------------------- the published universe
/// (version, size in bytes, yanked afterwards)
type Rel = (&'static str, usize, bool);
const UNIVERSE: &[(&str, &[Rel])] = &[
    ("test:aa", &[("1.0.0", 100, false), ("1.1.0", 300_000, false), ("2.0.0", 1_500_000, false), ("2.1.0-rc.1", 2_000, false)]),
    ("test:bb", &[("0.2.0", 700, true), ("0.1.0", 40_000, false)]),
    ("test:cc", &[("1.0.0", 2_000_000, false)]),
    ("test:dd", &[]),                                   // initialised, never released
    ("test:ee", &[("1.0.0", 500, true)]),               // only release yanked
    ("test:ff", &[("1.0.0-alpha", 900, false)]),        // only a pre-release
    ("test:gg", &[("3.0.1", 100, false), ("3.0.0", 65_536, false), ("3.0.10", 8_000, false), ("3.0.2", 1_000_000, false)]),
];
const MISSING: &[&str] = &["test:zz", "test:yy"];
const INVALID: &[&str] = &["test:Bad"];

/// A valid core module: header + one custom section "m" holding the marker and pseudo-random padding.
fn blob(marker: u64, size: usize) -> Vec<u8> {
    let mut payload = vec![1u8, b'm'];
    payload.extend_from_slice(&marker.to_le_bytes());
    let mut r = Rng::new(0xC20 ^ marker);
    while payload.len() + 16 < size { payload.extend_from_slice(&r.next().to_le_bytes()); }
    let mut out = vec![0x00, 0x61, 0x73, 0x6d, 0x01, 0x00, 0x00, 0x00, 0x00];
    let mut n = payload.len() as u32;
    loop {
        let b = (n & 0x7f) as u8;
        n >>= 7;
        if n == 0 { out.push(b); break; } else { out.push(b | 0x80); }
    }
    out.extend_from_slice(&payload);
    out
}

struct Published { reg_lines: Vec<String>, by_bytes: HashMap<Vec<u8>, u64> }

async fn publish_universe(url: &str, root: &Path) -> Result<Published> {
    let cfg = client_config(url, &root.join("publisher"));
    let mut reg_lines = Vec::new();
    let mut by_bytes = HashMap::new();
    let mut marker = 0u64;
    for (name, rels) in UNIVERSE {
        let pname: PackageName = name.parse()?;
        let mut entries = vec![PublishEntry::Init];
        let mut fields = Vec::new();
        let mut yanks = Vec::new();
        for (ver, size, yanked) in rels.iter() {
            marker += 1;
            let bytes = blob(marker, *size);
            let digest = store(&cfg, bytes.clone()).await?;
            entries.push(PublishEntry::Release { version: ver.parse().unwrap(), content: digest });
            if *yanked {
                yanks.push(PublishEntry::Yank { version: ver.parse().unwrap() });
                fields.push(format!("{}=Y", enc(ver)));
            } else {
                fields.push(format!("{}={}", enc(ver), marker));
                by_bytes.insert(bytes, marker);
            }
        }
        publish_entries(&cfg, &pname, entries).await.with_context(|| format!("publishing {name}"))?;
        if !yanks.is_empty() {
            publish_entries(&cfg, &pname, yanks).await.with_context(|| format!("yanking in {name}"))?;
        }
        reg_lines.push(format!("reg\t{}\t{}", enc(name), fields.join(";")));
    }
    Ok(Published { reg_lines, by_bytes })
}

// ---------------------------------------------------------------- cases
#[derive(Clone, PartialEq, Eq, Debug)]
struct Key { name: String, version: Option<String> }
struct Case { threads: usize, keys: Vec<Key> }

fn k(name: &str, v: Option<&str>) -> Key { Key { name: name.into(), version: v.map(|s| s.into()) } }

fn pool() -> Vec<Key> {
    let mut p = Vec::new();
    for (name, rels) in UNIVERSE {
        p.push(k(name, None));
        for (ver, _, _) in rels.iter() { p.push(k(name, Some(ver))); }
    }
    p.push(k("test:aa", Some("9.9.9")));
    p.push(k("test:gg", Some("3.0.3")));
    p.push(k("test:dd", Some("1.0.0")));
    for m in MISSING { p.push(k(m, None)); p.push(k(m, Some("1.0.0"))); }
    for m in INVALID { p.push(k(m, None)); }
    p
}

fn permutations<T: Clone>(xs: &[T]) -> Vec<Vec<T>> {
    if xs.len() <= 1 { return vec![xs.to_vec()]; }
    let mut out = Vec::new();
    for i in 0..xs.len() {
        let mut rest = xs.to_vec();
        let x = rest.remove(i);
        for mut p in permutations(&rest) { p.insert(0, x.clone()); out.push(p); }
    }
    out
}

fn shares_name(keys: &[Key]) -> bool {
    keys.iter().enumerate().any(|(i, a)| keys[..i].iter().any(|b| a.name == b.name))
}

fn random_set(r: &mut Rng, pool: &[Key], n: usize, allow_shared: bool, only_ok: bool) -> Vec<Key> {
    let mut keys: Vec<Key> = Vec::new();
    let mut guard = 0;
    while keys.len() < n && guard < 1000 {
        guard += 1;
        let c = pool[r.below(pool.len() as u64) as usize].clone();
        if keys.contains(&c) { continue; }
        if !allow_shared && keys.iter().any(|x| x.name == c.name) { continue; }
        if only_ok && !key_is_ok(&c) { continue; }
        keys.push(c);
    }
    keys
}

/// Harness-side expectation used ONLY to steer generation (mix of all-ok and failing sets).
fn key_is_ok(key: &Key) -> bool {
    let Some((_, rels)) = UNIVERSE.iter().find(|(n, _)| *n == key.name) else { return false };
    match &key.version {
        Some(v) => rels.iter().any(|(rv, _, y)| rv == v && !*y),
        None => rels.iter().any(|(rv, _, y)| !*y && !rv.contains('-')),
    }
}

fn generate(tier: &str, seed: u64) -> Vec<Case> {
    let thorough = tier == "thorough";
    let mut r = Rng::new(seed);
    let pool = pool();
    let threads = [1usize, 2, 8];
    let mut cases = Vec::new();
    let mut tix = 0usize;
    let mut push = |cases: &mut Vec<Case>, keys: Vec<Key>| {
        cases.push(Case { threads: threads[tix % 3], keys });
        tix += 1;
    };
    // 1. regression witnesses and hand-picked shapes (every tier, every seed)
    let fixed: Vec<Vec<Key>> = vec![
        vec![k("test:aa", Some("1.0.0")), k("test:aa", Some("2.0.0")), k("test:bb", None)],
        vec![k("test:aa", Some("1.0.0")), k("test:aa", Some("2.0.0"))],
        vec![k("test:aa", Some("2.0.0")), k("test:aa", Some("1.0.0"))],
        vec![k("test:aa", None), k("test:aa", Some("1.0.0"))],
        vec![k("test:aa", Some("9.9.9")), k("test:aa", Some("1.0.0"))],
        vec![k("test:aa", Some("1.0.0")), k("test:bb", None), k("test:cc", Some("1.0.0"))],
        vec![k("test:aa", None)],
        vec![k("test:aa", Some("2.1.0-rc.1")), k("test:gg", None), k("test:bb", Some("0.1.0"))],
        vec![k("test:bb", Some("0.2.0"))],
        vec![k("test:dd", None)],
        vec![k("test:dd", Some("1.0.0"))],
        vec![k("test:ee", None)],
        vec![k("test:ff", None)],
        vec![k("test:ff", Some("1.0.0-alpha")), k("test:cc", None)],
        vec![k("test:zz", None)],
        vec![k("test:aa", Some("1.0.0")), k("test:zz", Some("1.0.0")), k("test:yy", None)],
        vec![k("test:yy", None), k("test:aa", Some("1.1.0")), k("test:zz", None)],
        vec![k("test:aa", None), k("test:Bad", None), k("test:zz", None)],
        vec![k("test:gg", Some("3.0.3")), k("test:aa", Some("9.9.9")), k("test:ee", None)],
        vec![k("test:cc", None), k("test:aa", Some("2.0.0")), k("test:gg", Some("3.0.2")), k("test:aa", Some("1.1.0")),
             k("test:bb", None), k("test:gg", Some("3.0.0"))],
    ];
    for f in fixed { push(&mut cases, f); }
    // 2. every request order of small sets (distinct names: big first / small first matters for completion order)
    let mut order_sets: Vec<Vec<Key>> = vec![
        vec![k("test:cc", None), k("test:aa", Some("1.0.0")), k("test:gg", Some("3.0.1"))],
        vec![k("test:aa", Some("1.0.0")), k("test:aa", None), k("test:bb", Some("0.1.0"))],
    ];
    // one more random small set per seed in quick; thorough: 40 random sets of 2..4 keys, every order
    let extra_sets = if thorough { 40 } else { 1 };
    for _ in 0..extra_sets { let n = 2 + r.below(if thorough { 3 } else { 2 }) as usize; let sh = r.chance(1, 3); order_sets.push(random_set(&mut r, &pool, n, sh, false)); }
    if thorough {
        order_sets.push(vec![k("test:aa", Some("2.0.0")), k("test:cc", None), k("test:gg", Some("3.0.2")), k("test:bb", None)]);
    }
    for s in order_sets { for p in permutations(&s) { push(&mut cases, p); } }
    // 3. random key sets, 1..6 keys
    let n_random = if thorough { 700 } else { 120usize.saturating_sub(cases.len()).max(60) };
    for i in 0..n_random {
        let n = 1 + r.below(6) as usize;
        let (shared, only_ok) = match i % 4 { 0 => (false, true), 1 => (false, false), 2 => (true, true), _ => (true, false) };
        let keys = random_set(&mut r, &pool, n, shared, only_ok);
        let _ = shares_name(&keys);
        push(&mut cases, keys);
    }
    cases
}

fn case_line(c: &Case) -> String {
    let ks: Vec<String> = c.keys.iter().enumerate().map(|(i, key)| {
        let valid = PackageName::new(key.name.clone()).is_ok();   // the oracle the model takes as data
        format!("{}|{}|{}|{}", enc(&key.name), key.version.as_deref().map(enc).unwrap_or("-".into()), span_of(i), valid as u8)
    }).collect();
    format!("rs\t{}\t{}", c.threads, ks.join(";"))
}
fn parse_case(line: &str) -> Option<Case> {
    let f: Vec<&str> = line.split('\t').collect();
    if f.len() != 3 || f[0] != "rs" { return None; }
    let keys = f[2].split(';').filter(|s| !s.is_empty()).map(|x| {
        let g: Vec<&str> = x.split('|').collect();
        Key { name: dec(g[0]), version: if g[1] == "-" { None } else { Some(dec(g[1])) } }
    }).collect();
    Some(Case { threads: f[1].parse().ok()?, keys })
}
fn span_of(i: usize) -> usize { 10 * (i + 1) }

// ---------------------------------------------------------------- running one case
fn run_case(rt: &tokio::runtime::Runtime, url: &str, dir: &Path, c: &Case, by_bytes: &HashMap<Vec<u8>, u64>) -> String {
    let versions: Vec<Option<Version>> = c.keys.iter().map(|key| key.version.as_ref().map(|v| v.parse().unwrap())).collect();
    let mut keys: IndexMap<BorrowedPackageKey, SourceSpan> = IndexMap::new();
    for (i, key) in c.keys.iter().enumerate() {
        keys.insert(BorrowedPackageKey::from_name_and_version(&key.name, versions[i].as_ref()), SourceSpan::new(span_of(i).into(), 1));
    }
    assert_eq!(keys.len(), c.keys.len(), "generator produced a duplicate key");
    let cfg = client_config(url, dir);
    let res = catch_unwind(AssertUnwindSafe(|| {
        rt.block_on(async {
            let resolver = RegistryPackageResolver::new_with_config(None, &cfg, None).await.map_err(|e| format!("client: {e:#}"))?;
            Ok::<_, String>(resolver.resolve(&keys).await)
        })
    }));
    let san = |s: String| s.replace(['\t', '\n', '\r'], " ");
    match res {
        Err(p) => {
            let msg = p.downcast_ref::<String>().cloned().or_else(|| p.downcast_ref::<&str>().map(|s| s.to_string())).unwrap_or_default();
            format!("PANIC\t{}", san(msg))
        }
        Ok(Err(e)) => format!("ERR\tOther\t{}", san(e)),
        Ok(Ok(Ok(map))) => {
            let items: Vec<String> = map.iter().map(|(key, bytes)| {
                let pos = keys.get_index_of(key).map(|p| p.to_string()).unwrap_or("x".into());
                let marker = by_bytes.get(bytes).map(|m| m.to_string()).unwrap_or("0".into());
                format!("{pos}:{marker}")
            }).collect();
            format!("OK\t{}", items.join(";"))
        }
        Ok(Ok(Err(e))) => match e {
            Error::InvalidPackageName { name, span } => format!("ERR\tInvalidPackageName\t{}\t-\t{}", enc(&name), span.offset()),
            Error::PackageDoesNotExist { name, span } => format!("ERR\tPackageDoesNotExist\t{}\t-\t{}", enc(&name), span.offset()),
            Error::PackageVersionDoesNotExist { name, version, span } =>
                format!("ERR\tPackageVersionDoesNotExist\t{}\t{}\t{}", enc(&name), enc(&version.to_string()), span.offset()),
            Error::PackageNoReleases { name, span } => format!("ERR\tPackageNoReleases\t{}\t-\t{}", enc(&name), span.offset()),
            Error::RegistryDownloadFailure { source } => format!("ERR\tRegistryDownloadFailure\t{}", san(format!("{source:#}"))),
            other => format!("ERR\tOther\t{}", san(format!("{other:?}"))),
        },
    }
}

fn main() -> Result<()> {
    let args: Vec<String> = std::env::args().collect();
    if args.len() < 5 { eprintln!("usage: c20 <tier> <seed> <cases_out> <impl_out> [replay_in]"); std::process::exit(2); }
    let tier = args[1].as_str();
    let seed: u64 = args[2].parse().unwrap_or(1);
    let cases = if let Some(p) = args.get(5) {
        std::fs::read_to_string(p)?.lines().filter_map(parse_case).collect()
    } else { generate(tier, seed) };

    std::panic::set_hook(Box::new(|_| {}));
    let root = tempfile::Builder::new().prefix("c20-").tempdir_in("/var/tmp")?;
    let srv_rt = tokio::runtime::Builder::new_multi_thread().worker_threads(2).enable_all().build()?;
    let (mut server, url) = srv_rt.block_on(spawn_server(root.path()))?;
    let published = srv_rt.block_on(publish_universe(&url, root.path()))?;

    let rts: Vec<(usize, tokio::runtime::Runtime)> = [1usize, 2, 8].iter().map(|n| {
        (*n, tokio::runtime::Builder::new_multi_thread().worker_threads(*n).enable_all().build().unwrap())
    }).collect();

    let mut cases_out = std::io::BufWriter::new(std::fs::File::create(&args[3])?);
    let mut impl_out = std::io::BufWriter::new(std::fs::File::create(&args[4])?);
    for l in &published.reg_lines { writeln!(cases_out, "{l}")?; writeln!(impl_out, "ok")?; }
    for (i, c) in cases.iter().enumerate() {
        let rt = &rts.iter().find(|(n, _)| *n == c.threads).unwrap_or(&rts[0]).1;
        let dir = root.path().join(format!("client-{i}"));
        let obs = run_case(rt, &url, &dir, c, &published.by_bytes);
        let _ = std::fs::remove_dir_all(&dir);
        writeln!(cases_out, "{}", case_line(c))?;
        writeln!(impl_out, "{obs}")?;
    }
    cases_out.flush()?; impl_out.flush()?;
    drop(rts);
    srv_rt.block_on(async {
        server.shutdown.cancel();
        if let Some(t) = server.task.take() { t.await.ok(); }
    });
    Ok(())
}
