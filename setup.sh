#!/bin/bash
# Build the framework from files on disk only (offline): Coq development, OCaml drivers, Rust harnesses.
# Nothing here decides a property; every ./check rebuilds what it needs, so partial failures are tolerated (-k / --keep-going).
cd "$(dirname "$0")"
export CARGO_NET_OFFLINE=true
mkdir -p build evidence
for g in tools/gen/gen_*.py; do [ -f "$g" ] && python3 "$g" >/dev/null; done
tools/mkcoqproject.sh
(cd coq && timeout 5000 make -k -j16 2>&1 | tail -3)
for ml in driver/c*.ml; do id=$(basename $ml .ml); [ -f build/$id/model.ml ] && tools/build_driver.sh $id >/dev/null 2>&1; done
[ -f harness/Cargo.lock ] || cp /repo/Cargo.lock harness/Cargo.lock
(cd harness && timeout 5000 cargo build --offline --bins --keep-going 2>&1 | tail -2)
for d in harness-reg harness/c18nowat; do
  if [ -f $d/Cargo.toml ]; then [ -f $d/Cargo.lock ] || cp /repo/Cargo.lock $d/Cargo.lock; (cd $d && timeout 5000 cargo build --offline --bins --keep-going 2>&1 | tail -1); fi
done
echo setup-done
