#!/bin/bash
# Build the framework from files on disk only (offline): Coq development, OCaml drivers, Rust harness.
set -e
cd "$(dirname "$0")"
export CARGO_NET_OFFLINE=true
mkdir -p build evidence
for g in tools/gen/gen_*.py; do [ -f "$g" ] && python3 "$g"; done
tools/mkcoqproject.sh
(cd coq && timeout 3000 make -j16 2>&1 | tail -5)
for ml in driver/c*.ml; do id=$(basename $ml .ml); [ -f build/$id/model.ml ] && tools/build_driver.sh $id; done
[ -f harness/Cargo.lock ] || cp /repo/Cargo.lock harness/Cargo.lock
(cd harness && timeout 3000 cargo build --offline --bins 2>&1 | tail -3)
echo setup-done
