#!/bin/bash
# sweep.sh [tier]: run every claimed check once, summarise exit codes (used by the main session after /repo changes)
cd "$(dirname "$0")/.."
tier=${1:-quick}
for id in $(cat tools/ready.txt); do
  s=$(date +%s)
  out=$(./check $id $tier 2>&1); rc=$?
  e=$(( $(date +%s) - s ))
  echo "== $id rc=$rc ${e}s known=$(echo "$out" | grep -c '^KNOWN-FINDING') viol=$(echo "$out" | grep -c '^VIOLATION')"
  echo "$out" | grep '^VIOLATION' | head -3
done
echo "== SWEEP DONE"
