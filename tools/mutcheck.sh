#!/bin/bash
# mutcheck.sh <PID> <patch.diff | revert:<commit>> [tier]
# Self-test: run ./check <PID> against a scratch worktree of /repo with a seeded change applied, inside a scratch copy of
# /verif, so that neither /repo nor /verif (where other work may be going on) is touched.
set -e
pid=$1; what=$2; tier=${3:-quick}
wt=/var/tmp/wt-mut-$$
vm=${VMUT:-/var/tmp/verif-mut}   # set VMUT to run several self-tests side by side
git -C /repo worktree add --detach $wt HEAD >/dev/null 2>&1
trap 'git -C /repo worktree remove --force '$wt' >/dev/null 2>&1 || true' EXIT
case "$what" in
  revert:*) git -C $wt revert --no-commit ${what#revert:} >/dev/null ;;
  *) git -C $wt apply "$what" ;;
esac
mkdir -p $vm
rsync -a --delete --exclude 'harness/target' --exclude 'harness-reg/target' --exclude 'build/cli-target*' --exclude 'build/*/run' \
      --exclude '.git' --exclude 'replays' /verif/ $vm/ || [ $? -eq 24 ]   # 24 = a file vanished while copying (concurrent build)
cd $vm
rm -rf replays
VERIF_REPO=$wt ./check $pid $tier | grep -E "^(VIOLATION|KNOWN-FINDING)" | head -8
echo "exit=${PIPESTATUS[0]}"
for f in replays/$pid/*.json; do [ -f "$f" ] && python3 -c "
import json,sys
d=json.load(open('$f')); print({k:(str(d[k])[:300]) for k in ('kind','what','case','pretty') if k in d})" ; break; done
