#!/bin/bash
# coqshow_local.sh <file.v> <line>: like coqshow.sh but against the coq tree this script lives beside.
here=$(cd "$(dirname "$0")/.." && pwd)
f=$(readlink -f $1); n=$2
tmp=$(mktemp -d)
head -n $n $f > $tmp/T.v
echo "Show. " >> $tmp/T.v
cd $here/coq && timeout 600 coqc -Q theories WacV -w -all $tmp/T.v 2>&1 | tail -${3:-40}
rm -rf $tmp
