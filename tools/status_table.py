#!/usr/bin/env python3
"""Print a markdown status table (per property: theorems, partial/refuted, evidence numbers, findings) from the tree."""
import json, os, re
ROOT = os.path.dirname(os.path.dirname(os.path.abspath(__file__)))
props = [json.loads(l) for l in open(os.path.join(ROOT, "properties.jsonl"))]
kf = json.load(open(os.path.join(ROOT, "known-findings.json")))
ready = set(open(os.path.join(ROOT, "tools", "ready.txt")).read().split())
print("| id | claimed | theorems | of which `_partial` / `_refuted` | correspondence cases (last quick run) | disagreements | findings known / fixed |")
print("|---|---|---|---|---|---|---|")
for p in props:
    pid = p["id"]
    pv = os.path.join(ROOT, "coq", "theories", "props", pid + ".v")
    th = re.findall(r"^\s*Theorem\s+([A-Za-z0-9_']+)", open(pv).read(), re.M) if os.path.exists(pv) else []
    part = [t for t in th if t.endswith("_partial")]; ref = [t for t in th if "refuted" in t]
    ev = os.path.join(ROOT, "evidence", pid + ".json")
    cases = dis = "-"
    if os.path.exists(ev):
        c = json.load(open(ev))["coverage"]
        cases = c.get("correspondence_cases", c.get("evaluations", "-")); dis = c.get("disagreements", "-")
    k = len([e for e in kf if e["property"] == pid and e["status"] == "known"])
    f = len([e for e in kf if e["property"] == pid and e["status"] == "fixed"])
    print(f"| {pid} | {'yes' if pid in ready else 'no'} | {len(th)} | {len(part)} / {len(ref)} | {cases} | {dis} | {k} / {f} |")
