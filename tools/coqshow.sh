#!/bin/bash
# coqshow.sh <file.v> <line>: compile the file truncated after <line> and show the goals there.
f=$1; n=$2
tmp=$(mktemp -d)
head -n $n $f > $tmp/T.v
echo "Show. " >> $tmp/T.v
cd /verif/coq && coqc -Q theories WacV -w -all $tmp/T.v 2>&1 | tail -${3:-40}
rm -rf $tmp
