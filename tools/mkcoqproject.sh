#!/bin/bash
# Regenerate coq/_CoqProject (file list) and the Makefile.
set -e
cd "$(dirname "$0")/../coq"
{
  echo "-Q theories WacV"
  echo "-arg -w -arg -notation-overridden,-deprecated-hint-without-locality,-deprecated-instance-without-locality"
  find theories -name '*.v' | sort
} > _CoqProject.new.$$
if ! cmp -s _CoqProject.new.$$ _CoqProject; then mv _CoqProject.new.$$ _CoqProject; else rm _CoqProject.new.$$; fi
if [ ! -f Makefile ] || [ _CoqProject -nt Makefile ]; then coq_makefile -f _CoqProject -o Makefile >/dev/null; fi
