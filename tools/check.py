#!/usr/bin/env python3
import importlib
import os
import sys

sys.path.insert(0, os.path.dirname(os.path.abspath(__file__)))
import vlib  # noqa: E402


def main():
    args = sys.argv[1:]
    if not args:
        print("usage: check <Cxx> [quick|thorough] [--replay file]"); sys.exit(2)
    pid = args[0].upper()
    tier = os.environ.get("VERIF_TIER", "quick")
    replay = None
    i = 1
    while i < len(args):
        if args[i] == "--replay":
            replay = args[i + 1]; i += 2
        else:
            tier = args[i]; i += 1
    seed = int(os.environ.get("VERIF_SEED", "1"))
    mod = importlib.import_module("props." + pid.lower())
    res = vlib.Result(pid, tier, seed)
    os.chdir(vlib.ROOT)
    try:
        mod.run(res, tier, seed, replay)
    except Exception as e:  # machinery failure is reported as a broken check, never silently passed
        import traceback
        traceback.print_exc()
        res.violation(dict(kind="machinery-error", what=repr(e)), no_input=True)
    sys.exit(res.finish())


if __name__ == "__main__":
    main()
