#!/bin/bash
# build_driver.sh <id>: compile build/<id>/model.ml + driver/common.ml + driver/<id>.ml -> build/<id>/driver
set -e
id="$1"
cd "$(dirname "$0")/.."
b=build/$id
[ -f $b/model.ml ] || { echo "missing $b/model.ml (extraction not run)"; exit 2; }
if [ ! -x $b/driver ] || [ $b/model.ml -nt $b/driver ] || [ driver/common.ml -nt $b/driver ] || [ driver/$id.ml -nt $b/driver ]; then
  cp driver/common.ml $b/common.ml; cp driver/$id.ml $b/main.ml
  (cd $b && ocamlfind ocamlopt -O2 -w -a -package str model.mli model.ml common.ml main.ml -o driver 2>&1 || ocamlfind ocamlopt -w -a model.mli model.ml common.ml main.ml -o driver)
fi
