#!/usr/bin/env python3
"""Regenerate MANIFEST.json from the table below (kept here so that the manifest is always valid)."""
import json, os
ROOT = os.path.dirname(os.path.dirname(os.path.abspath(__file__)))
props = [json.loads(l) for l in open(os.path.join(ROOT, "properties.jsonl"))]
ids = [p["id"] for p in props]

import importlib, sys
sys.path.insert(0, os.path.join(ROOT, "tools"))
CLAIMED = {}
READY = set(open(os.path.join(ROOT, "tools", "ready.txt")).read().split())
for pid in ids:
    if pid in READY and os.path.exists(os.path.join(ROOT, "tools", "props", pid.lower() + ".py")):
        mod = importlib.import_module("props." + pid.lower())
        if getattr(mod, "CLAIM", None):
            CLAIMED[pid] = mod.CLAIM
NOT_YET = "model and theorems not yet built in this round; see DESIGN.md §9 for the construction order"

checks = []
for pid in ids:
    if pid in CLAIMED:
        c = CLAIMED[pid]
        checks.append(dict(
            property_id=pid, quick_cmd=f"./check {pid} quick", thorough_cmd=f"./check {pid} thorough",
            evidence_file=f"evidence/{pid}.json", replay_cmd_template=f"./check {pid} --replay {{path}}",
            engine="coq-proof+correspondence",
            level_claimed=dict(category="proof", text=c["text"], design_ref=c["design_ref"]),
            level_note=c["note"], technique=c["technique"]))
na = [dict(property_id=pid, reason=NOT_YET) for pid in ids if pid not in CLAIMED]
hooks_commits = [l.strip() for l in open(os.path.join(ROOT, "hooks_commits.txt"))] if os.path.exists(os.path.join(ROOT, "hooks_commits.txt")) else []
m = dict(
    version=1,
    setup_cmd="./setup.sh",
    hooks=dict(guard="cfg(wac_verif)",
               enable='RUSTFLAGS="--cfg wac_verif" (set in /verif/harness/.cargo/config.toml; the harness crate depends on /repo crates by path)',
               baseline_off_cmd="cd /repo && cargo test --workspace --no-fail-fast --offline",
               source_commits=hooks_commits, add_only=True),
    engines=[dict(name="coq-proof+correspondence", path="check", serves_properties=sorted(CLAIMED),
                  kind_free_text="Coq 8.16 theorems over hand-written Gallina models; models extracted to OCaml and "
                                 "diffed against the Rust implementation on generated cases every run")],
    checks=checks,
    notes="See DESIGN.md. known-findings.json lists recorded findings and fixed defects.",
    not_applicable=na)
json.dump(m, open(os.path.join(ROOT, "MANIFEST.json"), "w"), indent=1)
print("claimed:", sorted(CLAIMED))
