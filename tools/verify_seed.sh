#!/bin/bash
# verify_seed.sh <worktree> <seed-subdir e.g. seeded/C15-1> : confirm a seeded change in the seeder's own worktree:
#  suite passes with the change (except baseline-failing encoding::encoding), demo fails with it and passes without it.
wt=$1; sd=$wt/$2
cd $wt || exit 2
export CARGO_TARGET_DIR=$wt/target
git checkout -q -- . && git clean -fdq -e seeded -e target
demo_path=$(python3 -c "import json;print(json.load(open('$sd/meta.json'))['demo_path'])")
demo_cmd=$(python3 -c "import json;print(json.load(open('$sd/meta.json'))['demo_cmd'])")
mkdir -p $(dirname $demo_path); cp $sd/demo.rs $demo_path
echo "--- demo WITHOUT change"; (eval "$demo_cmd") 2>&1 | grep -E "^test result|error(\[|:)" | head -3
git apply $sd/patch.diff || { echo "PATCH DOES NOT APPLY"; exit 3; }
echo "--- demo WITH change"; (eval "$demo_cmd") 2>&1 | grep -E "^test result|error(\[|:)" | head -3
rm -f $demo_path
echo "--- suite WITH change"; cargo test --workspace --no-fail-fast --offline 2>&1 | grep -E "^test result: FAILED|^test .* FAILED|^error" | head -5
git checkout -q -- . && git clean -fdq -e seeded -e target
