#!/usr/bin/env python3
"""archive_seed.py <seeder> <ID> <k> <first result> [<after strengthening>]
Copy a confirmed seeded change from the seeder's worktree (/tmp/seed-<seeder>/seeded/<ID>-<k>) to
/verif/seeded/<ID>/<seeder>-<ID>-<k>/, record the verification and the check result in its meta.json and add a row to
the table of DESIGN.md §11.4."""
import json, os, shutil, sys
ROOT = os.path.dirname(os.path.dirname(os.path.abspath(__file__)))
seeder, pid, k, first = sys.argv[1:5]
after = sys.argv[5] if len(sys.argv) > 5 else "–"
src = f"/tmp/seed-{seeder}/seeded/{pid}-{k}"
name = f"{seeder}-{pid}-{k}"
dst = os.path.join(ROOT, "seeded", pid, name)
if os.path.isdir(src):
    os.makedirs(os.path.dirname(dst), exist_ok=True)
    if os.path.isdir(dst):
        shutil.rmtree(dst)
    shutil.copytree(src, dst)
mp = os.path.join(dst, "meta.json")
m = json.load(open(mp))
m["verified_by_main_session"] = ("tools/verify_seed.sh: demo passes without / fails with the change; workspace suite "
                                 "passes with it (baseline-failing encoding::encoding excepted)")
m["check_result"] = first if after == "–" else f"first: {first}; after strengthening: {after}"
m["check_cmd"] = f"tools/mutcheck.sh {pid} seeded/{pid}/{name}/patch.diff"
json.dump(m, open(mp, "w"), indent=1)
cell = lambda s, n=150: " ".join(str(s).split()).replace("|", "\\|")[:n]
row = f"| {pid} {name} {cell(m.get('summary', ''), 130)} | {cell(m.get('needs', ''), 150)} | {cell(first, 200)} | {cell(after, 220)} |\n"
p = os.path.join(ROOT, "DESIGN.md")
d = open(p).read()
marker = "\nStrengthening done because of these runs"
i = d.index(marker)
if f"| {pid} {name} " in d:
    # replace the existing row
    lines = d.split("\n")
    lines = [row.rstrip("\n") if l.startswith(f"| {pid} {name} ") else l for l in lines]
    d = "\n".join(lines)
else:
    d = d[:i].rstrip("\n") + "\n" + row + d[i:]
open(p, "w").write(d)
print("archived", dst)
