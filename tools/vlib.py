"""Shared machinery of ./check: Coq build + audit, harness/driver builds, diffing, search,
known findings, evidence.  Property specifics live in tools/props/<id>.py."""
import fcntl
import hashlib
import json
import os
import re
import subprocess
import sys
import time

ROOT = os.path.dirname(os.path.dirname(os.path.abspath(__file__)))
COQ = os.path.join(ROOT, "coq")
HARNESS = os.path.join(ROOT, "harness")
BUILD = os.path.join(ROOT, "build")
# The registered checks always run against /repo. VERIF_REPO lets the self-test machinery point a scratch copy
# of /verif at a scratch worktree of the repository (seeded-mutant runs) without touching /repo.
REPO = os.environ.get("VERIF_REPO", "/repo")

FORBIDDEN = re.compile(
    r"\b(Admitted|admit|Axiom|Axioms|Parameter|Parameters|Conjecture|Conjectures|Admit Obligations|"
    r"Unset Guard Checking|Unset Positivity Checking|Unset Universe Checking|bypass_check|"
    r"type-in-type|impredicative-set)\b")
# Hypothesis/Variable are only allowed inside sections; checked separately.

ALLOWED_AXIOMS = set()  # none: every property theorem must be closed under the global context

ENV = dict(os.environ, CARGO_NET_OFFLINE="true", VERIF_REPO=REPO, VERIF_ROOT=ROOT)


def cargo_paths_override():
    if REPO == "/repo":
        return ""
    ps = [REPO] + [os.path.join(REPO, "crates", c) for c in ("wac-types", "wac-graph", "wac-parser", "wac-resolver")]
    return " --config 'paths=[%s]'" % ",".join('"%s"' % p for p in ps)


class Lock:
    def __init__(self, name):
        os.makedirs(BUILD, exist_ok=True)
        self.path = os.path.join(BUILD, name + ".lock")

    def __enter__(self):
        self.f = open(self.path, "w")
        fcntl.flock(self.f, fcntl.LOCK_EX)

    def __exit__(self, *a):
        fcntl.flock(self.f, fcntl.LOCK_UN)
        self.f.close()


def sh(cmd, cwd=ROOT, timeout=1800, env=None, stdin=None):
    """Run a shell command, return (rc, combined output)."""
    try:
        p = subprocess.run(cmd, shell=True, cwd=cwd, timeout=timeout, env=env or ENV,
                           stdout=subprocess.PIPE, stderr=subprocess.STDOUT, input=stdin)
        return p.returncode, p.stdout.decode("utf-8", "replace")
    except subprocess.TimeoutExpired as e:
        return 124, (e.stdout or b"").decode("utf-8", "replace") + "\nTIMEOUT"


# ------------------------------------------------------------------ Coq

def run_translators():
    """Regenerate coq/theories/gen/*.v from /repo. Returns list of (name, ok, message)."""
    res = []
    gdir = os.path.join(ROOT, "tools", "gen")
    if not os.path.isdir(gdir):
        return res
    for f in sorted(os.listdir(gdir)):
        if f.startswith("gen_") and f.endswith(".py"):
            rc, out = sh(f"python3 {os.path.join(gdir, f)}", timeout=120)
            res.append((f, rc == 0, out.strip()[-2000:]))
    return res


def coq_make(targets, timeout=1500):
    """make the given .vo targets (paths relative to coq/). Returns (ok, log)."""
    with Lock("coq"):
        rc, out = sh(os.path.join(ROOT, "tools", "mkcoqproject.sh"), timeout=120)
        if rc != 0:
            return False, out
        rc, out = sh("timeout %d make -j16 %s" % (timeout, " ".join(targets)), cwd=COQ, timeout=timeout + 30)
        return rc == 0, out


def coq_props(pid, timeout=1500):
    """(Re)compile theories/props/<pid>.v and everything it needs; parse Print Assumptions.
    Returns dict(ok, log, theorems=[names], closed=[names], open={name: axioms}, failing=str|None)."""
    rel = f"theories/props/{pid}.v"
    vo = rel + "o"
    src = open(os.path.join(COQ, rel)).read()
    theorems = re.findall(r"^\s*Theorem\s+([A-Za-z0-9_']+)", src, re.M)
    with Lock("coq"):
        rc, out = sh(os.path.join(ROOT, "tools", "mkcoqproject.sh"), timeout=120)
        if rc != 0:
            return dict(ok=False, log=out, theorems=theorems, closed=[], open={}, failing="mkcoqproject")
        for ext in ("o", "ok", "os"):
            try:
                os.remove(os.path.join(COQ, rel + ext))
            except FileNotFoundError:
                pass
        rc, out = sh("timeout %d make -j16 %s" % (timeout, vo), cwd=COQ, timeout=timeout + 30)
    res = dict(ok=rc == 0, log=out, theorems=theorems, closed=[], open={}, failing=None)
    if rc != 0:
        m = re.search(r'File "\./([^"]+)", line (\d+)', out)
        res["failing"] = (m.group(1) + ":" + m.group(2)) if m else "unknown"
        return res
    # Print Assumptions output follows each theorem in order.
    chunks = re.split(r"(?=Closed under the global context|Axioms:)", out)
    verdicts = [c for c in chunks if c.startswith("Closed under") or c.startswith("Axioms:")]
    pa = re.findall(r"^\s*Print Assumptions\s+([A-Za-z0-9_']+)\s*\.", src, re.M)
    for name, v in zip(pa, verdicts):
        if v.startswith("Closed under"):
            res["closed"].append(name)
        else:
            axs = re.findall(r"^([A-Za-z0-9_.']+)\s*:", v[len("Axioms:"):], re.M)
            if set(axs) <= ALLOWED_AXIOMS:
                res["closed"].append(name)
            else:
                res["open"][name] = axs
    missing = [t for t in theorems if t not in pa]
    for t in missing:
        res["open"][t] = ["<no Print Assumptions>"]
    if len(verdicts) != len(pa):
        res["ok"] = False
        res["failing"] = "print-assumptions-count"
    return res


def audit_sources():
    """grep the whole development for forbidden vernacular. Returns list of 'file:line: text'."""
    bad = []
    tdir = os.path.join(COQ, "theories")
    for dp, _, fs in os.walk(tdir):
        for f in fs:
            if not f.endswith(".v"):
                continue
            p = os.path.join(dp, f)
            depth = 0
            txt = open(p).read()
            # strip comments (nested)
            out, i, lvl = [], 0, 0
            while i < len(txt):
                if txt.startswith("(*", i):
                    lvl += 1; i += 2
                elif txt.startswith("*)", i) and lvl > 0:
                    lvl -= 1; i += 2
                else:
                    out.append(txt[i] if lvl == 0 or txt[i] == "\n" else " ")
                    i += 1
            code = "".join(out)
            for ln, line in enumerate(code.split("\n"), 1):
                if re.match(r"\s*(Section|Module Type)\b", line):
                    depth += 1
                if re.match(r"\s*End\b", line) and depth > 0:
                    depth -= 1
                if FORBIDDEN.search(line):
                    bad.append(f"{os.path.relpath(p, ROOT)}:{ln}: {line.strip()}")
                if depth == 0 and re.match(r"\s*(Variable|Variables|Hypothesis|Hypotheses|Context)\b", line):
                    bad.append(f"{os.path.relpath(p, ROOT)}:{ln}: {line.strip()} (outside section)")
    return bad


def ensure_extraction(pid_lower, extract_v):
    """Make sure build/<id>/model.ml exists and is current; returns (ok, log)."""
    b = os.path.join(BUILD, pid_lower)
    os.makedirs(b, exist_ok=True)
    vo = os.path.join(COQ, extract_v + "o")
    if not os.path.exists(os.path.join(b, "model.ml")) and os.path.exists(vo):
        os.remove(vo)
    ok, log = coq_make([extract_v + "o"])
    if not ok:
        return ok, log
    rc, out = sh(f"tools/build_driver.sh {pid_lower}", timeout=600)
    return rc == 0, log + out


# ------------------------------------------------------------------ harness

def cargo_build(bins, timeout=2400, extra=""):
    with Lock("cargo"):
        if not os.path.exists(os.path.join(HARNESS, "Cargo.lock")):
            sh(f"cp {REPO}/Cargo.lock {HARNESS}/Cargo.lock")
        args = " ".join(f"--bin {b}" for b in bins)
        rc, out = sh(f"cargo build --offline{cargo_paths_override()} {extra} {args}", cwd=HARNESS, timeout=timeout)
        return rc == 0, out


def hbin(name):
    return os.path.join(HARNESS, "target", "debug", name)


# ------------------------------------------------------------------ findings / evidence / replay

def load_known(pid):
    p = os.path.join(ROOT, "known-findings.json")
    if not os.path.exists(p):
        return []
    return [e for e in json.load(open(p)) if e.get("property") == pid]


def write_replay(pid, payload):
    d = os.path.join(ROOT, "replays", pid)
    os.makedirs(d, exist_ok=True)
    blob = json.dumps(payload, indent=1, sort_keys=True)
    h = hashlib.sha256(blob.encode()).hexdigest()[:12]
    p = os.path.join(d, h + ".json")
    open(p, "w").write(blob)
    return os.path.relpath(p, ROOT)


def write_evidence(pid, tier, seed, coverage, wall, violations, assumptions):
    os.makedirs(os.path.join(ROOT, "evidence"), exist_ok=True)
    ev = dict(property_id=pid, tier=tier, seed=int(seed), level="proof", coverage=coverage,
              assumptions=assumptions, wall_s=round(wall, 2), violations=violations)
    open(os.path.join(ROOT, "evidence", pid + ".json"), "w").write(json.dumps(ev, indent=1))


TRUSTED_COMMON = [
    "Coq 8.16.1 kernel (coqc); vm_compute used inside proofs for finite sweeps; native_compute not used",
    "Axioms: none (every property theorem prints 'Closed under the global context')",
    "Extraction via ExtrOcamlBasic only (its built-in Extract Inductive for bool/option/unit/list/prod/sumbool/"
    "sumor and inlined andb/orb/negb); no Extract Constant / Extract Inductive of our own; N/positive stay inductive",
    "OCaml 4.13 compiler and the hand-written driver glue (driver/common.ml + driver/<id>.ml)",
    "Rust harness crate /verif/harness (case generators, canonicalisers) built against /repo's working tree with --cfg wac_verif",
    "tools/vlib.py + tools/props/<id>.py (diff, search, evidence writer)",
]


class Result:
    """Accumulates the outcome of a check run."""

    def __init__(self, pid, tier, seed):
        self.pid, self.tier, self.seed = pid, tier, seed
        self.t0 = time.time()
        self.violations = []   # (replay_path, no_input_found: bool, text)
        self.known = []        # texts
        self.coverage = {}
        self.assumptions = []

    def violation(self, payload, no_input=False):
        path = write_replay(self.pid, payload)
        self.violations.append((path, no_input, payload.get("what", "")))

    def finish(self):
        for k in self.known:
            print(f"KNOWN-FINDING: property={self.pid} {k}")
        seen = set()
        for path, no_input, what in self.violations:
            if path in seen:
                continue
            seen.add(path)
            tail = " no-failing-input-found" if no_input else ""
            print(f"VIOLATION property={self.pid} replay={path}{tail}")
        write_evidence(self.pid, self.tier, self.seed, self.coverage, time.time() - self.t0,
                       len(seen), self.assumptions)
        sys.stdout.flush()
        return 1 if seen else 0


def proof_stage(res, pid):
    """Common first stage: translators, props build, audits. Fills coverage keys. Returns props dict."""
    tr = run_translators()
    for name, ok, msg in tr:
        if not ok:
            res.violation(dict(kind="broken-tie", what=f"translator {name} failed", detail=msg), no_input=True)
    pr = coq_props(pid)
    bad = audit_sources()
    obligations = len(pr["theorems"])
    discharged = len([t for t in pr["theorems"] if t in pr["closed"]]) if pr["ok"] else 0
    res.coverage.update(dict(
        obligations=obligations, discharged=discharged,
        checker_cmd=f"cd /verif/coq && make -j16 theories/props/{pid}.vo  (coq_makefile, full .vo build; "
                    f"Print Assumptions under every theorem; forbidden-vernacular grep)",
        theorems=pr["theorems"], translators=[n for n, _, _ in tr]))
    if bad:
        res.violation(dict(kind="audit", what="forbidden vernacular in development", lines=bad), no_input=True)
    if not pr["ok"]:
        res.proof_broken = dict(kind="proof-broken", what=f"Coq build failed at {pr['failing']}",
                                log=pr["log"][-4000:])
    elif pr["open"]:
        res.proof_broken = dict(kind="assumptions", what="theorem depends on axioms / no Print Assumptions",
                                detail=pr["open"])
    else:
        res.proof_broken = None
    # thorough tier: re-check the compiled theory and everything it depends on with the independent checker
    if res.tier == "thorough" and pr["ok"]:
        with Lock("coq"):
            rc, out = sh(f"timeout 1500 coqchk -o -silent -Q theories WacV WacV.props.{pid}", cwd=COQ, timeout=1600)
        summary = out[out.find("CONTEXT SUMMARY"):] if "CONTEXT SUMMARY" in out else out[-1500:]
        axioms_none = "* Axioms: <none>" in summary
        res.coverage["coqchk"] = dict(ok=(rc == 0), axioms_none=axioms_none, summary=" ".join(summary.split())[:600])
        if rc != 0 or not axioms_none or "type-in-type: <none>" not in summary or "unsafe (co)fixpoints: <none>" not in summary \
                or "positivity is assumed: <none>" not in summary:
            res.violation(dict(kind="audit", what="coqchk does not accept the compiled theory as axiom-free", log=out[-3000:]), no_input=True)
    return pr
