#!/usr/bin/env python3
"""Translator: crates/wac-parser/src/lexer.rs  ->  coq/theories/gen/LexTables.v

Reads only table-like fragments of the lexer:
  * the `#[logos(...)]` attributes on `enum Token` (skip pattern, subpatterns),
  * every `#[token("...")]` / `#[token("...", callback)]` / `#[regex(r"...", callback?)]` attribute together with
    the variant it decorates,
  * the same for the helper enum `CommentToken`,
  * the arms of the `match ch` in `detect_invalid_input` (character literals, the `is_control` guard arm, the
    wildcard arm) together with the error constructor each arm returns.
Anything it does not understand makes it exit non-zero (a broken tie); it never guesses."""
import os
import re
import sys

REPO = os.environ.get("VERIF_REPO", "/repo")
SRC = os.path.join(REPO, "crates", "wac-parser", "src", "lexer.rs")
OUT = os.path.join(os.path.dirname(os.path.abspath(__file__)), "..", "..", "coq", "theories", "gen", "LexTables.v")


SNAPSHOT = os.path.join(os.path.dirname(os.path.abspath(__file__)), "LexTables.v.snapshot")


def die(msg):
    """Broken tie. The check still has to run (correspondence + property predicate) so that a failing input is
    found: fall back to the last good tables -- the pristine snapshot committed next to this script."""
    sys.stderr.write("gen_lexer_tables: " + msg + "\n")
    out = os.path.normpath(OUT)
    try:
        snap = open(SNAPSHOT).read()
        os.makedirs(os.path.dirname(out), exist_ok=True)
        if not os.path.exists(out) or open(out).read() != snap:
            open(out, "w").write(snap)
        sys.stderr.write("gen_lexer_tables: fell back to the pristine snapshot of the tables (%s)\n" % SNAPSHOT)
    except OSError as e:
        sys.stderr.write("gen_lexer_tables: no snapshot to fall back to: %s\n" % e)
    sys.exit(1)


def rust_string(lit):
    """Value of a Rust string literal "..." or r"..." (only the escapes that occur in token tables)."""
    if lit.startswith('r"') and lit.endswith('"'):
        return lit[2:-1]
    if lit.startswith('r#"') and lit.endswith('"#'):
        return lit[3:-2]
    if not (lit.startswith('"') and lit.endswith('"')):
        die("unsupported string literal " + lit)
    body, out, i = lit[1:-1], [], 0
    while i < len(body):
        c = body[i]
        if c == "\\":
            i += 1
            if i >= len(body):
                die("dangling escape in " + lit)
            e = body[i]
            m = {"n": "\n", "t": "\t", "r": "\r", "\\": "\\", '"': '"', "0": "\0", "'": "'"}
            if e in m:
                out.append(m[e])
            elif e == "u":
                mm = re.match(r"u\{([0-9a-fA-F_]+)\}", body[i:])
                if not mm:
                    die("bad \\u escape in " + lit)
                out.append(chr(int(mm.group(1).replace("_", ""), 16)))
                i += len(mm.group(0)) - 1
            else:
                die("unsupported escape \\" + e + " in " + lit)
        else:
            out.append(c)
        i += 1
    return "".join(out)


def rust_char(lit):
    """Value of a Rust char literal."""
    if not (lit.startswith("'") and lit.endswith("'")):
        die("bad char literal " + lit)
    s = rust_string('"' + lit[1:-1].replace('"', '\\"') + '"')
    if len(s) != 1:
        die("char literal of length != 1: " + lit)
    return ord(s)


STR = r'(?:r#"(?:[^"]|"(?!#))*"#|r"[^"]*"|"(?:[^"\\]|\\.)*")'


def enum_block(src, name):
    m = re.search(r"((?:[ \t]*#\[[^\n]*\]\n)+)[ \t]*pub enum " + re.escape(name) + r"(?:<[^>]*>)?\s*\{", src)
    if not m:
        die("enum %s with its attributes not found" % name)
    i, depth = m.end(), 1
    while depth > 0:
        if i >= len(src):
            die("unbalanced braces in enum " + name)
        if src[i] == "{":
            depth += 1
        elif src[i] == "}":
            depth -= 1
        i += 1
    return m.group(1), src[m.end():i - 1]


def parse_enum(src, name):
    attrs, body = enum_block(src, name)
    skip, subs = None, []
    for line in attrs.strip().split("\n"):
        line = line.strip()
        if re.fullmatch(r"#\[derive\([^)]*\)\]", line) or re.fullmatch(r"#\[logos\(error\s*=\s*\w+\)\]", line):
            continue
        m = re.fullmatch(r"#\[logos\(skip\s+(" + STR + r")\)\]", line)
        if m:
            if skip is not None:
                die("two skip patterns on " + name)
            skip = rust_string(m.group(1)); continue
        m = re.fullmatch(r"#\[logos\(subpattern\s+(\w+)\s*=\s*(" + STR + r")\)\]", line)
        if m:
            subs.append((m.group(1), rust_string(m.group(2)))); continue
        die("unrecognised attribute on enum %s: %s" % (name, line))
    entries, pending = [], None
    for raw in body.split("\n"):
        line = raw.strip()
        if not line or line.startswith("//"):
            continue
        m = re.fullmatch(r"#\[(token|regex)\(\s*(" + STR + r")\s*(?:,\s*([\w:]+)\s*)?\)\]", line)
        if m:
            if pending:
                die("two token attributes on one variant near: " + line)
            pending = (m.group(1), rust_string(m.group(2)), m.group(3) or "")
            continue
        if line.startswith("#["):
            die("unrecognised attribute in enum %s: %s" % (name, line))
        m = re.fullmatch(r"(\w+)(?:\([^)]*\))?,", line)
        if not m:
            die("unrecognised line in enum %s: %s" % (name, line))
        if not pending:
            die("variant %s of %s has no #[token]/#[regex] attribute" % (m.group(1), name))
        entries.append((m.group(1),) + pending)
        pending = None
    if pending:
        die("dangling attribute at the end of enum " + name)
    return skip, subs, entries


def parse_screen(src):
    m = re.search(r"fn detect_invalid_input\(source: &str\)[^{]*\{", src)
    if not m:
        die("detect_invalid_input not found")
    i, depth = m.end(), 1
    while depth > 0:
        if src[i] == "{":
            depth += 1
        elif src[i] == "}":
            depth -= 1
        i += 1
    body = src[m.end():i - 1]
    body = re.sub(r"//[^\n]*", "", body)
    mm = re.search(r"for \(offset, ch\) in source\.char_indices\(\)\s*\{\s*match ch\s*\{", body)
    if not mm:
        die("detect_invalid_input: expected `for (offset, ch) in source.char_indices() { match ch {`")
    j, depth, start = mm.end(), 1, mm.end()
    while depth > 0:
        if body[j] == "{":
            depth += 1
        elif body[j] == "}":
            depth -= 1
        j += 1
    arms_src = body[start:j - 1]
    tail = re.sub(r"\s+", "", body[j:])
    if tail != "}Ok(())":
        die("detect_invalid_input: unexpected code after the match: " + tail[:80])
    # split arms: pattern => { block }
    arms, k = [], 0
    while True:
        while k < len(arms_src) and arms_src[k] in " \t\r\n,":
            k += 1
        if k >= len(arms_src):
            break
        e = arms_src.find("=>", k)
        if e < 0:
            die("detect_invalid_input: arm without =>")
        pat = arms_src[k:e].strip()
        b = e + 2
        while arms_src[b] in " \t\r\n":
            b += 1
        if arms_src[b] != "{":
            die("detect_invalid_input: arm body is not a block: " + pat)
        d, c = 1, b + 1
        while d > 0:
            if arms_src[c] == "{":
                d += 1
            elif arms_src[c] == "}":
                d -= 1
            c += 1
        block = re.sub(r"\s+", "", arms_src[b + 1:c - 1])
        arms.append((pat, block))
        k = c
    out = []
    kinds = {"DisallowedBidirectionalOverride": "SEBidi", "DiscouragedUnicodeCodepoint": "SEDiscouraged",
             "DisallowedControlCode": "SEControl"}

    def reject_kind(block, pat):
        m2 = re.fullmatch(r"returnErr\(\(Error::(\w+)\(ch\),SourceSpan::new\(offset\.into\(\),ch\.len_utf8\(\)\),?\)\);?", block)
        if not m2 or m2.group(1) not in kinds:
            die("detect_invalid_input: unrecognised arm body for `%s`: %s" % (pat, block))
        return kinds[m2.group(1)]
    for pat, block in arms:
        if pat == "_":
            if block != "":
                die("detect_invalid_input: wildcard arm is not empty")
            out.append(("wild",))
        elif re.fullmatch(r"ch\s+if\s+ch\.is_control\(\)", pat):
            out.append(("control", reject_kind(block, pat)))
        elif re.fullmatch(r"ch\s+if\s+ch\.is_ascii_control\(\)", pat):
            out.append(("asciicontrol", reject_kind(block, pat)))
        else:
            lits = [x.strip() for x in pat.split("|")]
            cs = []
            for lit in lits:
                if not re.fullmatch(r"'(?:[^'\\]|\\.|\\u\{[0-9a-fA-F_]+\})'", lit):
                    die("detect_invalid_input: unrecognised pattern " + lit)
                cs.append(rust_char(lit))
            if block == "":
                out.append(("allow", cs))
            else:
                out.append(("reject", reject_kind(block, pat), cs))
    return out


def coq_str(s):
    return "[" + ";".join(str(ord(c)) for c in s) + "]"


def coq_ns(ns):
    return "[" + ";".join(str(n) for n in ns) + "]"


def main():
    try:
        src = open(SRC).read()
    except OSError as e:
        die("cannot read %s: %s" % (SRC, e))
    skip, subs, entries = parse_enum(src, "Token")
    cskip, csubs, centries = parse_enum(src, "CommentToken")
    arms = parse_screen(src)
    if skip is None:
        die("Token has no skip pattern")
    keywords, symbols, callbacks, regexes = [], [], [], []
    for var, kind, text, cb in entries:
        if kind == "token" and not cb:
            (keywords if re.fullmatch(r"[a-z][a-z0-9]*", text) else symbols).append((text, var))
        elif kind == "token":
            callbacks.append((text, var, cb))
        else:
            regexes.append((text, var, cb))
    L = []
    L.append("(* GENERATED by tools/gen/gen_lexer_tables.py from crates/wac-parser/src/lexer.rs -- do not edit *)")
    L.append("From WacV Require Import Str Token.")
    L.append("(* every variant of enum Token with its Rust name (Debug form), in declaration order *)")
    L.append("Definition gen_variant_names : list (token * str) := [")
    L.append(";\n".join("  (T%s, %s)" % (v, coq_str(v)) for v, _, _, _ in entries) + "].")
    L.append("(* text |-> variant, in source order; texts are lists of code points *)")
    L.append("Definition gen_keywords : list (str * token) := [")
    L.append(";\n".join("  (%s, T%s) (* %s *)" % (coq_str(t), v, t) for t, v in keywords) + "].")
    L.append("Definition gen_symbols : list (str * token) := [")
    L.append(";\n".join("  (%s, T%s)" % (coq_str(t), v) for t, v in symbols) + "].")
    L.append("(* #[token(text, callback)]: (text, variant, callback path) *)")
    L.append("Definition gen_callback_tokens : list (str * token * str) := [")
    L.append(";\n".join("  (%s, T%s, %s)" % (coq_str(t), v, coq_str(cb)) for t, v, cb in callbacks) + "].")
    L.append("(* #[regex(source, callback?)]: (source, variant, callback path) *)")
    L.append("Definition gen_regex_tokens : list (str * token * str) := [")
    L.append(";\n".join("  (%s, T%s, %s)" % (coq_str(t), v, coq_str(cb)) for t, v, cb in regexes) + "].")
    L.append("Definition gen_skip : str := %s." % coq_str(skip))
    L.append("Definition gen_subpatterns : list (str * str) := [")
    L.append(";\n".join("  (%s, %s)" % (coq_str(n), coq_str(r)) for n, r in subs) + "].")
    L.append("(* helper enum CommentToken (doc-comment scanner): skip pattern and (kind, source, variant) *)")
    L.append("Definition gen_comment_skip : str := %s." % coq_str(cskip or ""))
    L.append("Definition gen_comment_tokens : list (str * str * str) := [")
    L.append(";\n".join("  (%s, %s, %s)" % (coq_str(k), coq_str(t), coq_str(v)) for v, k, t, cb in centries) + "].")
    L.append("(* arms of `match ch` in detect_invalid_input, in source order *)")
    L.append("Definition gen_screen_arms : list screen_arm := [")
    a = []
    for arm in arms:
        if arm[0] == "wild":
            a.append("  ArmWild")
        elif arm[0] == "control":
            a.append("  ArmControl %s" % arm[1])
        elif arm[0] == "asciicontrol":
            a.append("  ArmAsciiControl %s" % arm[1])
        elif arm[0] == "allow":
            a.append("  ArmAllow %s" % coq_ns(arm[1]))
        else:
            a.append("  ArmReject %s %s" % (arm[1], coq_ns(arm[2])))
    L.append(";\n".join(a) + "].")
    text = "\n".join(L) + "\n"
    out = os.path.normpath(OUT)
    os.makedirs(os.path.dirname(out), exist_ok=True)
    old = open(out).read() if os.path.exists(out) else None
    if old != text:
        open(out, "w").write(text)
    print("gen_lexer_tables: %d keywords, %d symbols, %d callback tokens, %d regex tokens, %d subpatterns, %d screen arms"
          % (len(keywords), len(symbols), len(callbacks), len(regexes), len(subs), len(arms)))


if __name__ == "__main__":
    main()
