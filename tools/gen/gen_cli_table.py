#!/usr/bin/env python3
"""Translator for C19: reads the table-like fragments of the CLI sources and emits
coq/theories/gen/CliTable.v.

Reads (from $VERIF_REPO, default /repo):
  src/bin/wac.rs               enum Wac { Variant(XCommand), ... }        -> subcommand names
  src/commands/*.rs            #[derive(Args)] pub struct XCommand {...}  -> flag rows
  src/commands/compose.rs      EncodeOptions { define_components: E1, validate: E2, ..Default::default() }
                               the `if COND { bail!("cannot print binary wasm output to a terminal ...") }` guard
                               fn parse<T, U> (the --dep value parser): separator and trimming
  src/commands/plug.rs         graph.encode(EncodeOptions::default()), the terminal guard, the container type of
                               `plugs_by_name`, the `format!("plug:{name}")` prefix, the index-suffix statement
  crates/wac-graph/src/graph.rs  impl Default for EncodeOptions

Anything that does not have exactly the expected shape makes the translator exit non-zero with a
message (reported by ./check as a broken tie).  It never guesses.

Last good table: every successful translation of /repo also refreshes the committed snapshot
tools/gen/CliTable.lastgood.v.  When a translation fails the output file is left as it is (or, if
it does not exist, restored from the snapshot), so that the correspondence of C19 can still run
against the last table that could be read -- the failure itself is reported as a broken tie.
"""
import os
import re
import sys

REPO = os.environ.get("VERIF_REPO", "/repo")
ROOT = os.path.dirname(os.path.dirname(os.path.dirname(os.path.abspath(__file__))))
# VERIF_CLI_TABLE_OUT: write somewhere else (used by tools/props/c19.py to detect a table regenerated concurrently
# from another repository path)
OUT = os.environ.get("VERIF_CLI_TABLE_OUT") or os.path.join(ROOT, "coq", "theories", "gen", "CliTable.v")
LASTGOOD = os.path.join(ROOT, "tools", "gen", "CliTable.lastgood.v")


class Bad(Exception):
    pass


def die(msg):
    sys.stderr.write("gen_cli_table: CANNOT TRANSLATE: " + msg + "\n")
    sys.exit(3)


def read(rel):
    p = os.path.join(REPO, rel)
    try:
        return open(p, encoding="utf-8").read()
    except OSError as e:
        raise Bad(f"cannot read {p}: {e}")


def strip_comments(src):
    """Remove // comments (incl. doc comments) and /* */ comments, respecting string and char literals."""
    out, i, n = [], 0, len(src)
    while i < n:
        c = src[i]
        if src.startswith("//", i):
            while i < n and src[i] != "\n":
                i += 1
        elif src.startswith("/*", i):
            j = src.find("*/", i + 2)
            if j < 0:
                raise Bad("unterminated block comment")
            i = j + 2
        elif c == '"':
            j = i + 1
            while j < n and src[j] != '"':
                j += 2 if src[j] == "\\" else 1
            out.append(src[i:j + 1]); i = j + 1
        elif c == "'":
            # char literal 'x' / '\n' or a lifetime 'a
            m = re.match(r"'(\\.|[^\\'])'", src[i:])
            if m:
                out.append(m.group(0)); i += len(m.group(0))
            else:
                out.append(c); i += 1
        else:
            out.append(c); i += 1
    return "".join(out)


def balanced(src, start, op, cl):
    """src[start] == op; return index just after the matching cl (string literals respected)."""
    assert src[start] == op, (src[start:start + 20], op)
    depth, i, n = 0, start, len(src)
    while i < n:
        c = src[i]
        if c == '"':
            j = i + 1
            while j < n and src[j] != '"':
                j += 2 if src[j] == "\\" else 1
            i = j + 1
            continue
        if c == "'":
            m = re.match(r"'(\\.|[^\\'])'", src[i:])
            if m:
                i += len(m.group(0)); continue
        if c == op:
            depth += 1
        elif c == cl:
            depth -= 1
            if depth == 0:
                return i + 1
        i += 1
    raise Bad(f"unbalanced {op}{cl}")


def split_top(s, sep=","):
    """Split at top-level separators (outside () [] {} <> and string/char literals)."""
    parts, depth, cur, i, n = [], 0, [], 0, len(s)
    while i < n:
        c = s[i]
        if c == '"':
            j = i + 1
            while j < n and s[j] != '"':
                j += 2 if s[j] == "\\" else 1
            cur.append(s[i:j + 1]); i = j + 1; continue
        if c == "'":
            m = re.match(r"'(\\.|[^\\'])'", s[i:])
            if m:
                cur.append(m.group(0)); i += len(m.group(0)); continue
        if c in "([{<":
            depth += 1
        elif c in ")]}":
            depth -= 1
        elif c == ">" and not (i > 0 and s[i - 1] in "-="):
            depth -= 1
        if c == sep and depth == 0:
            parts.append("".join(cur)); cur = []
        else:
            cur.append(c)
        i += 1
    parts.append("".join(cur))
    return [p.strip() for p in parts]


def nows(s):
    return re.sub(r"\s+", "", s)


def unquote(v, what):
    m = re.fullmatch(r'"((?:[^"\\]|\\.)*)"', v)
    if not m:
        raise Bad(f"{what}: expected a string literal, found `{v}`")
    body = m.group(1)
    if "\\" in body:
        raise Bad(f"{what}: escape sequences in `{v}` are not handled")
    return body


# ------------------------------------------------------------------ clap structs

def kebab(field):
    return field.replace("_", "-")


def parse_struct(rel, src):
    """Return (struct_name, [row dicts]) for the single `pub struct XCommand` with #[derive(Args)]."""
    ms = list(re.finditer(r"#\[derive\(([^)]*)\)\]\s*((?:#\[[^\]]*\]\s*)*)pub\s+struct\s+(\w+)\s*\{", src))
    ms = [m for m in ms if "Args" in [x.strip() for x in m.group(1).split(",")]]
    if len(ms) != 1:
        raise Bad(f"{rel}: expected exactly one #[derive(Args)] struct, found {len(ms)}")
    m = ms[0]
    name = m.group(3)
    for a in re.findall(r"#\[([^\]]*)\]", m.group(2)):
        if nows(a) != "clap(disable_version_flag=true)":
            raise Bad(f"{rel}: unknown struct-level attribute #[{a}] on {name}")
    if not name.endswith("Command"):
        raise Bad(f"{rel}: struct {name} is not named *Command")
    start = m.end() - 1
    end = balanced(src, start, "{", "}")
    body = src[start + 1:end - 1]
    rows, i, n = [], 0, len(body)
    attrs = []
    while True:
        while i < n and body[i].isspace():
            i += 1
        if i >= n:
            break
        if body.startswith("#[", i):
            j = balanced(body, i + 1, "[", "]")
            attrs.append(body[i + 2:j - 1].strip()); i = j
            continue
        fm = re.match(r"pub\s+(\w+)\s*:\s*", body[i:])
        if not fm:
            raise Bad(f"{rel}: cannot parse field of {name} at `{body[i:i + 40]}`")
        field = fm.group(1)
        i += fm.end()
        # type up to the next top-level comma
        rest = body[i:]
        ty = split_top(rest)[0]
        i += rest.index(ty) + len(ty)
        while i < n and body[i].isspace():
            i += 1
        if i < n:
            if body[i] != ",":
                raise Bad(f"{rel}: expected `,` after field {field}")
            i += 1
        rows.append(field_row(rel, name, field, nows(ty), attrs))
        attrs = []
    if attrs:
        raise Bad(f"{rel}: dangling attributes at the end of {name}")
    return name, rows


def field_row(rel, sname, field, ty, attrs):
    row = dict(field=field, long=None, short=None, default=None, value_name=None, parser=None,
               required=False, cfg=None, ty=ty)
    seen_clap = False
    for a in attrs:
        a1 = nows(a)
        cm = re.fullmatch(r'cfg\(feature="([A-Za-z0-9_-]+)"\)', a1)
        if cm:
            if row["cfg"] is not None:
                raise Bad(f"{rel}: two cfg attributes on {sname}.{field}")
            row["cfg"] = cm.group(1)
            continue
        m = re.fullmatch(r"(clap|arg)\((.*)\)", a.strip(), re.S)
        if not m:
            raise Bad(f"{rel}: unknown attribute #[{a}] on {sname}.{field}")
        if seen_clap:
            raise Bad(f"{rel}: two clap attributes on {sname}.{field}")
        seen_clap = True
        for item in split_top(m.group(2)):
            if item == "":
                continue
            if "=" in item:
                k, v = [x.strip() for x in item.split("=", 1)]
            else:
                k, v = item.strip(), None
            if k == "long":
                row["long"] = kebab(field) if v is None else unquote(v, f"{sname}.{field} long")
            elif k == "short":
                if v is None:
                    row["short"] = field[0]
                else:
                    sm = re.fullmatch(r"'([^'\\])'", v)
                    if not sm:
                        raise Bad(f"{rel}: {sname}.{field}: short = {v} is not a char literal")
                    row["short"] = sm.group(1)
            elif k == "value_name" and v is not None:
                row["value_name"] = unquote(v, f"{sname}.{field} value_name")
            elif k == "default_value" and v is not None:
                row["default"] = unquote(v, f"{sname}.{field} default_value")
            elif k == "value_parser" and v is not None:
                row["parser"] = nows(v)
            elif k == "required" and v in ("true", "false"):
                row["required"] = v == "true"
            else:
                raise Bad(f"{rel}: {sname}.{field}: clap item `{item}` is not one this translator understands")
    if not seen_clap:
        raise Bad(f"{rel}: field {sname}.{field} has no #[clap(..)] attribute")
    if ty == "bool":
        row["kind"] = "KSwitch"
    elif re.fullmatch(r"Option<.+>", ty):
        row["kind"] = "KOption"
    elif re.fullmatch(r"Vec<.+>", ty):
        row["kind"] = "KMulti"
    elif re.fullmatch(r"[A-Za-z_][A-Za-z0-9_:]*", ty):
        row["kind"] = "KValue"
    else:
        raise Bad(f"{rel}: {sname}.{field}: type `{ty}` not understood")
    if row["kind"] == "KSwitch" and row["long"] is None and row["short"] is None:
        raise Bad(f"{rel}: {sname}.{field}: positional bool")
    return row


def parse_wac_enum(src):
    m = re.search(r"enum\s+Wac\s*\{", src)
    if not m:
        raise Bad("src/bin/wac.rs: enum Wac not found")
    end = balanced(src, m.end() - 1, "{", "}")
    body = src[m.end():end - 1]
    res = {}
    for item in split_top(body):
        if not item:
            continue
        im = re.fullmatch(r"(\w+)\((\w+)\)", nows(item))
        if not im:
            raise Bad(f"src/bin/wac.rs: enum Wac variant `{item}` not understood (attributes on variants are not handled)")
        variant, struct = im.groups()
        # clap derive: kebab-case of the variant name
        sub = re.sub(r"(?<!^)([A-Z])", r"-\1", variant).lower()
        if struct in res:
            raise Bad(f"src/bin/wac.rs: {struct} used by two variants")
        res[struct] = sub
    return res


# ------------------------------------------------------------------ boolean expressions

def translate_bool(expr, fields, fprefix, what, extra_atoms=False):
    """Rust boolean expression over `self.<bool field>` (and, for guards, the two sink atoms) -> Coq term."""
    e = nows(expr)
    toks, i = [], 0
    atoms = []
    if extra_atoms:
        atoms = [("std::io::stdout().is_terminal()", "tty"), ("self.output.is_none()", "(negb has_output)"),
                 ("self.output.is_some()", "has_output")]
    while i < len(e):
        hit = False
        for lit, coq in atoms:
            if e.startswith(lit, i):
                toks.append(("atom", coq)); i += len(lit); hit = True; break
        if hit:
            continue
        m = re.match(r"self\.([A-Za-z_][A-Za-z0-9_]*)(?![A-Za-z0-9_.(])", e[i:])
        if m:
            f = m.group(1)
            if f not in fields:
                raise Bad(f"{what}: `self.{f}` is not a bool field of the command struct")
            toks.append(("atom", f"({fprefix}{f} s)")); i += m.end(); continue
        m = re.match(r"(true|false)(?![A-Za-z0-9_])", e[i:])
        if m:
            toks.append(("atom", m.group(1))); i += m.end(); continue
        for op in ("&&", "||", "!", "(", ")"):
            if e.startswith(op, i):
                if op == "!" and e.startswith("!=", i):
                    raise Bad(f"{what}: operator != not handled in `{expr}`")
                toks.append((op, op)); i += len(op); hit = True; break
        if not hit:
            raise Bad(f"{what}: cannot translate expression `{expr.strip()}` (stuck at `{e[i:i + 30]}`)")
    pos = [0]

    def peek():
        return toks[pos[0]][0] if pos[0] < len(toks) else None

    def eat(k):
        if peek() != k:
            raise Bad(f"{what}: malformed expression `{expr.strip()}`")
        pos[0] += 1
        return toks[pos[0] - 1][1]

    def p_or():
        a = p_and()
        while peek() == "||":
            eat("||"); b = p_and(); a = f"(orb {a} {b})"
        return a

    def p_and():
        a = p_not()
        while peek() == "&&":
            eat("&&"); b = p_not(); a = f"(andb {a} {b})"
        return a

    def p_not():
        if peek() == "!":
            eat("!"); return f"(negb {p_not()})"
        if peek() == "(":
            eat("("); a = p_or(); eat(")"); return a
        return eat("atom")

    r = p_or()
    if pos[0] != len(toks):
        raise Bad(f"{what}: trailing tokens in `{expr.strip()}`")
    return r


def fn_body(rel, src, header_re):
    m = re.search(header_re, src)
    if not m:
        raise Bad(f"{rel}: `{header_re}` not found")
    i = src.index("{", m.end() - 1)
    j = balanced(src, i, "{", "}")
    return src[i + 1:j - 1]


def encode_call(rel, body, bool_fields, fprefix):
    """The single `.encode(ARG)` call of an exec body -> (Coq term for the options, text offset)."""
    sites = [m for m in re.finditer(r"\.\s*encode\s*\(", body)]
    if len(sites) != 1:
        raise Bad(f"{rel}: expected exactly one `.encode(` call in exec, found {len(sites)}")
    op = sites[0].end() - 1
    cl = balanced(body, op, "(", ")")
    arg = body[op + 1:cl - 1].strip()
    if nows(arg) == "EncodeOptions::default()":
        return "encode_default", op
    m = re.match(r"EncodeOptions\s*\{", arg)
    if not m:
        raise Bad(f"{rel}: argument of `.encode(` is `{arg[:60]}`, not an EncodeOptions literal or ::default()")
    e = balanced(arg, m.end() - 1, "{", "}")
    if arg[e:].strip():
        raise Bad(f"{rel}: unexpected text after the EncodeOptions literal: `{arg[e:].strip()[:40]}`")
    entries = [x for x in split_top(arg[m.end():e - 1]) if x]
    vals, rest = {}, None
    for en in entries:
        if en.startswith(".."):
            if nows(en) != "..Default::default()":
                raise Bad(f"{rel}: struct update `{en}` is not `..Default::default()`")
            rest = True
            continue
        fm = re.match(r"([A-Za-z_][A-Za-z0-9_]*)\s*:\s*(.*)$", en, re.S)
        if not fm:
            raise Bad(f"{rel}: EncodeOptions entry `{en}` not understood (field init shorthand is not handled)")
        k, v = fm.groups()
        if k not in ("define_components", "validate"):
            raise Bad(f"{rel}: EncodeOptions field `{k}` set by the CLI is not modelled")
        if k in vals:
            raise Bad(f"{rel}: EncodeOptions field `{k}` set twice")
        vals[k] = translate_bool(v, bool_fields, fprefix, f"{rel}: EncodeOptions.{k}")
    for k in ("define_components", "validate"):
        if k not in vals:
            if not rest:
                raise Bad(f"{rel}: EncodeOptions.{k} neither set nor defaulted")
            vals[k] = f"({k} encode_default)"
    return f"{{| define_components := {vals['define_components']}; validate := {vals['validate']} |}}", op


GUARD_MSG = 'bail!("cannot print binary wasm output to a terminal'


def terminal_guard(rel, body, bool_fields, fprefix):
    n = body.count(GUARD_MSG)
    if n != 1:
        raise Bad(f"{rel}: expected exactly one terminal-guard bail!, found {n}")
    pos = body.index(GUARD_MSG)
    before = body[:pos]
    m = None
    for m in re.finditer(r"\bif\b", before):
        pass
    if m is None:
        raise Bad(f"{rel}: no `if` before the terminal-guard bail!")
    seg = before[m.end():]
    if not seg.rstrip().endswith("{") or seg.count("{") != 1:
        raise Bad(f"{rel}: the terminal-guard bail! is not the first statement of an `if COND {{` block")
    cond = seg.rstrip()[:-1].strip()
    if re.fullmatch(r"[A-Za-z_][A-Za-z0-9_]*", cond):
        lets = re.findall(r"\blet\s+" + cond + r"\s*=\s*(.*?);", body, re.S)
        if len(lets) != 1:
            raise Bad(f"{rel}: guard condition `{cond}` is not bound by exactly one `let`")
        cond = lets[0]
    return translate_bool(cond, bool_fields, fprefix, f"{rel}: terminal guard", extra_atoms=True), pos


# ------------------------------------------------------------------ emit

def cs(s):
    """Coq term of type str for a Python string, with the text in a comment."""
    if s is None:
        return "None"
    safe = s.replace("*)", "* )").replace("(*", "( *")
    return "[" + ";".join(str(ord(c)) for c in s) + "] (* " + safe + " *)"


def co(s):
    return "None" if s is None else "(Some (" + cs(s) + "))"


def main():
    wac = strip_comments(read("src/bin/wac.rs"))
    subs = parse_wac_enum(wac)
    cdir = os.path.join(REPO, "src", "commands")
    files = sorted(f for f in os.listdir(cdir) if f.endswith(".rs"))
    structs = {}
    srcs = {}
    for f in files:
        rel = "src/commands/" + f
        src = strip_comments(read(rel))
        srcs[f] = src
        name, rows = parse_struct(rel, src)
        if name not in subs:
            raise Bad(f"{rel}: struct {name} is not a variant of enum Wac")
        structs[name] = (f, rows)
    for s in subs:
        if s not in structs:
            raise Bad(f"enum Wac names {s} but no src/commands/*.rs defines it")
    order = sorted(structs, key=lambda s: subs[s])

    def bools(sname):
        return [r["field"] for r in structs[sname][1] if r["kind"] == "KSwitch"]

    # compose
    if "ComposeCommand" not in structs or "PlugCommand" not in structs:
        raise Bad("ComposeCommand / PlugCommand not found")
    crel = "src/commands/" + structs["ComposeCommand"][0]
    csrc = srcs[structs["ComposeCommand"][0]]
    cb = sorted(bools("ComposeCommand"))
    if cb != ["import_dependencies", "no_validate", "wat"]:
        raise Bad(f"{crel}: the bool fields of ComposeCommand are {cb}; the model record compose_sw has "
                  "import_dependencies, no_validate, wat")
    cbody = fn_body(crel, csrc, r"pub\s+async\s+fn\s+exec\s*\(\s*self\s*\)\s*->\s*Result<\(\)>\s*\{")
    c_opts, c_enc_pos = encode_call(crel, cbody, cb, "sw_")
    c_guard, c_guard_pos = terminal_guard(crel, cbody, cb, "sw_")

    # plug
    prel = "src/commands/" + structs["PlugCommand"][0]
    psrc = srcs[structs["PlugCommand"][0]]
    pb = sorted(bools("PlugCommand"))
    if pb != ["wat"]:
        raise Bad(f"{prel}: the bool fields of PlugCommand are {pb}; the model record plug_sw has wat")
    pbody = fn_body(prel, psrc, r"pub\s+async\s+fn\s+exec\s*\(\s*&\s*self\s*\)\s*->\s*Result<\(\)>\s*\{")
    p_opts, p_enc_pos = encode_call(prel, pbody, pb, "psw_")
    p_guard, p_guard_pos = terminal_guard(prel, pbody, pb, "psw_")
    pw = nows(pbody)
    gm = re.findall(r"letmutplugs_by_name=([A-Za-z0-9_:]+)::<_,Vec<_>>::new\(\);", pw)
    if len(gm) != 1:
        raise Bad(f"{prel}: `let mut plugs_by_name = <Map>::<_, Vec<_>>::new();` not found exactly once")
    container = gm[0].split("::")[-1]
    if container == "HashMap":
        grouping = "GroupHash"
    elif container == "IndexMap":
        grouping = "GroupInsertion"
    else:
        raise Bad(f"{prel}: container `{gm[0]}` of plugs_by_name is neither HashMap nor IndexMap")
    if pw.count("plugs_by_name.entry(name).or_default().push(plug);") != 1:
        raise Bad(f"{prel}: grouping statement `plugs_by_name.entry(name).or_default().push(plug);` not found")
    if pw.count("for(name,plug_refs)inplugs_by_name{") != 1 or pw.count("for(i,plug_ref)inplug_refs.iter().enumerate(){") != 1:
        raise Bad(f"{prel}: the two nested loops over plugs_by_name / plug_refs were not found in the expected form")
    fm = re.findall(r'format!\("([^"{}\\]*)\{name\}"\)', pbody)
    if len(fm) != 1:
        raise Bad(f"{prel}: expected exactly one format!(\"<prefix>{{name}}\") for local plugs, found {len(fm)}")
    plug_prefix = fm[0]
    if pw.count('ifplug_refs.len()>1{usecore::fmt::Write;write!(&mutname,"{i}").unwrap();}') != 1:
        raise Bad(f"{prel}: the index-suffix statement `if plug_refs.len() > 1 {{ write!(&mut name, \"{{i}}\") }}` "
                  "was not found in the expected form")
    if pw.count("path.file_stem().map(|fs|fs.to_string_lossy())") != 1:
        raise Bad(f"{prel}: local plug name is not `path.file_stem()...to_string_lossy()`")
    sockm = re.findall(r'Package::from_bytes\("([^"\\]*)",None,socket,graph.types_mut\(\)\)', pw)
    if len(sockm) != 1:
        raise Bad(f"{prel}: `Package::from_bytes(\"socket\", None, socket, ..)` not found")

    # --dep value parser
    deps = {}
    for sname in ("ComposeCommand", "ResolveCommand"):
        if sname not in structs:
            continue
        f = structs[sname][0]
        b = nows(fn_body("src/commands/" + f, srcs[f], r"fn\s+parse\s*<\s*T\s*,\s*U\s*>\s*\(\s*s\s*:\s*&str\s*\)"))
        m = re.fullmatch(r"let\(k,v\)=s\.split_once\('([^'\\])'\)\.context\(\"[^\"]*\"\)\?;"
                         r"Ok\(\(k(\.trim\(\))?\.parse\(\)\.map_err\(Into::into\)\?,"
                         r"v(\.trim\(\))?\.parse\(\)\.map_err\(Into::into\)\?,?\)\)", b)
        if not m:
            raise Bad(f"src/commands/{f}: body of fn parse<T, U> does not have the expected shape: {b}")
        deps[sname] = (m.group(1), m.group(2) is not None, m.group(3) is not None)
        for r in structs[sname][1]:
            if r["field"] == "deps" and r["parser"] != "parse::<String,PathBuf>":
                raise Bad(f"src/commands/{f}: value_parser of `deps` is `{r['parser']}`")
    dsep, dtk, dtv = deps["ComposeCommand"]

    # targets.rs: which exports the "only one world" default of get_wit_world looks at
    trel = "src/commands/" + structs["TargetsCommand"][0] if "TargetsCommand" in structs else None
    if trel is None:
        raise Bad("TargetsCommand not found")
    tw = nows(fn_body(trel, srcs[structs["TargetsCommand"][0]], r"fn\s+get_wit_world\s*\("))
    mm = re.search(r"letworld=matchworld_name\{(.*?)\};letItemKind::Type", tw)
    if not mm:
        raise Bad(f"{trel}: `let world = match world_name {{ .. }};` not found in get_wit_world")
    arms = mm.group(1)
    named = ('Some(world_name)=>top_level_world.exports.get(world_name).with_context(||format!('
             '"witpackagedidnotcontainaworldnamed\'{world_name}\'"))?,')
    if not arms.startswith(named):
        raise Bad(f"{trel}: the `Some(world_name)` arm of get_wit_world is not `exports.get(world_name)...?`")
    rest_arms = arms[len(named):]
    old_default = ('Noneiftop_level_world.exports.len()==1=>{top_level_world.exports.values().next().unwrap()}'
                   'Noneiftop_level_world.exports.len()>1=>{bail!("witpackagehasmultipleworlds,pleasespecifyone'
                   'withthe--worldflag")}None=>{bail!("witpackagedidnotcontainaworld")}')
    new_default = ('None=>{letmutworlds=top_level_world.exports.values().filter(|item|is_world_definition(types,item));'
                   'match(worlds.next(),worlds.next()){(Some(world),None)=>world,(Some(_),Some(_))=>{bail!('
                   '"witpackagehasmultipleworlds,pleasespecifyonewiththe--worldflag")}'
                   '(None,_)=>bail!("witpackagedidnotcontainaworld"),}}')
    helper = ('matchitem{ItemKind::Type(wac_types::Type::World(id))=>matches!(types[*id].exports.values().next(),'
              'Some(ItemKind::Component(_))),_=>false,}')
    if rest_arms == old_default:
        counts_all = True
    elif rest_arms == new_default:
        hb = nows(fn_body(trel, srcs[structs["TargetsCommand"][0]], r"fn\s+is_world_definition\s*\("))
        if hb != helper:
            raise Bad(f"{trel}: is_world_definition does not have the expected body: {hb}")
        counts_all = False
    else:
        raise Bad(f"{trel}: the default-world arms of get_wit_world have an unknown shape: {rest_arms}")

    # README.md: every `wac ...` line inside a fenced code block
    readme = read("README.md")
    examples, fence = [], False
    for line in readme.split("\n"):
        if line.strip().startswith("```"):
            fence = not fence
            continue
        if fence and re.match(r"\s*wac\s", line):
            if any(ch in line for ch in "\"'\\$|<>;&"):
                raise Bad(f"README.md: example `{line.strip()}` uses shell syntax this translator does not split")
            examples.append(line.split()[1:])
    if not examples:
        raise Bad("README.md: no `wac ...` example found in code blocks")

    # EncodeOptions::default()
    grel = "crates/wac-graph/src/graph.rs"
    gsrc = strip_comments(read(grel))
    m = re.search(r"impl\s+Default\s+for\s+EncodeOptions(<[^>]*>)?\s*\{", gsrc)
    if not m:
        raise Bad(f"{grel}: impl Default for EncodeOptions not found")
    gb = nows(gsrc[m.end():balanced(gsrc, m.end() - 1, "{", "}") - 1])
    dm = re.fullmatch(r"fndefault\(\)->Self\{Self\{define_components:(true|false),validate:(true|false),processor:None,?\}\}", gb)
    if not dm:
        raise Bad(f"{grel}: EncodeOptions::default() body not understood: {gb}")

    L = []
    L.append("(** GENERATED by tools/gen/gen_cli_table.py from the CLI sources -- do not edit. *)")
    L.append("From WacV Require Import Str CliTypes.")
    L.append("")
    L.append("Definition cli_commands : list str := [")
    L.append(";\n".join("  " + cs(subs[s]) for s in order))
    L.append("].")
    L.append("")
    L.append("Definition cli_flags : list flag_row := [")
    rows = []
    for s in order:
        for r in structs[s][1]:
            short = "None" if r["short"] is None else f"(Some {ord(r['short'])}) (* {r['short']} *)"
            rows.append(
                f"  (* {subs[s]} : {r['field']} : {r['ty']} *)\n"
                f"  mk_flag ({cs(subs[s])}) ({cs(r['field'])})\n"
                f"    {co(r['long'])} {short}\n"
                f"    {r['kind']} {co(r['default'])} {co(r['value_name'])}\n"
                f"    {co(r['parser'])} {'true' if r['required'] else 'false'} {co(r['cfg'])}")
    L.append(";\n".join(rows))
    L.append("].")
    L.append("")
    L.append("(* crates/wac-graph/src/graph.rs: impl Default for EncodeOptions *)")
    L.append(f"Definition encode_default : encode_opts := {{| define_components := {dm.group(1)}; validate := {dm.group(2)} |}}.")
    L.append("")
    L.append("(* src/commands/compose.rs: the EncodeOptions literal passed to resolution.encode *)")
    L.append(f"Definition opts_of_flags (s : compose_sw) : encode_opts :=\n  {c_opts}.")
    L.append("")
    L.append("(* src/commands/plug.rs: the argument of graph.encode *)")
    L.append(f"Definition plug_opts (s : plug_sw) : encode_opts :=\n  {p_opts}.")
    L.append("")
    L.append("(* the condition guarding bail!(\"cannot print binary wasm output to a terminal ...\") *)")
    L.append(f"Definition compose_terminal_guard (s : compose_sw) (has_output tty : bool) : bool :=\n  {c_guard}.")
    L.append(f"Definition plug_terminal_guard (s : plug_sw) (has_output tty : bool) : bool :=\n  {p_guard}.")
    L.append("(* textual position of that guard relative to the .encode( call in exec *)")
    L.append(f"Definition compose_guard_before_encode : bool := {'true' if c_guard_pos < c_enc_pos else 'false'}.")
    L.append(f"Definition plug_guard_before_encode : bool := {'true' if p_guard_pos < p_enc_pos else 'false'}.")
    L.append("")
    L.append("(* fn parse<T, U> in compose.rs: s.split_once(SEP), then k.trim() / v.trim() *)")
    L.append(f"Definition dep_separator : N := {ord(dsep)}. (* {dsep} *)")
    L.append(f"Definition dep_trim_key : bool := {'true' if dtk else 'false'}.")
    L.append(f"Definition dep_trim_value : bool := {'true' if dtv else 'false'}.")
    same = deps.get("ResolveCommand", deps["ComposeCommand"]) == deps["ComposeCommand"]
    L.append(f"Definition resolve_dep_parser_same_as_compose : bool := {'true' if same else 'false'}.")
    L.append("")
    L.append("(* src/commands/plug.rs *)")
    L.append(f"Definition plug_grouping : grouping := {grouping}. (* container of plugs_by_name: {gm[0]} *)")
    L.append(f"Definition plug_prefix : str := {cs(plug_prefix)}.")
    L.append(f"Definition plug_socket_name : str := {cs(sockm[0])}.")
    L.append("Definition plug_index_suffix_when_multi : bool := true.")
    L.append("")
    L.append("(* src/commands/targets.rs get_wit_world: without --world, `exports.len() == 1` over ALL exports *)")
    L.append(f"Definition targets_default_counts_all_exports : bool := {'true' if counts_all else 'false'}.")
    L.append("")
    L.append("(* README.md: the `wac ...` lines of fenced code blocks, split at blanks, without the program name *)")
    L.append("Definition readme_examples : list (list str) := [")
    L.append(";\n".join("  [" + "; ".join(cs(t) for t in ex) + "]" for ex in examples))
    L.append("].")
    L.append("")
    text = "\n".join(L)
    os.makedirs(os.path.dirname(OUT), exist_ok=True)
    old = open(OUT).read() if os.path.exists(OUT) else None
    if old != text:
        tmp = OUT + ".tmp%d" % os.getpid()
        open(tmp, "w").write(text)
        os.replace(tmp, OUT)
    if REPO == "/repo":
        # the snapshot follows the registered repository only, never a scratch worktree
        old = open(LASTGOOD).read() if os.path.exists(LASTGOOD) else None
        if old != text:
            tmp = LASTGOOD + ".tmp%d" % os.getpid()
            open(tmp, "w").write(text)
            os.replace(tmp, LASTGOOD)
    print(f"gen_cli_table: {len(rows)} flag rows, {len(order)} commands from {REPO} -> {os.path.relpath(OUT, ROOT)}")


if __name__ == "__main__":
    try:
        main()
    except Bad as e:
        # keep the last good table (restore it from the committed snapshot if there is none on disk)
        if not os.path.exists(OUT) and os.path.exists(LASTGOOD):
            os.makedirs(os.path.dirname(OUT), exist_ok=True)
            open(OUT, "w").write(open(LASTGOOD).read())
        die(str(e) + "  [last good table kept]")
