#!/usr/bin/env python3
"""Translator for C16: lists every hash-ordered container and every ORDER-OBSERVING use of one in the
Rust sources and emits coq/theories/gen/HashSites.v.

Reads (from $VERIF_REPO, default /repo): crates/*/src/**/*.rs and src/**/*.rs.

What is found
  * bindings of type HashMap/HashSet (also through `use .. as X` and `type X = ..` aliases, and whatever the
    path prefix is): struct fields, tuple-struct fields, enum variant payloads, fn parameters, `let` locals
    (type annotation, constructor path `HashMap::..`, turbofish `collect::<HashMap<..>>`, a bare
    `Default::default()` with no annotation (type unknown: treated as possibly hash), a copy/borrow/`mem::take`
    of another hash-typed place), pattern variables bound to a hash-typed enum payload;
  * uses that observe the iteration order of such a place:  `for .. in <place>`, `.iter() .iter_mut() .keys()
    .values() .values_mut() .into_iter() .into_keys() .into_values() .drain() .retain( .extract_if(`,
    `.extend( / .chain( / .zip( / from_iter(` taking such a place, and `.next() / .last() / .nth(` on a local
    bound to such an iterator.
  The receiver of a method is typed by following field declarations from `self`, from annotated parameters and
  from annotated/borrowed locals.  Where that is impossible (receiver behind an index or a call) the FIELD NAME
  decides: hash in every struct that has such a field -> site; hash in some, not in others -> site with
  resolution RAmbiguous (the hand-written classification must say why it is not a hash container).
  * any other mention of a hash container type inside a function body that fits none of the recognised forms
    is emitted as a site with resolution RUnrecognised, so that it cannot go unnoticed.

Each site carries: file, enclosing function (qualified by impl type / outer fn), receiver, observers, the
normalised text of the whole statement (for `for` loops: header AND body) and a hash of it.  No line numbers
take part, so edits elsewhere do not shift a site, while any edit of the statement/loop body does.

Items under #[cfg(test)], #[test] and #[cfg(wac_verif)] are skipped (not part of the shipped code paths).

Anything lexically/structurally unparseable makes the translator exit non-zero (reported by ./check as a
broken tie).  It never guesses.

Environment: VERIF_REPO (repository root, default /repo); HASH_SITES_OUT (output path, default
coq/theories/gen/HashSites.v; used by tools/props/c16.py to detect a concurrent regeneration of the shared file).
"""
import hashlib
import os
import re
import sys

REPO = os.environ.get("VERIF_REPO", "/repo")
ROOT = os.path.dirname(os.path.dirname(os.path.dirname(os.path.abspath(__file__))))
OUT = os.environ.get("HASH_SITES_OUT", os.path.join(ROOT, "coq", "theories", "gen", "HashSites.v"))

BASE_HASH = {"HashMap", "HashSet"}
OBSERVERS = {"iter", "iter_mut", "keys", "values", "values_mut", "into_iter", "into_keys", "into_values",
             "drain", "retain", "extract_if"}
CONSUMERS = {"extend", "chain", "zip", "from_iter", "append"}
ITER_STEPS = {"next", "last", "nth", "next_back", "find", "position", "find_map", "min_by_key", "max_by_key"}
SKIP_CFG = re.compile(r"^#!?\[(test|cfg\((test|wac_verif)\)|cfg\(all\((test|wac_verif)\b.*\)\))\]$")
OPEN = {"(": ")", "[": "]", "{": "}"}
CLOSE = {")", "]", "}"}


class Bad(Exception):
    pass


PUBFIELDS = set()     # (file, struct, field) declared `pub`/`pub(..)`


def die(msg):
    sys.stderr.write("gen_hash_sites: CANNOT TRANSLATE: " + msg + "\n")
    sys.exit(3)


# ----------------------------------------------------------------------------------------------- lexer

def visible_from(decl, user):
    """private items of module file `decl` are nameable in that file and in the files of its child modules"""
    if decl == user:
        return True
    d, f = os.path.split(decl)
    if f in ("mod.rs", "lib.rs", "main.rs"):
        return user.startswith(d + "/")
    return user.startswith(decl[:-3] + "/")


class Tok:
    __slots__ = ("k", "t", "line")

    def __init__(self, k, t, line):
        self.k, self.t, self.line = k, t, line

    def __repr__(self):
        return self.t


RAWSTR = re.compile(r"b?r(#*)\"")
CHARLIT = re.compile(r"'(\\x[0-9a-fA-F]{2}|\\u\{[0-9a-fA-F_]+\}|\\.|[^\\'\n])'")
LIFETIME = re.compile(r"'[A-Za-z_][A-Za-z0-9_]*")
IDENT = re.compile(r"(?:r#)?[A-Za-z_][A-Za-z0-9_]*")
NUM = re.compile(r"[0-9][0-9A-Za-z_]*(?:\.[0-9][0-9A-Za-z_]*)?")


def lex(rel, src):
    toks, i, n, line = [], 0, len(src), 1
    while i < n:
        c = src[i]
        if c == "\n":
            line += 1; i += 1; continue
        if c in " \t\r":
            i += 1; continue
        if src.startswith("//", i):
            while i < n and src[i] != "\n":
                i += 1
            continue
        if src.startswith("/*", i):
            depth, j = 1, i + 2
            while j < n and depth:
                if src.startswith("/*", j):
                    depth += 1; j += 2
                elif src.startswith("*/", j):
                    depth -= 1; j += 2
                else:
                    if src[j] == "\n":
                        line += 1
                    j += 1
            if depth:
                raise Bad(f"{rel}:{line}: unterminated block comment")
            i = j; continue
        # raw strings / byte strings
        m = RAWSTR.match(src, i) if c in "br" else None
        if m:
            hashes = m.group(1)
            end = src.find('"' + hashes, i + len(m.group(0)))
            if end < 0:
                raise Bad(f"{rel}:{line}: unterminated raw string")
            j = end + 1 + len(hashes)
            toks.append(Tok("str", src[i:j], line)); line += src.count("\n", i, j); i = j; continue
        if c == '"' or (c == "b" and src.startswith('b"', i)):
            j = i + (2 if c == "b" else 1)
            while j < n and src[j] != '"':
                j += 2 if src[j] == "\\" else 1
            if j >= n:
                raise Bad(f"{rel}:{line}: unterminated string literal")
            toks.append(Tok("str", src[i:j + 1], line)); line += src.count("\n", i, j + 1); i = j + 1; continue
        if c == "'" or (c == "b" and src.startswith("b'", i)):
            k = i + (1 if c == "b" else 0)
            m = CHARLIT.match(src, k)
            if m:
                toks.append(Tok("chr", src[i:k + len(m.group(0))], line)); i = k + len(m.group(0)); continue
            m = LIFETIME.match(src, k)
            if m and c == "'":
                toks.append(Tok("life", m.group(0), line)); i += len(m.group(0)); continue
            raise Bad(f"{rel}:{line}: cannot lex quote")
        m = IDENT.match(src, i)
        if m:
            toks.append(Tok("id", m.group(0), line)); i = m.end(); continue
        m = NUM.match(src, i)
        if m:
            # `0..n` and `x.0.iter()` : do not swallow a '.' that starts a range or a method
            t = m.group(0)
            if "." in t and (src.startswith("..", i + t.index(".")) or not t.split(".")[1][0].isdigit()):
                t = t.split(".")[0]
            toks.append(Tok("num", t, line)); i += len(t); continue
        for p in ("..=", "...", "::", "->", "=>", ".."):
            if src.startswith(p, i):
                toks.append(Tok("p", p, line)); i += len(p); break
        else:
            if c in "()[]{}<>,;:.=&|!?#@$%^*+-/~\\":
                toks.append(Tok("p", c, line)); i += 1
            else:
                raise Bad(f"{rel}:{line}: unexpected character {c!r}")
    # a tuple index after a field access lexes as a number: `x.0.1` may lex "0.1" as one float; split it
    out = []
    for idx, t in enumerate(toks):
        if t.k == "num" and "." in t.t and out and out[-1].t == ".":
            a, b = t.t.split(".")
            out += [Tok("num", a, t.line), Tok("p", ".", t.line), Tok("num", b, t.line)]
        else:
            out.append(t)
    return out


def match_close(rel, toks, i):
    """toks[i] is an opening bracket; index of its partner."""
    want = [OPEN[toks[i].t]]
    j = i + 1
    while j < len(toks):
        t = toks[j].t
        if toks[j].k == "p":
            if t in OPEN:
                want.append(OPEN[t])
            elif t in CLOSE:
                if t != want[-1]:
                    raise Bad(f"{rel}:{toks[j].line}: bracket mismatch: found {t}, expected {want[-1]}")
                want.pop()
                if not want:
                    return j
        j += 1
    raise Bad(f"{rel}:{toks[i].line}: unbalanced {toks[i].t}")


def skip_angles(rel, toks, i):
    """toks[i] == '<' opening generics; returns index after the matching '>' ('->' is one token)."""
    depth, j = 0, i
    while j < len(toks):
        t = toks[j]
        if t.k == "p":
            if t.t == "<":
                depth += 1
            elif t.t == ">":
                depth -= 1
                if depth == 0:
                    return j + 1
            elif t.t in OPEN:
                j = match_close(rel, toks, j)
            elif t.t in (";", "{"):
                break
        j += 1
    raise Bad(f"{rel}:{toks[i].line}: unbalanced generics")


def text(toks):
    return "".join((" " + t.t + " ") if t.k == "id" and t.t in ("in", "as", "mut", "let", "for", "if", "else",
                   "match", "while", "return", "ref", "move", "fn", "impl", "dyn", "where", "loop", "break",
                   "continue", "pub", "use", "struct", "enum", "const", "static", "type", "unsafe", "async", "await")
                   else t.t for t in toks).replace("  ", " ").strip()


# ----------------------------------------------------------------------------------------------- items

class FileInfo:
    def __init__(self, rel, toks):
        self.rel, self.toks = rel, toks
        self.structs = {}      # name -> {field -> [tokens of the type]}
        self.variants = {}     # variant name -> list of payload types (tuple variants)
        self.fns = []          # dict(name, sig=(a,b), body=(a,b), self_ty, nested=[(a,b)])
        self.aliases = set()
        self.names = set(BASE_HASH)
        self.hash_fns = set()  # functions of this file whose return type mentions a hash container
        self.index_outputs = {}  # T -> {X} from `impl Index<..> for T { type Output = X; }`
        self.derives = {}      # type name -> derive list
        self.variant_owner = {}
        self.manual_impls = {}
        self.skipped = 0
        self.loose_hash = []   # (line, context) hash type mentions outside recognised item positions


def mentions_hash(toks, names):
    return any(t.k == "id" and t.t in names for t in toks)


def item_end(rel, toks, i, end):
    """End (exclusive) of the item starting at i: after the first top-level `;` or `{...}`."""
    j = i
    while j < end:
        t = toks[j]
        if t.k == "p":
            if t.t == ";":
                return j + 1
            if t.t == "{":
                return match_close(rel, toks, j) + 1
            if t.t in OPEN:
                j = match_close(rel, toks, j)
        j += 1
    raise Bad(f"{rel}:{toks[i].line}: item without end")


def parse_fields(rel, toks, a, b, owner):
    """`name: Type, ...` between a and b (exclusive) -> {name: type tokens}; attributes and pub skipped."""
    out, i = {}, a
    pub = False
    while i < b:
        t = toks[i]
        if t.t == "#" and toks[i + 1].t == "[":
            i = match_close(rel, toks, i + 1) + 1; continue
        if t.t == "pub":
            pub = True
            i += 1
            if toks[i].t == "(":
                i = match_close(rel, toks, i) + 1
            continue
        if t.t == ",":
            i += 1; continue
        if t.k != "id" or toks[i + 1].t != ":":
            raise Bad(f"{rel}:{t.line}: cannot parse field list near `{t.t}`")
        name = t.t
        j, depth = i + 2, 0
        start = j
        while j < b:
            u = toks[j]
            if u.k == "p":
                if u.t in OPEN:
                    j = match_close(rel, toks, j)
                elif u.t == "<":
                    depth += 1
                elif u.t == ">":
                    depth -= 1
                elif u.t == "," and depth == 0:
                    break
            j += 1
        out[name] = toks[start:j]
        if pub:
            PUBFIELDS.add((rel, owner, name))
        pub = False
        i = j
    return out


def parse_tuple_fields(rel, toks, a, b, owner):
    out, i, idx, depth, start = {}, a, 0, 0, a
    while i <= b:
        u = toks[i] if i < b else None
        if u is None or (u.k == "p" and u.t == "," and depth == 0):
            ty = [t for t in toks[start:i]]
            # strip attributes / pub
            k = 0
            while k < len(ty) and ty[k].t in ("pub",):
                PUBFIELDS.add((rel, owner, str(idx)))
                k += 1
                if k < len(ty) and ty[k].t == "(":
                    while ty[k].t != ")":
                        k += 1
                    k += 1
            if ty[k:]:
                out[str(idx)] = ty[k:]; idx += 1
            start = i + 1
        elif u.k == "p":
            if u.t in OPEN:
                i = match_close(rel, toks, i)
            elif u.t == "<":
                depth += 1
            elif u.t == ">":
                depth -= 1
        i += 1
    return out


def parse_items(fi, a, b, self_ty, outer_fn, names):
    rel, toks = fi.rel, fi.toks
    i = a
    while i < b:
        t = toks[i]
        # attributes
        skip = False
        derives = []
        while i < b and toks[i].t == "#":
            j = i + 1
            if toks[j].t == "!":
                j += 1
            if toks[j].t != "[":
                raise Bad(f"{rel}:{toks[i].line}: stray #")
            e = match_close(rel, toks, j)
            attr = "".join(x.t for x in toks[i:e + 1])
            if SKIP_CFG.match(attr):
                skip = True
            if attr.startswith("#[derive(") or attr.startswith("#[cfg_attr("):
                derives += [x.t for x in toks[j + 1:e] if x.k == "id" and x.t in ("Debug", "Serialize", "Hash", "PartialEq", "Eq",
                                                                                   "PartialOrd", "Ord", "Display")]
            i = e + 1
        if i >= b:
            break
        t = toks[i]
        if skip:
            if "".join(x.t for x in toks[max(a, i - 4):i]).endswith("#![cfg(test)]"):
                i = b; fi.skipped += 1; continue
            i = item_end(rel, toks, i, b); fi.skipped += 1; continue
        # modifiers
        while toks[i].k == "id" and toks[i].t in ("pub", "async", "unsafe", "default", "extern", "const") and \
                not (toks[i].t == "const" and toks[i + 1].t != "fn" and toks[i + 1].t not in ("async", "unsafe", "extern")):
            i += 1
            if toks[i].t == "(" and toks[i - 1].t == "pub":
                i = match_close(rel, toks, i) + 1
            if toks[i].k == "str" and toks[i - 1].t == "extern":
                i += 1
        t = toks[i]
        kw = t.t if t.k == "id" else None
        if kw == "use":
            e = item_end(rel, toks, i, b)
            for k in range(i, e - 2):
                if toks[k].k == "id" and toks[k].t in names and toks[k + 1].t == "as":
                    fi.aliases.add(toks[k + 2].t)
            i = e
        elif kw == "type":
            e = item_end(rel, toks, i, b)
            if mentions_hash(toks[i + 2:e], names):
                fi.aliases.add(toks[i + 1].t)
            i = e
        elif kw in ("const", "static"):
            e = item_end(rel, toks, i, b)
            if mentions_hash(toks[i:e], names):
                fi.loose_hash.append((t.line, "const/static item " + text(toks[i:min(e, i + 12)])))
            i = e
        elif kw == "mod":
            if toks[i + 2].t == ";":
                i += 3
            else:
                e = match_close(rel, toks, i + 2)
                parse_items(fi, i + 3, e, None, outer_fn, names)
                i = e + 1
        elif kw in ("struct", "union"):
            name = toks[i + 1].t
            fi.derives[name] = derives
            j = i + 2
            if toks[j].t == "<":
                j = skip_angles(rel, toks, j)
            if toks[j].t == "(":
                e = match_close(rel, toks, j)
                fi.structs[name] = parse_tuple_fields(rel, toks, j + 1, e, name)
                i = item_end(rel, toks, e, b)
            else:
                while toks[j].t not in ("{", ";"):
                    j += 1
                if toks[j].t == ";":
                    fi.structs[name] = {}
                    i = j + 1
                else:
                    e = match_close(rel, toks, j)
                    fi.structs[name] = parse_fields(rel, toks, j + 1, e, name)
                    i = e + 1
        elif kw == "enum":
            fi.structs.setdefault(toks[i + 1].t, {})    # an enum has no fields of its own
            fi.derives[toks[i + 1].t] = derives
            ename = toks[i + 1].t
            j = i + 2
            while toks[j].t != "{":
                j += 1
            e = match_close(rel, toks, j)
            k = j + 1
            while k < e:
                u = toks[k]
                if u.t == "#":
                    k = match_close(rel, toks, k + 1) + 1; continue
                if u.k == "id":
                    vname = u.t
                    fi.variant_owner[vname] = ename
                    if toks[k + 1].t == "(":
                        ee = match_close(rel, toks, k + 1)
                        fi.variants[vname] = list(parse_tuple_fields(rel, toks, k + 2, ee, vname).values())
                        k = ee + 1
                    elif toks[k + 1].t == "{":
                        ee = match_close(rel, toks, k + 1)
                        fl = parse_fields(rel, toks, k + 2, ee, vname)
                        for fn_ in fl:
                            PUBFIELDS.add((rel, vname, fn_))   # enum variant fields are as visible as the enum
                        fi.structs.setdefault(vname, {}).update(fl)   # struct-like variant: fields by name
                        k = ee + 1
                    else:
                        k += 1
                    # discriminant / separator
                    while k < e and toks[k].t != ",":
                        if toks[k].t in OPEN:
                            k = match_close(rel, toks, k)
                        k += 1
                k += 1
            i = e + 1
        elif kw in ("impl", "trait"):
            j = i + 1
            if toks[j].t == "<":
                j = skip_angles(rel, toks, j)
            hdr_start = j
            while toks[j].t != "{":
                if toks[j].t == "<":
                    j = skip_angles(rel, toks, j); continue
                if toks[j].t in OPEN:
                    j = match_close(rel, toks, j)
                j += 1
            hdr = toks[hdr_start:j]
            # `impl Trait for Type` / `impl Type` / `trait Name`
            ty = None
            cut = [k for k, x in enumerate(hdr) if x.k == "id" and x.t == "for"]
            seg = hdr[cut[-1] + 1:] if cut and kw == "impl" else hdr
            wh = [k for k, x in enumerate(seg) if x.k == "id" and x.t == "where"]
            if wh:
                seg = seg[:wh[0]]
            depth = 0
            for x in seg:
                if x.t == "<":
                    depth += 1
                elif x.t == ">":
                    depth -= 1
                elif x.k == "id" and depth == 0 and x.t not in ("dyn", "mut"):
                    ty = x.t          # last path segment at depth 0
            e = match_close(rel, toks, j)
            if kw == "impl" and cut:
                for x in hdr[:cut[-1]]:
                    if x.k == "id" and x.t in ("Debug", "Display", "Serialize"):
                        fi.manual_impls.setdefault(ty, []).append(x.t)
            if kw == "impl" and cut and any(x.k == "id" and x.t in ("Index", "IndexMut") for x in hdr[:cut[-1]]):
                for k in range(j + 1, e - 3):
                    if toks[k].t == "type" and toks[k + 1].t == "Output" and toks[k + 2].t == "=":
                        q = k + 3
                        while toks[q].t != ";":
                            q += 1
                        bt = World.base_type(None, toks[k + 3:q])
                        if bt:
                            fi.index_outputs.setdefault(ty, set()).add((rel, bt))
            parse_items(fi, j + 1, e, ty, outer_fn, names)
            i = e + 1
        elif kw == "fn":
            name = toks[i + 1].t
            j = i + 2
            if toks[j].t == "<":
                j = skip_angles(rel, toks, j)
            if toks[j].t != "(":
                raise Bad(f"{rel}:{t.line}: fn {name}: parameter list not found")
            pe = match_close(rel, toks, j)
            k = pe + 1
            while toks[k].t not in ("{", ";"):
                if toks[k].t == "<":
                    k = skip_angles(rel, toks, k); continue
                if toks[k].t in OPEN:
                    k = match_close(rel, toks, k)
                k += 1
            qual = "::".join(x for x in (self_ty if not outer_fn else None, outer_fn, name) if x)
            if mentions_hash(toks[pe + 1:k], names):
                fi.hash_fns.add(name)
            if toks[k].t == ";":
                if mentions_hash(toks[i:k], names):
                    fi.fns.append(dict(name=qual, params=(j + 1, pe), ret=(pe + 1, k), body=None, self_ty=self_ty, nested=[]))
                i = k + 1
            else:
                e = match_close(rel, toks, k)
                f = dict(name=qual, params=(j + 1, pe), ret=(pe + 1, k), body=(k + 1, e), self_ty=self_ty, nested=[])
                fi.fns.append(f)
                # nested items inside the body (fn / impl / struct ...) are found by a shallow scan
                find_nested(fi, f, k + 1, e, self_ty, qual, names)
                i = e + 1
        elif kw == "macro_rules":
            e = item_end(rel, toks, i, b)
            if mentions_hash(toks[i:e], names):
                fi.loose_hash.append((t.line, "macro_rules! " + toks[i + 2].t))
            i = e
        elif kw == "extern" or (t.k == "id" and toks[i + 1].t == "!"):
            i = item_end(rel, toks, i, b)      # extern crate / item-position macro call
        elif t.t == ";":
            i += 1
        else:
            raise Bad(f"{rel}:{t.line}: unrecognised item starting with `{t.t}`")


def find_nested(fi, f, a, b, self_ty, qual, names):
    """Item declarations inside a fn body: analysed as items of their own, excluded from the body scan."""
    rel, toks = fi.rel, fi.toks
    i = a
    while i < b:
        t = toks[i]
        if t.k == "id" and t.t in ("fn", "struct", "enum", "impl", "mod", "trait") and \
                (i == a or toks[i - 1].t in (";", "{", "}", "pub", "]", "async", "unsafe", "const")) and toks[i + 1].k == "id" \
                and not (t.t == "impl" and False):
            # `impl Trait` in type position is preceded by ':' '->' '<' '&' ',' '(' : not matched above
            s = i
            while s > a and (toks[s - 1].t in ("pub", "async", "unsafe", "const")):
                s -= 1
            # attributes directly before
            while s - 1 > a and toks[s - 1].t == "]":
                o = s - 1
                depth = 0
                while o > a:
                    if toks[o].t == "]":
                        depth += 1
                    elif toks[o].t == "[":
                        depth -= 1
                        if depth == 0:
                            break
                    o -= 1
                if toks[o - 1].t == "#":
                    s = o - 1
                else:
                    break
            e = item_end(rel, toks, i, b)
            parse_items(fi, s, e, self_ty if t.t == "fn" else None, qual if t.t == "fn" else qual, names)
            f["nested"].append((s, e))
            i = e
            continue
        i += 1


# ----------------------------------------------------------------------------------------------- typing

class World:
    """all files; struct/field tables for receiver typing"""

    def __init__(self, files):
        self.files = files
        self.names_of = {fi.rel: fi.names for fi in files}
        self.hash_fns = set().union(*[fi.hash_fns for fi in files]) if files else set()
        self.by_field = {}     # field -> list of (rel, struct, hashy)
        for fi in files:
            for s, fl in fi.structs.items():
                for fn_, ty in fl.items():
                    self.by_field.setdefault(fn_, []).append((fi.rel, s, mentions_hash(ty, fi.names)))
        self.index_outputs = {}
        for fi in files:
            for t, outs in fi.index_outputs.items():
                st = self.struct(fi.rel, t)
                if st is not None:
                    self.index_outputs.setdefault((st[0], t), set()).update(outs)
        self.hash_variants = {}
        for fi in files:
            for v, tys in fi.variants.items():
                hs = [mentions_hash(ty, fi.names) for ty in tys]
                if any(hs):
                    self.hash_variants.setdefault(v, []).append((fi.rel, hs))

    def elem_types(self, rel, ty):
        """candidate (naming file, type name) pairs for a type written in file rel"""
        b = self.base_type(ty)
        return [(rel, b)] if b else []

    def struct(self, rel, name):
        """(defining file, field table) of struct `name` as named from file rel: same file, else the only one in the
        same crate, else the only one anywhere; None when unknown or not unique."""
        cands = [(fi.rel, fi.structs[name]) for fi in self.files if name in fi.structs]
        if not cands:
            return None
        same = [c for c in cands if c[0] == rel]
        if same:
            return same[0]
        crate = rel.split("/src/")[0]
        samec = [c for c in cands if c[0].split("/src/")[0] == crate]
        if len(samec) == 1:
            return samec[0]
        if len(cands) == 1:
            return cands[0]
        return None

    def base_type(self, ty):
        """first path's last segment of a type, after & / mut / lifetimes / Box / Rc / Arc wrappers"""
        i = 0
        while i < len(ty) and (ty[i].t in ("&", "mut", "dyn") or ty[i].k == "life"):
            i += 1
        last = None
        while i < len(ty):
            if ty[i].k == "id":
                last = ty[i].t
                if i + 1 < len(ty) and ty[i + 1].t == "::":
                    i += 2; continue
                if last in ("Box", "Rc", "Arc") and i + 1 < len(ty) and ty[i + 1].t == "<":
                    i += 2
                    while i < len(ty) and (ty[i].t in ("&", "mut", "dyn") or ty[i].k == "life"):
                        i += 1
                    continue
            break
        return last


HASH, NOT, AMBIG, UNKNOWN = "RHash", "NOT", "RAmbiguous", "UNKNOWN"


class FnScan:
    def __init__(self, world, fi, f):
        self.w, self.fi, self.f = world, fi, f
        self.rel, self.toks, self.names = fi.rel, fi.toks, fi.names
        self.hashy = {}        # local name -> reason
        self.typed = {}        # local name -> type tokens (non-hash annotated)
        self.iters = {}        # local name -> receiver text (bound to an iterator over a hash place)
        self.sites = []
        self.explained = set() # token indexes of hash-type mentions that are accounted for
        self.returns_hash = False

    def in_nested(self, i):
        return any(a <= i < b for a, b in self.f["nested"])

    # -- places ------------------------------------------------------------------------------------
    def path_back(self, i):
        """tokens ending at index i (inclusive) that form a pure place `a.b.0.c`; returns (start, complete).
        complete=False when the place continues behind a call/index/`?` (root unknown)."""
        toks = self.toks
        j = i
        if not (toks[j].k in ("id", "num")):
            return None, False
        while j - 2 >= 0 and toks[j - 1].t == "." and toks[j - 2].k in ("id", "num"):
            j -= 2
        if j - 1 >= 0 and toks[j - 1].t == ".":
            return j, False          # preceded by `)`/`]`/`?` etc.
        if j - 1 >= 0 and toks[j - 1].t == "::":
            return j, False          # a path like Foo::bar, not a place
        return j, True

    def walk(self, cands, segs):
        """follow field names from the candidate (file, struct name) pairs; HASH / NOT / AMBIG, or None when a
        type is not a (unique) workspace struct (then the field name decides)"""
        for n, s in enumerate(segs):
            last = n == len(segs) - 1
            hits, nxt, known = [], [], False
            for crel, c in cands:
                st = self.w.struct(crel, c)
                if st is None:
                    return None
                drel, tbl = st
                if s not in tbl:
                    continue
                known = True
                ty = tbl[s]
                if mentions_hash(ty, self.w.names_of[drel]):
                    hits.append(True)
                else:
                    hits.append(False)
                    nxt += self.w.elem_types(drel, ty)
            if not known:
                return None
            if any(hits):
                if not last:
                    return NOT      # a value stored in the container, not the container
                return HASH if all(hits) else AMBIG
            if last:
                return NOT
            cands = nxt
        return NOT

    def classify_place(self, start, end, complete):
        """classify toks[start..end] (inclusive) as HASH / NOT / AMBIG"""
        toks = self.toks
        segs = [toks[k].t for k in range(start, end + 1, 2)]
        if complete:
            root = segs[0]
            if root in self.hashy:
                return HASH if len(segs) == 1 else self.by_name(segs[-1])
            if len(segs) == 1:
                return NOT
            cands = None
            if root == "self" and self.f["self_ty"]:
                cands = [(self.rel, self.f["self_ty"])]
            elif root in self.typed:
                cands = self.typed[root]
            if cands:
                r = self.walk(cands, segs[1:])
                if r is not None:
                    return r
            return self.by_name(segs[-1])
        # root unknown: the last segment must be a field
        if len(segs) == 1 and not (start - 1 >= 0 and toks[start - 1].t == "."):
            return NOT
        return self.by_name(segs[-1])

    def by_name(self, field):
        # a private field can only be named inside the module (file) that declares the struct
        c = [(r, st, h) for r, st, h in self.w.by_field.get(field, [])
             if visible_from(r, self.rel) or (r, st, field) in PUBFIELDS]
        if not c or not any(h for _, _, h in c):
            return NOT
        if all(h for _, _, h in c):
            return HASH
        return AMBIG

    # -- statements --------------------------------------------------------------------------------
    def stmt_bounds(self, i):
        """(start, end_exclusive, kind) of the statement containing token i inside the innermost {} block."""
        toks = self.toks
        a0, b0 = self.f["body"]
        # backwards to the start
        j, depth = i - 1, 0
        arm = False
        while j >= a0:
            t = toks[j]
            if t.k == "p":
                if t.t in CLOSE:
                    if t.t == "}" and depth == 0:
                        # a block that ended before our statement... unless it is part of the same expression
                        # (e.g. `if c { a } else { b }.iter()`), which we do not try to support
                        break
                    depth += 1
                elif t.t in OPEN:
                    if depth == 0:
                        if t.t == "{":
                            break
                        # inside (...) or [...]: keep climbing out to the enclosing block
                        j -= 1; continue
                    depth -= 1
                elif t.t == ";" and depth == 0:
                    break
                elif t.t == "=>" and depth == 0:
                    arm = True; break
            j -= 1
        start = j + 1
        # forwards to the end
        k, stack = start, []
        head = toks[start].t if toks[start].k == "id" else ""
        if head == "for":
            # header up to `{` at depth 0, plus the body
            while not (toks[k].t == "{" and not stack):
                if toks[k].k == "p" and toks[k].t in OPEN:
                    k = match_close(self.rel, toks, k)
                k += 1
            return start, match_close(self.rel, toks, k) + 1, "for"
        if head in ("if", "while", "match"):
            while not (toks[k].t == "{" and not stack):
                if toks[k].k == "p" and toks[k].t in OPEN:
                    k = match_close(self.rel, toks, k)
                k += 1
            if i < k:
                return start, k, head
            # the site is in a later part of the chain (else-branch header etc.): fall through
        k = start
        while k < b0:
            t = toks[k]
            if t.k == "p":
                if t.t in OPEN:
                    k = match_close(self.rel, toks, k)
                elif t.t in CLOSE:
                    break
                elif t.t == ";":
                    k += 1; break
                elif t.t == "," and arm:
                    break
            k += 1
        return start, k, "arm" if arm else "stmt"

    def add_site(self, i, recv, obs, res, note=""):
        toks = self.toks
        a, b, kind = self.stmt_bounds(i)
        full = text(toks[a:b])
        # the result is bound to a local: what happens to it afterwards is part of the site
        if toks[a].k == "id" and toks[a].t == "let" and obs != "binding":
            k = a + 1
            if toks[k].t == "mut":
                k += 1
            if toks[k].k == "id" and toks[k + 1].t in ("=", ":"):
                v = toks[k].t
                a0, b0 = self.f["body"]
                seen, uses = {a}, []
                for j in range(b, b0):
                    if toks[j].k == "id" and toks[j].t == v and toks[j - 1].t != "." and not self.in_nested(j):
                        ua, ub, _ = self.stmt_bounds(j)
                        if ua not in seen:
                            seen.add(ua)
                            uses.append(text(toks[ua:ub]))
                if uses:
                    full += " ;; then: " + " ;; ".join(uses)
        self.sites.append(dict(file=self.rel, fn=self.f["name"], recv=recv, obs=obs, res=res, stmt=full,
                               line=self.toks[i].line, key=(a, recv), note=note))

    # -- scan --------------------------------------------------------------------------------------
    def bind_params(self):
        toks = self.toks
        a, b = self.f["params"]
        i, start, depth = a, a, 0
        parts = []
        while i <= b:
            u = toks[i] if i < b else None
            if u is None or (u.t == "," and depth == 0 and u.k == "p"):
                if start < i:
                    parts.append((start, i))
                start = i + 1
            elif u.k == "p":
                if u.t in OPEN:
                    i = match_close(self.rel, toks, i)
                elif u.t == "<":
                    depth += 1
                elif u.t == ">":
                    depth -= 1
            i += 1
        for s, e in parts:
            c = [k for k in range(s, e) if toks[k].t == ":" and toks[k].k == "p"]
            if not c:
                continue   # self / &self / &mut self
            pat, ty = toks[s:c[0]], toks[c[0] + 1:e]
            ids = [x.t for x in pat if x.k == "id" and x.t not in ("mut", "ref")]
            if mentions_hash(ty, self.names):
                for k in range(c[0] + 1, e):
                    if toks[k].k == "id" and toks[k].t in self.names:
                        self.explained.add(k)
                for n in ids:
                    self.hashy[n] = "parameter"
            elif len(ids) == 1:
                self.typed[ids[0]] = self.w.elem_types(self.rel, ty)
        ra, rb = self.f["ret"]
        for k in range(ra, rb):
            if toks[k].k == "id" and toks[k].t in self.names:
                self.explained.add(k)
                self.returns_hash = True

    def init_is_hash_place(self, a, b):
        """tokens a..b (exclusive) = `&`/`&mut`/`*` + pure place [+ .clone()/.to_owned()/.borrow()...]"""
        toks = self.toks
        i = a
        while i < b and toks[i].t in ("&", "mut", "*"):
            i += 1
        # std::mem::take(&mut place) / mem::replace(&mut place, ..)
        txt = "".join(t.t for t in toks[i:b])
        m = re.match(r"(?:std::)?mem::(?:take|replace)\(&mut", txt)
        if m:
            k = i
            while toks[k].t != "(":
                k += 1
            i = k + 3
            e = i
            while e + 2 < b and toks[e + 1].t == "." and toks[e + 2].k in ("id", "num"):
                e += 2
            return self.classify_place(i, e, True) in (HASH, AMBIG)
        if i >= b or toks[i].k != "id":
            return False
        e = i
        while e + 2 < b and toks[e + 1].t == "." and toks[e + 2].k in ("id", "num") and not (e + 3 < b and toks[e + 3].t == "("):
            e += 2
        rest = "".join(t.t for t in toks[e + 1:b])
        if rest not in ("", ".clone()", ".to_owned()", ".borrow()", ".borrow_mut()", ".as_ref()", ".as_mut()"):
            return False
        return self.classify_place(i, e, True) == HASH

    def scan_lets(self):
        toks = self.toks
        a0, b0 = self.f["body"]
        i = a0
        while i < b0:
            if self.in_nested(i):
                i += 1; continue
            t = toks[i]
            if t.k == "id" and t.t == "let":
                # pattern
                j = i + 1
                while j < b0 and not (toks[j].k == "p" and toks[j].t in (":", "=", ";") and True):
                    if toks[j].k == "p" and toks[j].t in OPEN:
                        j = match_close(self.rel, toks, j)
                    j += 1
                pat = toks[i + 1:j]
                ty = []
                k = j
                if toks[j].t == ":":
                    k = j + 1
                    depth = 0
                    while k < b0 and not (toks[k].t in ("=", ";") and depth == 0 and toks[k].k == "p"):
                        if toks[k].k == "p":
                            if toks[k].t in OPEN:
                                k = match_close(self.rel, toks, k)
                            elif toks[k].t == "<":
                                depth += 1
                            elif toks[k].t == ">":
                                depth -= 1
                        k += 1
                    ty = toks[j + 1:k]
                init_a = init_b = k
                if toks[k].t == "=":
                    init_a = k + 1
                    e = init_a
                    cond = i > a0 and toks[i - 1].k == "id" and toks[i - 1].t in ("if", "while")
                    while e < b0:
                        u = toks[e]
                        if u.k == "p":
                            if u.t == "{" and cond:
                                break
                            if u.t in OPEN:
                                e = match_close(self.rel, toks, e)
                            elif u.t == ";" or u.t in CLOSE:
                                break
                        elif u.k == "id" and u.t == "else" and not cond:
                            break
                        e += 1
                    init_b = e
                ids = [x.t for x in pat if x.k == "id" and x.t not in ("mut", "ref")]
                simple = len(ids) == 1 and all(x.k == "id" for x in pat)
                init = toks[init_a:init_b]
                why = None
                if mentions_hash(ty, self.names):
                    why = "annotated local"
                elif any(init[x].k == "id" and init[x].t in self.names and x + 1 < len(init) and init[x + 1].t in ("::", "<")
                         for x in range(len(init))) and self.ctor_or_turbofish(init_a, init_b):
                    why = "constructed local"
                elif not ty and "".join(x.t for x in init) in ("Default::default()", "std::default::Default::default()"):
                    why = "local of inferred type (Default::default())"
                elif init and self.init_is_hash_place(init_a, init_b):
                    why = "copy/borrow of a hash place"
                elif init and not ty and self.hash_call_end(init_a, init_b):
                    why = "returned by " + self.hash_call_end(init_a, init_b) + "()"
                if why:
                    for x in range(j, init_b):
                        if toks[x].k == "id" and toks[x].t in self.names:
                            self.explained.add(x)
                    if simple:
                        self.hashy[ids[0]] = why
                    else:
                        self.add_site(i, text(pat)[:60], "binding", "RUnrecognised", "hash type bound by a complex let pattern")
                elif not simple and self.destructure(i + 1, j):
                    pass
                elif simple and ty:
                    self.typed[ids[0]] = self.w.elem_types(self.rel, ty)
                elif simple and init:
                    # `let x = &place;` with a typed non-hash place: remember the place's type when resolvable
                    pty = self.place_type(init_a, init_b)
                    if pty:
                        self.typed[ids[0]] = pty
                i = j
                continue
            i += 1

    def destructure(self, a, b):
        """`Path::Struct { f, g: x, ref h, .. }` in toks[a:b]: variables bound to hash-typed fields become hash locals"""
        toks = self.toks
        k = a
        while k + 1 < b and toks[k].k == "id" and toks[k + 1].t == "::":
            k += 2
        if not (k + 1 < b and toks[k].k == "id" and toks[k + 1].t == "{"):
            return False
        st = self.w.struct(self.rel, toks[k].t)
        if st is None:
            return False
        drel, tbl = st
        e = match_close(self.rel, toks, k + 1)
        x = k + 2
        found = False
        while x < e:
            y, depth = x, 0
            while y < e and not (toks[y].t == "," and depth == 0 and toks[y].k == "p"):
                if toks[y].k == "p" and toks[y].t in OPEN:
                    y = match_close(self.rel, toks, y)
                y += 1
            item = [t for t in toks[x:y] if not (t.k == "id" and t.t in ("ref", "mut"))]
            if item and item[0].k == "id" and item[0].t in tbl and mentions_hash(tbl[item[0].t], self.w.names_of[drel]):
                found = True
                if len(item) == 1:
                    self.hashy[item[0].t] = "destructured field " + toks[k].t + "." + item[0].t
                elif len(item) == 3 and item[1].t == ":" and item[2].k == "id":
                    self.hashy[item[2].t] = "destructured field " + toks[k].t + "." + item[0].t
                else:
                    self.add_site(x, text(toks[x:y])[:60], "binding", "RUnrecognised", "hash field bound by a nested pattern")
            x = y + 1
        return found

    def hash_call_end(self, a, b):
        """toks[a:b] is `.. name(args)` [`?` | `.unwrap()` | `.expect(..)` | `.clone()`]* with name a hash-returning fn;
        returns the name or None"""
        toks = self.toks
        e = b - 1
        while e > a:
            if toks[e].t == "?":
                e -= 1; continue
            if toks[e].t == ")":
                o = e
                depth = 0
                while o >= a:
                    if toks[o].t in CLOSE and toks[o].k == "p":
                        depth += 1
                    elif toks[o].t in OPEN and toks[o].k == "p":
                        depth -= 1
                        if depth == 0:
                            break
                    o -= 1
                if o - 1 >= a and toks[o - 1].k == "id":
                    if toks[o - 1].t in ("unwrap", "expect", "clone", "unwrap_or_default") and o - 2 >= a and toks[o - 2].t == ".":
                        e = o - 3; continue
                    return toks[o - 1].t if toks[o - 1].t in self.w.hash_fns else None
            return None
        return None

    def ctor_or_turbofish(self, a, b):
        """the initialiser's hash-type mention is `HashX::..(` at the head, or inside `collect::<..>` / `::<..>`"""
        toks = self.toks
        i = a
        while i < b and toks[i].t in ("&", "mut"):
            i += 1
        # head path
        k = i
        while k + 1 < b and toks[k].k == "id" and toks[k + 1].t == "::":
            if toks[k].t in self.names:
                return True
            k += 2
        if k < b and toks[k].k == "id" and toks[k].t in self.names:
            return True
        # trailing `.collect::<HashX<..>>()` (possibly followed by `?` / `.unwrap()`...)
        txt = "".join(t.t for t in toks[a:b])
        return re.search(r"\.collect::<(?:[A-Za-z_:]*::)?(?:%s)\b" % "|".join(sorted(self.names)), txt) is not None

    def place_type(self, a, b):
        """candidate struct names of `&place` or `&place[index]` (through `impl Index for T { type Output }`)"""
        toks = self.toks
        i = a
        while i < b and toks[i].t in ("&", "mut", "*"):
            i += 1
        if i >= b or toks[i].k != "id":
            return None
        segs = [toks[i].t]
        e = i
        while e + 2 < b and toks[e + 1].t == "." and toks[e + 2].k in ("id", "num") and not (e + 3 < b and toks[e + 3].t == "("):
            e += 2; segs.append(toks[e].t)
        indexed = False
        if e + 1 < b and toks[e + 1].t == "[" and match_close(self.rel, toks, e + 1) == b - 1:
            indexed = True
        elif e + 1 != b:
            return None
        if segs[0] == "self" and self.f["self_ty"]:
            cands = [(self.rel, self.f["self_ty"])]
        elif segs[0] in self.typed:
            cands = self.typed[segs[0]]
        else:
            return None
        for s in segs[1:]:
            nxt = []
            for crel, c in cands:
                st = self.w.struct(crel, c)
                if st is None:
                    return None
                drel, tbl = st
                if s in tbl:
                    if mentions_hash(tbl[s], self.w.names_of[drel]):
                        return None
                    nxt += self.w.elem_types(drel, tbl[s])
            cands = nxt
        if indexed:
            outs = []
            for crel, c in cands:
                st = self.w.struct(crel, c)
                if st is None:
                    return None
                o = self.w.index_outputs.get((st[0], c))
                if not o:
                    return None
                outs += sorted(o)
            cands = outs
        return cands or None

    def scan_patterns(self):
        """`Variant(x)` patterns of variants with a hash payload bind x to a hash container"""
        toks = self.toks
        a0, b0 = self.f["body"]
        for i in range(a0, b0 - 3):
            if self.in_nested(i):
                continue
            t = toks[i]
            if t.k == "id" and t.t in self.w.hash_variants and toks[i + 1].t == "(":
                e = match_close(self.rel, toks, i + 1)
                inner = toks[i + 2:e]
                ids = [x.t for x in inner if x.k == "id" and x.t not in ("mut", "ref")]
                if len(inner) <= 3 and len(ids) == 1 and all(x.k == "id" or x.t == "&" for x in inner) and ids[0] != "_" \
                        and not ids[0][0].isupper():
                    # pattern or constructor call with a variable: either way the variable is hash-typed
                    self.hashy.setdefault(ids[0], "bound to the payload of " + t.t)

    def scan_uses(self):
        toks = self.toks
        a0, b0 = self.f["body"]
        i = a0
        while i < b0:
            if self.in_nested(i):
                i += 1; continue
            t = toks[i]
            # for PAT in EXPR {
            if t.k == "id" and t.t == "for" and toks[i + 1].t != "<":
                j = i + 1
                while not (toks[j].k == "id" and toks[j].t == "in"):
                    if toks[j].k == "p" and toks[j].t in OPEN:
                        j = match_close(self.rel, toks, j)
                    j += 1
                    if j >= b0:
                        raise Bad(f"{self.rel}:{t.line}: `for` without `in`")
                k = j + 1
                while not (toks[k].t == "{" and toks[k].k == "p"):
                    if toks[k].k == "p" and toks[k].t in OPEN:
                        k = match_close(self.rel, toks, k)
                    k += 1
                s = j + 1
                while s < k and toks[s].t in ("&", "mut", "*"):
                    s += 1
                if s < k and toks[k - 1].t in (")", "?") and self.hash_call_end(s, k):
                    self.add_site(i, self.hash_call_end(s, k) + "()", "for", HASH)
                if s < k and all((toks[x].k in ("id", "num")) if (x - s) % 2 == 0 else toks[x].t == "." for x in range(s, k)) \
                        and (k - s) % 2 == 1:
                    res = self.classify_place(s, k - 1, True)
                    if res in (HASH, AMBIG):
                        self.add_site(i, text(toks[s:k]), "for", res)
            # .method(
            if t.t == "." and t.k == "p" and i + 2 < b0 and toks[i + 1].k == "id" and toks[i + 2].t in ("(", "::"):
                m = toks[i + 1].t
                if m in OBSERVERS and toks[i - 1].t == ")":
                    a_, b_, _ = self.stmt_bounds(i)
                    fn_ = self.hash_call_end(a_, i)
                    if fn_:
                        self.add_site(i, fn_ + "()", m, HASH)
                if m in OBSERVERS:
                    start, complete = self.path_back(i - 1)
                    if start is not None:
                        res = self.classify_place(start, i - 1, complete)
                        if res in (HASH, AMBIG):
                            recv = ("" if complete else "(..).") + text(toks[start:i])
                            # chained steps in the same expression
                            obs = [m]
                            k = i + 2
                            while True:
                                if toks[k].t == "::":
                                    k = skip_angles(self.rel, toks, k + 1)
                                k = match_close(self.rel, toks, k) + 1
                                if toks[k].t == "." and toks[k + 1].k == "id" and toks[k + 2].t in ("(", "::"):
                                    if toks[k + 1].t in ITER_STEPS | OBSERVERS:
                                        obs.append(toks[k + 1].t)
                                    k += 2
                                else:
                                    break
                            self.add_site(i, recv, "+".join(obs), res)
            # macro!(.., place, ..) / "{local:?}"
            if t.k == "id" and toks[i + 1].t == "!" and toks[i + 2].k == "p" and toks[i + 2].t in OPEN and \
                    t.t not in ("matches", "cfg", "macro_rules"):
                e = match_close(self.rel, toks, i + 2)
                s0, depth = i + 3, 0
                k = s0
                while k <= e:
                    u = toks[k]
                    if k == e or (u.k == "p" and u.t == "," and depth == 0):
                        x, y = s0, k
                        if y - x >= 3 and toks[x].k == "id" and toks[x + 1].t == "=" and toks[x + 2].t != "=":
                            x += 2
                        while x < y and toks[x].t in ("&", "mut", "*"):
                            x += 1
                        if x < y and (y - x) % 2 == 1 and all((toks[q].k in ("id", "num")) if (q - x) % 2 == 0 else toks[q].t == "."
                                                               for q in range(x, y)) and toks[x].k == "id":
                            res = self.classify_place(x, y - 1, True)
                            if res in (HASH, AMBIG):
                                self.add_site(x, text(toks[x:y]), "macro-arg:" + t.t, res)
                        if y - x == 1 and toks[x].k == "str":
                            for mm in re.finditer(r"\{([A-Za-z_][A-Za-z0-9_]*)(?::[^}]*)?\}", toks[x].t):
                                if mm.group(1) in self.hashy:
                                    self.add_site(x, mm.group(1), "format-inline:" + t.t, HASH)
                        s0 = k + 1
                    elif u.k == "p" and u.t in OPEN:
                        k = match_close(self.rel, toks, k)
                    k += 1
            # consumer(place)
            if t.k == "id" and t.t in CONSUMERS and toks[i + 1].t == "(" and i > a0 and toks[i - 1].t in (".", "::"):
                e = match_close(self.rel, toks, i + 1)
                s = i + 2
                while s < e and toks[s].t in ("&", "mut", "*"):
                    s += 1
                if s < e and (e - s) % 2 == 1 and all((toks[x].k in ("id", "num")) if (x - s) % 2 == 0 else toks[x].t == "."
                                                       for x in range(s, e)):
                    res = self.classify_place(s, e - 1, True)
                    if res in (HASH, AMBIG):
                        self.add_site(i, text(toks[s:e]), t.t + "-from", res)
            i += 1

    def scan_loose(self):
        """hash type mentions in the body that no rule above accounted for"""
        toks = self.toks
        a0, b0 = self.f["body"]
        for i in range(a0, b0):
            if self.in_nested(i) or i in self.explained:
                continue
            t = toks[i]
            if t.k == "id" and t.t in self.names:
                # struct-literal field initialiser `field: HashMap::new()` / assignment to a hash place: harmless
                a, b, _ = self.stmt_bounds(i)
                j = i
                while j - 2 >= a and toks[j - 1].t == "::":
                    j -= 2
                prev = toks[j - 1].t if j - 1 >= a0 else ""
                if prev == ":" and toks[j - 2].k == "id" and self.by_name(toks[j - 2].t) in (HASH, AMBIG):
                    continue
                if self.returns_hash and i + 1 < b0 and toks[i + 1].t in ("::", "<"):
                    continue
                if prev == "=" and toks[j - 2].k in ("id", "num"):
                    s, c = self.path_back(j - 2)
                    if s is not None and self.classify_place(s, j - 2, c) in (HASH, AMBIG):
                        continue
                self.add_site(i, text(toks[max(a, i - 3):min(b, i + 4)])[:80], "mention", "RUnrecognised",
                              "hash container type in an unrecognised position")

    def run(self):
        if self.f["body"] is None:
            return
        self.bind_params()
        # two rounds so that `let a = HashMap::new(); let b = &a;` and typed locals are known to later lets
        self.scan_patterns()
        self.scan_lets()
        self.sites = []
        self.scan_lets()
        self.scan_uses()
        self.scan_loose()
        # merge duplicate (statement, receiver) sites
        merged = {}
        for s in self.sites:
            k = s["key"]
            if k in merged:
                if s["obs"] not in merged[k]["obs"].split("|"):
                    merged[k]["obs"] += "|" + s["obs"]
            else:
                merged[k] = s
        self.sites = list(merged.values())


# ----------------------------------------------------------------------------------------------- main

def coq_str(s):
    s = "".join(c if 32 <= ord(c) < 127 else "?" for c in s)
    return '"' + s.replace('"', '""') + '"'


def source_files():
    out = []
    roots = [os.path.join(REPO, "src")]
    cdir = os.path.join(REPO, "crates")
    if not os.path.isdir(cdir):
        raise Bad(f"{cdir} not found")
    for c in sorted(os.listdir(cdir)):
        p = os.path.join(cdir, c, "src")
        if os.path.isdir(p):
            roots.append(p)
    for r in roots:
        if not os.path.isdir(r):
            raise Bad(f"{r} not found")
        for dp, dn, fs in os.walk(r):
            dn.sort()
            for f in sorted(fs):
                if f.endswith(".rs"):
                    out.append(os.path.relpath(os.path.join(dp, f), REPO))
    return sorted(out)


def main():
    rels = source_files()
    if len(rels) < 20:
        raise Bad(f"only {len(rels)} source files found under {REPO}")
    lexed = {}
    own_alias = {}      # rel -> {alias name}: `use .. HashMap as X`, `type X = ..HashMap..`
    type_alias = {}     # rel -> {alias name}: the `type` ones (nameable from other files through `use`)
    for rel in rels:
        try:
            src = open(os.path.join(REPO, rel), encoding="utf-8").read()
        except (OSError, UnicodeDecodeError) as e:
            raise Bad(f"cannot read {rel}: {e}")
        lexed[rel] = lex(rel, src)
        tk = lexed[rel]
        own_alias[rel], type_alias[rel] = set(), set()
        for k in range(len(tk) - 2):
            if tk[k].k == "id" and tk[k].t in BASE_HASH and tk[k + 1].t == "as" and tk[k + 2].k == "id":
                own_alias[rel].add(tk[k + 2].t)
            if tk[k].k == "id" and tk[k].t == "type" and tk[k + 1].k == "id" and k + 2 < len(tk) and tk[k + 2].t in ("=", "<"):
                e = k
                while tk[e].t != ";" and e < len(tk) - 1:
                    e += 1
                if any(x.k == "id" and x.t in BASE_HASH for x in tk[k + 2:e]):
                    own_alias[rel].add(tk[k + 1].t)
                    if k > 0 and (tk[k - 1].t == "pub" or (tk[k - 1].t == ")" and k > 3 and tk[k - 4].t == "pub")):
                        type_alias[rel].add(tk[k + 1].t)      # only a `pub` alias can be imported elsewhere
    all_type_aliases = set().union(*type_alias.values()) if type_alias else set()
    files = []
    for rel in rels:
        fi = FileInfo(rel, lexed[rel])
        fi.names |= own_alias[rel]
        # a type alias of another file is in scope here only if a `use` item names it
        tk = fi.toks
        k = 0
        while k < len(tk):
            if tk[k].k == "id" and tk[k].t == "use":
                e = k
                while tk[e].t != ";":
                    e += 1
                fi.names |= {x.t for x in tk[k:e] if x.k == "id" and x.t in all_type_aliases}
                if any(x.t == "*" for x in tk[k:e]):
                    fi.names |= all_type_aliases        # glob import: conservatively everything
                k = e
            k += 1
        # whole-file check of bracket balance
        stack = []
        for t in fi.toks:
            if t.k == "p" and t.t in OPEN:
                stack.append((OPEN[t.t], t.line))
            elif t.k == "p" and t.t in CLOSE:
                if not stack or stack[-1][0] != t.t:
                    raise Bad(f"{rel}:{t.line}: unbalanced `{t.t}`")
                stack.pop()
        if stack:
            raise Bad(f"{rel}:{stack[-1][1]}: unclosed bracket")
        parse_items(fi, 0, len(fi.toks), None, None, fi.names)
        files.append(fi)
    names = set().union(*[fi.names for fi in files])
    world = World(files)
    sites, bindings = [], []
    nfn = 0
    for fi in files:
        for s, fl in fi.structs.items():
            for fn_, ty in fl.items():
                if mentions_hash(ty, fi.names):
                    bindings.append((fi.rel, s, fn_, "field", text(ty)))
        for v, tys in fi.variants.items():
            for k, ty in enumerate(tys):
                if mentions_hash(ty, fi.names):
                    bindings.append((fi.rel, v, str(k), "variant payload", text(ty)))
        for s, fl in fi.structs.items():
            hf = sorted(fn_ for fn_, ty in fl.items() if mentions_hash(ty, fi.names))
            owner = fi.variant_owner.get(s, s)
            for d in sorted(set(fi.derives.get(owner, [])) & {"Debug", "Serialize", "Display"}):
                for fn_ in hf:
                    sites.append(dict(file=fi.rel, fn="<type " + owner + ">", recv=s + "." + fn_, obs="derive(" + d + ")", res=HASH,
                                      stmt="#[derive(" + d + ")] on " + owner + "; hand-written impls for it: " +
                                      ",".join(sorted(fi.manual_impls.get(owner, []))), line=0, note=""))
        for v, tys in fi.variants.items():
            owner = fi.variant_owner.get(v, v)
            for k, ty in enumerate(tys):
                if mentions_hash(ty, fi.names):
                    for d in sorted(set(fi.derives.get(owner, [])) & {"Debug", "Serialize", "Display"}):
                        sites.append(dict(file=fi.rel, fn="<type " + owner + ">", recv=v + "." + str(k), obs="derive(" + d + ")", res=HASH,
                                          stmt="#[derive(" + d + ")] on " + owner + "; hand-written impls for it: " +
                                          ",".join(sorted(fi.manual_impls.get(owner, []))), line=0, note=""))
        for ln, ctx in fi.loose_hash:
            sites.append(dict(file=fi.rel, fn="<item>", recv=ctx[:80], obs="mention", res="RUnrecognised", stmt=ctx,
                              line=ln, note=""))
        for f in fi.fns:
            nfn += 1
            sc = FnScan(world, fi, f)
            sc.run()
            for n, why in sorted(sc.hashy.items()):
                bindings.append((fi.rel, f["name"], n, why, ""))
            sites += sc.sites
    if nfn < 300:
        raise Bad(f"only {nfn} functions recognised; the item parser lost track")
    sites.sort(key=lambda s: (s["file"], s["fn"], s["recv"], s["obs"], s["stmt"]))
    L = []
    L.append("(** GENERATED by tools/gen/gen_hash_sites.py from the Rust sources -- do not edit. *)")
    L.append("From Coq Require Import String List.")
    L.append("From WacV Require Import HashSiteTypes.")
    L.append("Import ListNotations.")
    L.append("Open Scope string_scope.")
    L.append("")
    L.append("Definition scanned_files : list string := [")
    L.append(";\n".join("  " + coq_str(r) for r in rels))
    L.append("].")
    L.append("")
    L.append(f"Definition scanned_functions : nat := {nfn}.")
    L.append(f"Definition skipped_cfg_items : nat := {sum(fi.skipped for fi in files)}.")
    L.append("Definition hash_type_names : list string := [" + "; ".join(coq_str(n) for n in sorted(names)) + "].")
    L.append("")
    L.append("(** every binding of a hash-ordered container: file, owner (struct / enum variant / function), name, how *)")
    L.append("Definition hash_bindings : list binding := [")
    L.append(";\n".join("  mk_binding %s %s %s %s" % (coq_str(a), coq_str(b), coq_str(c), coq_str(d + (": " + e if e else "")))
                        for a, b, c, d, e in sorted(set(bindings))))
    L.append("].")
    L.append("")
    L.append("(** every order-observing use *)")
    L.append("Definition found_sites : list site := [")
    rows = []
    for s in sites:
        h = hashlib.sha256(s["stmt"].encode()).hexdigest()[:16]
        rows.append("  (* line %d%s *)\n  mk_site %s %s\n    %s %s %s\n    %s\n    %s" % (
            s["line"], (" -- " + s["note"]) if s.get("note") else "", coq_str(s["file"]), coq_str(s["fn"]),
            coq_str(s["recv"]), coq_str(s["obs"]), s["res"], coq_str(s["stmt"][:200]), coq_str(h)))
    L.append(";\n".join(rows))
    L.append("].")
    L.append("")
    new = "\n".join(L)
    os.makedirs(os.path.dirname(OUT), exist_ok=True)
    old = open(OUT).read() if os.path.exists(OUT) else None
    if old != new:
        with open(OUT + ".tmp", "w") as f:
            f.write(new)
        os.replace(OUT + ".tmp", OUT)
    print(f"gen_hash_sites: {len(rels)} files, {nfn} functions, {len(set(bindings))} hash bindings, {len(sites)} sites")


if __name__ == "__main__":
    try:
        main()
    except Bad as e:
        die(str(e))
    except (IndexError, RecursionError) as e:
        import traceback
        traceback.print_exc()
        die("ran off the end of the token stream (unexpected syntax): " + repr(e))
